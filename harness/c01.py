"""C01 — tree log-likelihood equals exact marginalisation over ancestral states.

Lean side : TTModel/C01_{Tree,Pruning,Patterns}.lean (model of setup_indexes / update_traversals /
            calculate_treelikelihood_discrete / ..._tip_states_discrete / compress / tip vectors),
            TTGen/C01_Alphabet.lean regenerated from datatype.py, theorems in TTProofs/Props/C01.lean
            (peel_eq_marginal: the index-addressed loop on the post-order of ANY binary tree equals the sum
            over ALL labelings, over any commutative semiring; compress_sum; iupac_table; ...).
Tie       : (t) generated table vs the real DataType objects, all 128 characters;
            (a) exact: the real calculate_treelikelihood_discrete / _tip_states_discrete called with
                small-integer non-symmetric matrices; root partials compared bit-exactly with the Rat model;
            (b) discrete: postorder / preorder / leaf index map / patterns / weights / tip vectors of models
                built from JSON vs the Lean functions;
            (c) float: the whole pipeline of a TreeLikelihoodModel built from JSON re-run in the Lean Float
                model (Lean's own indices, branch lengths, assembly, patterns, tip vectors; torch supplies
                only p_t of Lean's times), 1e-10.
            (e) LIVE-object histories (harness/c01_live.py): one model object, parameters updated one at a time
                through `parameter.tensor = …`, other observables read in between (node heights, branch lengths, a
                coalescent prior on the same tree), re-evaluated; compared with the oracle at the CURRENT values and
                with a freshly built model (time trees with explicit heights / ratios + root height, strict and
                per-branch clocks, unrooted trees with explicit branch lengths).
Search    : (d) the property's own oracle — explicit sum over all labelings, written in the harness with its
            own tree parser and numbering — against the real TreeLikelihoodModel for every labelled rooted
            binary topology with 3..5 taxa (6 in the thorough tier) and random larger trees.  Always run.
"""
from __future__ import annotations

import json
import math
import sys
import time
from fractions import Fraction
from pathlib import Path

from common import REPO, VERIF, Check, InfraError, f2h, h2f, use_repo

sys.path.insert(0, str(VERIF / "harness" / "translators"))
import tr_datatype  # noqa: E402
import c01_gen as G  # noqa: E402
import c01_live as LV  # noqa: E402
import c01_regimes as RG  # noqa: E402
import c01_routes as RT  # noqa: E402
import tr_likelihood_options  # noqa: E402

TOL_LEAN = 1e-10
TOL_ORACLE = 1e-9
PROPS = "TTProofs/Props/C01.lean"


def close(a, b, tol):
    if math.isinf(a) or math.isinf(b) or math.isnan(a) or math.isnan(b):
        return a == b
    return abs(a - b) <= tol * max(1.0, abs(a), abs(b))


def setup_torch():
    use_repo()
    import torch

    torch.set_num_threads(2)
    torch.set_default_dtype(torch.float64)
    return torch


# ------------------------------------------------------------------------------------------ (t)
def table_correspondence(ck: Check, drv):
    from torchtree.evolution.datatype import AminoAcidDataType, NucleotideDataType

    for aa, dt in ((0, NucleotideDataType(None)), (1, AminoAcidDataType(None))):
        for ua in (0, 1):
            for o in range(128):
                c = chr(o)
                try:
                    want_p = "".join(str(int(v)) for v in dt.partial(c, bool(ua)))
                    want_s = str(min(dt.encoding(c), dt.state_count))
                    if any(v not in (0.0, 1.0) for v in dt.partial(c, bool(ua))):
                        want_p = "non01"
                except Exception as e:  # noqa: BLE001
                    want_p, want_s = "x", "x"
                rep = drv.ask(f"sym {aa} {ua} {o}")
                ck.case(key=("sym", aa, ua, o), bucket="table/" + ("aa" if aa else "nuc"),
                        sample={"char": c, "use_ambiguities": bool(ua), "tip_vector": want_p} if o in (82, 45) else None)
                if rep != f"ok {want_p} {want_s}":
                    ck.mismatch("tip vector table differs from generated table",
                                {"datatype": "aa" if aa else "nuc", "ord": o, "use_ambiguities": ua, "impl": [want_p, want_s], "model": rep})


# ------------------------------------------------------------------------------------------ (a)
def exact_direct(ck: Check, drv, torch, count):
    import torchtree.evolution.tree_likelihood as tl

    rng = ck.rng
    for it in range(count):
        n = rng.choice([2, 3, 3, 4, 4, 5])
        S = rng.choice([2, 3, 4])
        K = rng.choice([1, 2, 3])
        N = rng.choice([1, 2, 3])
        names = ["t%d" % i for i in range(n)]
        topo = G.shuffle_children(rng, G.random_topology(rng, names))
        taxa = list(names)
        rng.shuffle(taxa)
        G.set_indices(topo, taxa)
        post = [(x.index, x.kids[0].index, x.kids[1].index) for x in topo.postorder() if x.kids]
        B = 2 * n - 1
        mats = [[[[rng.randint(0, 2) for _ in range(S)] for _ in range(S)] for _ in range(K)] for _ in range(B)]
        pi = [rng.randint(1, 3) for _ in range(S)]
        props = [rng.randint(1, 2) for _ in range(K)]
        weights = [rng.randint(1, 3) for _ in range(N)]
        tip_states = it % 3 == 2
        flat_m = " ".join(str(v) for b in mats for k in b for r in k for v in r)
        trip = " ".join("%d,%d,%d" % t for t in post)
        if tip_states:
            states = [[rng.randint(0, S) for _ in range(N)] for _ in range(n)]
            req = (f"likts q {S} {K} {N} | {trip} | {' '.join(map(str, pi))} | {' '.join(map(str, props))} | {flat_m} | "
                   + " ".join(str(v) for r in states for v in r))
            partials = [torch.tensor(r, dtype=torch.long) for r in states] + [None] * (n - 1)
            fn = tl.calculate_treelikelihood_tip_states_discrete
            desc = {"states": states}
        else:
            tips = [[[rng.randint(0, 2) for _ in range(S)] for _ in range(N)] for _ in range(n)]  # [n][N][S]
            req = (f"lik q {S} {K} {n} {N} | {trip} | {' '.join(map(str, pi))} | {' '.join(map(str, props))} | {flat_m} | "
                   + " ".join(str(v) for t in tips for p in t for v in p))
            partials = [torch.tensor(t, dtype=torch.float64).t().contiguous() for t in tips] + [None] * (n - 1)
            fn = tl.calculate_treelikelihood_discrete
            desc = {"tips": tips}
        rep = drv.ask(req)
        model = [Fraction(x) for x in rep.split()[1:]] if rep.startswith("ok") else None
        if not tip_states and n >= 2:
            # the specification side (explicit enumeration `allLabs`) run by the driver on the same input
            rep2 = drv.ask(f"marg q {S} {K} {n} {N} | {' '.join(taxa)} | {G.tokens(topo)} | {' '.join(map(str, pi))} | "
                           f"{' '.join(map(str, props))} | {flat_m} | " + " ".join(str(v) for t in tips for p in t for v in p))
            if rep2 != rep:
                ck.mismatch("Lean spec (sum over allLabs) differs from Lean loop", {"loop": rep[:200], "spec": rep2[:200]})
        detail = {"fn": fn.__name__, "post": post, "mats": mats, "pi": pi, "props": props, "weights": weights, **desc}
        try:
            out = fn(partials, torch.tensor(weights, dtype=torch.float64), post,
                     torch.tensor(mats, dtype=torch.float64), torch.tensor([pi], dtype=torch.float64),
                     torch.tensor(props, dtype=torch.float64).reshape(K, 1, 1))
            root = partials[post[-1][0]]  # [K,S,N] exact small integers
            got = []
            for p in range(N):
                v = Fraction(0)
                for s in range(S):
                    v += pi[s] * sum(props[k] * Fraction(float(root[k, s, p])) for k in range(K))
                got.append(v)
            ll = float(out.reshape(-1)[0])
        except Exception as e:  # noqa: BLE001
            ck.mismatch("implementation raised in direct call", {**detail, "error": repr(e)[:200]})
            continue
        ck.case(key=("exact", it, n, S, K, N, tip_states), bucket="exact/" + ("tip-states" if tip_states else "tip-partials"),
                sample={"post": post, "S": S, "K": K, "site_likelihoods": [str(g) for g in got]} if it < 2 else None,
                nontrivial=any(g > 0 for g in got))
        if model is None or model != got:
            ck.mismatch("exact root value differs (integer inputs)", {**detail, "impl": [str(g) for g in got], "model": rep[:200]})
            continue
        want = sum(w * (math.log(float(g)) if g > 0 else float("-inf")) for w, g in zip(weights, got))
        if not close(ll, want, 1e-12):
            ck.mismatch("returned log value differs from sum_p w_p log(lik_p)", {**detail, "impl": ll, "expected": want})


# ------------------------------------------------------------------------------------------ (b)+(c)
def impl_value(model):
    v = model()
    return float(v.reshape(-1)[0])


def impl_path(model, n):
    """which representation the model object actually holds for its tips: 'states' ([N] integer tensors) or
    'partials' ([S,N] floating tensors), read from the object, not from the request"""
    flag = bool(getattr(model, "use_tip_states", False))
    p0 = model.partials[0]
    kind = "states" if (p0.dim() == 1 and not p0.is_floating_point()) else ("partials" if p0.dim() == 2 else f"dim{p0.dim()}")
    return flag, kind


def json_case_lean(ck: Check, drv, torch, case, tag, out=None):
    """discrete + float correspondence of one JSON case. Returns (impl value or None, model or None).
    Anything the implementation returns in a shape / type / representation other than the one the JSON
    specification asked for is recorded as a correspondence MISMATCH (then searched), never raised."""
    try:
        model = G.build_model(case)
        impl = impl_value(model)
    except Exception as e:  # noqa: BLE001
        ck.mismatch("implementation raised", {"case": case, "error": repr(e)[:300]})
        return None, None
    try:
        _json_case_lean(ck, drv, torch, case, tag, out, model, impl)
    except InfraError:
        raise
    except Exception as e:  # noqa: BLE001
        import traceback

        ck.mismatch("implementation returned something the harness could not interpret",
                    {"case": case, "error": repr(e)[:300], "where": traceback.format_exc()[-600:]})
    return impl, model


def _json_case_lean(ck: Check, drv, torch, case, tag, out, model, impl):
    taxa = case["taxa"]
    n = len(taxa)
    t = G.parse_newick(case["newick"])
    idx = G.lean_index(drv, taxa, t)
    if idx is None:
        ck.mismatch("model rejected tree", {"case": case})
        return
    G.shape_indices(idx["shape"], t)
    tm = model.tree_model
    # ---- (b) discrete
    if [tuple(int(v) for v in tr) for tr in tm.postorder] != idx["post"]:
        ck.mismatch("postorder differs", {"case": case, "impl": [list(map(int, tr)) for tr in tm.postorder], "model": idx["post"]})
    if case["rooting"] == "time":
        if [tuple(p) for p in tm.preorder.tolist()] != idx["pre"]:
            ck.mismatch("preorder differs", {"case": case, "impl": tm.preorder.tolist(), "model": idx["pre"]})
    impl_leaf = {str(nd.taxon.label): int(nd.index) for nd in tm.tree.leaf_node_iter()}
    model_leaf = {x.name: x.index for x in t.leaves()}
    if impl_leaf != model_leaf:
        ck.mismatch("taxon -> leaf index map differs", {"case": case, "impl": impl_leaf, "model": model_leaf})
    pat = G.lean_pat(drv, case)
    dt = G.dt_of(case)
    S = dt["S"]
    tips_ok = False
    if pat is None:
        ck.mismatch("model rejected alignment", {"case": case})
    else:
        # which path did the object take?  (option plumbing: use_tip_states / use_ambiguities given, absent, true, false)
        want_states = bool(case.get("use_tip_states"))
        flag, kind = impl_path(model, n)
        ck.bucket(f"options/ts={case.get('use_tip_states')}/amb={case.get('use_ambiguities')}/took={kind}")
        if flag != want_states or kind != ("states" if want_states else "partials"):
            ck.mismatch("model took another tip representation than the options name",
                        {"case": case, "requested_use_tip_states": case.get("use_tip_states"), "model.use_tip_states": flag, "tips_held": kind})
            return
        # the tip data the model object holds (first n entries of .partials), per taxon index and pattern
        if case.get("use_tip_states"):
            impl_tips = [[int(v) for v in model.partials[i].tolist()] for i in range(n)]
            lean_tips = pat["states"]
        else:
            impl_tips = [[[int(v) for v in col] for col in model.partials[i].t().tolist()] for i in range(n)]
            lean_tips = pat["part"]
        # canonical form: the multiset of (tip data of taxon 0..n-1, weight) — the order in which patterns are
        # stored is not observable through the likelihood, the assignment of rows to taxon indices is
        def canon(tips, weights):
            return sorted((json.dumps([tips[i][p] for i in range(len(tips))]), int(weights[p])) for p in range(len(weights)))
        try:
            same = canon(impl_tips, model.weights.tolist()) == canon(lean_tips, pat["weights"])
        except Exception:  # noqa: BLE001  (ragged data)
            same = False
        if not same:
            ck.mismatch("patterns / weights / tip vectors differ", {"case": case, "impl": [impl_tips, model.weights.tolist()],
                                                                    "model": [lean_tips, pat["weights"]]})
        else:
            tips_ok = True
    # ---- branch lengths (exact: + and - only)
    node_by_index = {x.index: x for x in t.postorder()}
    if case["rooting"] == "unrooted" and case.get("branch_lengths") is not None:
        rep = "ok " + G.fl(case["branch_lengths"])  # given explicitly by node index: nothing to assemble
        impl_bl = [float(v) for v in tm.branch_lengths().reshape(-1)]
    elif case["rooting"] == "unrooted":
        edges = [node_by_index[i].length for i in range(2 * n - 2)]
        rep = drv.ask("blu f | " + " ".join(taxa) + " | " + G.tokens(t) + " | " + G.fl(edges))
        impl_bl = [float(v) for v in tm.branch_lengths().reshape(-1)]
    else:
        lh = G.leaf_heights_of(case)
        if [float(v) for v in tm.sampling_times.tolist()] != [float(lh[nm]) for nm in taxa]:
            ck.mismatch("sampling times differ", {"case": case, "impl": tm.sampling_times.tolist(), "model": [lh[nm] for nm in taxa]})
        if case.get("internal_heights") is not None:
            heights = [float(lh[nm]) for nm in taxa] + [float(v) for v in case["internal_heights"]]
        else:
            heights = [float(v) for v in tm.node_heights.reshape(-1)]
        rep = drv.ask("blt f | " + " ".join(taxa) + " | " + G.tokens(t) + " | " + G.fl(heights))
        impl_bl = [float(v) for v in tm.branch_lengths().reshape(-1)]
    lean_bl = [h2f(w) for w in rep.split()[1:]] if rep.startswith("ok") else None
    if lean_bl != impl_bl:
        ck.mismatch("branch lengths differ (exact)", {"case": case, "impl": impl_bl, "model": lean_bl if lean_bl is not None else rep})
        return
    # ---- (c) float: Lean assembles times, torch supplies p_t of those times, Lean prunes
    rates = [float(v) for v in model.site_model.rates().reshape(-1)]
    probs = [float(v) for v in model.site_model.probabilities().reshape(-1)]
    K = len(rates)
    if model.clock_model is None:
        rep = drv.ask("asmu f | " + G.fl(lean_bl) + " | " + G.fl(rates))
    else:
        cr = [float(v) for v in model.clock_model.rates.reshape(-1)]
        rep = drv.ask("asmc f | " + G.fl(lean_bl) + " | " + G.fl(cr) + " | " + G.fl(rates))
    if not rep.startswith("ok"):
        ck.mismatch("model rejected assembly", {"case": case, "model": rep})
        return
    T = [[h2f(w) for w in row.split()] for row in rep[3:].split(" ; ")]
    if not tips_ok:
        return
    try:
        mats = model.subst_model.p_t(torch.tensor(T, dtype=torch.float64))  # [B,K,S,S]
        pi = [float(v) for v in model.subst_model.frequencies.reshape(-1)]
    except Exception as e:  # noqa: BLE001
        ck.mismatch("p_t raised", {"case": case, "error": repr(e)[:200]})
        return
    trip = " ".join("%d,%d,%d" % tr for tr in idx["post"])
    flat_m = G.fl(mats.reshape(-1).tolist())
    N = len(pat["weights"])
    if case.get("use_tip_states"):
        req = (f"likts f {S} {K} {N} | {trip} | {G.fl(pi)} | {G.fl(probs)} | {flat_m} | "
               + " ".join(str(v) for r in lean_tips for v in r) + " | " + G.fl(pat["weights"]))
    else:
        req = (f"lik f {S} {K} {n} {N} | {trip} | {G.fl(pi)} | {G.fl(probs)} | {flat_m} | "
               + G.fl([v for r in lean_tips for p in r for v in p]) + " | " + G.fl(pat["weights"]))
    rep = drv.ask(req)
    w = rep.split()
    if out is not None:
        out.update(S=S, K=K, N=N, pi=pi, probs=probs, mats=flat_m, tips=lean_tips, weights=pat["weights"], tree=t, taxa=taxa,
                   site_liks=[h2f(x) for x in w[1:w.index("ll")]] if rep.startswith("ok") and "ll" in w else None)
    lean_ll = h2f(w[-1]) if rep.startswith("ok") and "ll" in w else None
    if lean_ll is None or not close(lean_ll, impl, TOL_LEAN):
        ck.mismatch("log-likelihood differs from Lean Float model", {"case": case, "impl": impl, "model": lean_ll if lean_ll is not None else rep[:100]})
    # JC69: also with Lean's own closed-form matrices (nothing from torch but the site rates/proportions)
    if case["subst"]["kind"] == "JC69" and n <= 10:
        own = []
        for row in T:
            for tt in row:
                r2 = drv.ask("jc69 " + f2h(tt))
                own += r2.split()[1:] if r2.startswith("ok") else []
        if len(own) == len(T) * K * 16:
            rep3 = drv.ask(req.replace(flat_m, " ".join(own)))
            w3 = rep3.split()
            ll3 = h2f(w3[-1]) if rep3.startswith("ok") and "ll" in w3 else None
            ck.bucket("lean-only-JC69")
            if ll3 is None or not close(ll3, impl, TOL_ORACLE):
                ck.mismatch("log-likelihood differs from the all-Lean JC69 run", {"case": case, "impl": impl, "model": ll3})
        else:
            ck.mismatch("model rejected jc69 request", {"case": case})
    return


def config_key(case):
    return (case["subst"]["kind"], case["site"]["kind"] + ("+inv" if case["site"].get("pinv") and case["site"]["kind"] == "weibull" else ""),
            case["rooting"], (case.get("clock") or {}).get("kind"), bool(case.get("use_tip_states")), case.get("use_ambiguities"))


def check_oracle(ck: Check, case, impl, model, failures, max_sites=None):
    try:
        want, _ = G.oracle_loglik(case, model)
    except Exception as e:  # noqa: BLE001
        ck.mismatch("oracle could not be evaluated on what the implementation exposes", {"case": case, "error": repr(e)[:300]})
        return
    if impl is None or not close(impl, want, TOL_ORACLE):
        failures.append((case, impl, want))


def run(ck: Check):
    torch = setup_torch()
    ck.rule = (
        "one case = one (tree, alignment, model configuration) evaluated by the REAL code and by the model/oracle; "
        "distinct = distinct (topology+orientation, taxa order, configuration) or distinct integer input of a direct "
        "call; non-trivial = positive likelihood with at least one internal node and one ambiguous/gap/repeated column"
    )
    ck.assumptions += [
        "branch transition matrices are whatever subst_model.p_t returns for the assembled time (C04's subject); "
        "site rates/proportions are whatever the site model returns (C05's subject)",
        "theorems are over exact (semi)rings; IEEE rounding of the float64 run is covered by the 1e-10 correspondence "
        "and the 1e-9 oracle comparison only (partial, as the property states its own tolerance)",
        "the underflow-rescaling branch of TreeLikelihoodModel is C03's subject and not exercised here",
        "dendropy's Newick parser and traversal order are modelled (children in written order), not verified",
    ]
    ck.trusted += ["dendropy newick parsing / postorder_node_iter / preorder_node_iter", "torch matmul/indexing/broadcasting semantics",
                   "subst_model.p_t (eigh/matrix_exp), site_model.rates/probabilities"]
    lean_src, tr_ok, note = tr_datatype.translate(REPO)
    if not tr_ok:
        ck.notes.append("translator: " + note)
    ck.extra["translator_recognised_source"] = tr_ok
    gen_files = {"TTGen/C01_Alphabet.lean": lean_src}
    opt_src, opt_ok, opt_note = tr_likelihood_options.translate(REPO)
    gen_files["TTGen/C01_Options.lean"] = opt_src
    ck.extra["translator_options_recognised_source"] = opt_ok
    ck.extra["options_table_route"] = getattr(tr_likelihood_options.translate, "route", "ast")  # "ast" or "behaviour"
    if ck.extra["options_table_route"] != "ast":
        ck.notes.append("options table: " + opt_note[:300])
    if not opt_ok:
        ck.notes.append("translator tr_likelihood_options: " + opt_note)
    try:  # the LG / WAG corollaries (Props/C0x_LGWAG.lean) are about the generated empirical tables: regenerate them too
        import tr_subst

        sub_src, sub_ok, sub_note = tr_subst.translate(REPO)
        gen_files["TTGen/C04Tables.lean"] = sub_src
        ck.extra["translator_subst_recognised_source"] = sub_ok
        if not sub_ok:
            ck.notes.append("translator tr_subst: " + str(sub_note))
    except Exception as e:  # noqa: BLE001
        ck.notes.append("tr_subst unavailable: " + repr(e)[:200])
    ok, broken = ck.lean_side(gen_files,
                              ["TTGen.C01_Alphabet", "TTProofs.Props.C01", "drv_c01"], PROPS)
    drv = None
    try:
        drv = ck.driver("drv_c01")
    except Exception as e:  # noqa: BLE001
        ck.notes.append(f"driver unavailable: {e}")

    failures = []  # (case, impl, oracle)
    live_failures = []  # (case, use_prior, ops, records)
    route_failures = []  # {"case", "route", "baseline", "value" | "error"}
    probe_failures = []  # (probe, result)
    interleaved_failures = []  # (plan, records)
    shared_failures = []  # (plan, records)
    rng = ck.rng
    thorough = ck.thorough()
    try:
        # ---- corpus first
        cdir = VERIF / "corpus" / "C01"
        for f in sorted(cdir.glob("*.json")) if cdir.exists() else []:
            try:
                case = json.loads(f.read_text())["case"]
                run_case(ck, drv, torch, case, failures, "corpus")
            except InfraError:
                raise
            except Exception as e:  # noqa: BLE001
                ck.mismatch("corpus case could not be evaluated", {"file": f.name, "error": repr(e)[:300]})
        if drv:
            table_correspondence(ck, drv)
            exact_direct(ck, drv, torch, 3000 if thorough else 300)
        # ---- (b)(c)(d) configurations: every substitution model x site model x rooting x tip representation
        substs = ["JC69", "HKY", "GTR", "GeneralSymmetric", "GeneralNonSymmetric", "LG", "WAG", "MG94"]
        sites = ["constant", "invariant", "weibull", "weibull+inv"]
        grid = [(s, m, r, ts) for s in substs for m in sites for r in ("unrooted", "time") for ts in (False, True)]
        rng.shuffle(grid)
        if not thorough:
            # quick: every nucleotide combination, a rotating subset of the amino-acid / codon ones
            grid = [g for g in grid if G.SUBST_DT[g[0]] == "nucleotide"] + [g for g in grid if G.SUBST_DT[g[0]] != "nucleotide"][:24]
        else:
            grid = grid * 4
        for (s, m, r, ts) in grid:
            dt = G.SUBST_DT[s]
            n = rng.choice([3, 4, 5]) if dt == "nucleotide" else (rng.choice([3, 4]) if dt == "aa" else 3)
            case = G.gen_case(rng, n, subst=s, site=m, rooting=r, tip_states=ts)
            run_case(ck, drv, torch, case, failures, "grid")
        # ---- every labelled rooted binary topology, 3..5 taxa (6 thorough), random configuration each
        for n in ([3, 4, 5, 6] if thorough else [3, 4, 5]):
            names = G.make_names(rng, n)
            for topo in G.all_topologies(names):
                for _rep in range(3 if n <= 4 else 1):
                    t2 = G.shuffle_children(rng, topo.copy())
                    case = G.gen_case(rng, n, topo=t2, nsites=rng.randint(3, 6))
                    run_case(ck, drv, torch, case, failures, f"all-topologies/{n}", lean=(n <= 4 or rng.random() < 0.35))
        # ---- random larger trees: brute force up to 9 taxa, Lean pruning (proved equal) beyond
        for _ in range(300 if thorough else 40):
            n = rng.randint(6, 9)
            case = G.gen_case(rng, n, nsites=rng.randint(3, 5))
            run_case(ck, drv, torch, case, failures, "random/6-9")
        for _ in range(150 if thorough else 25):
            n = rng.choice([10, 16, 25, 40, 64]) if thorough else rng.choice([10, 16, 25, 40])
            case = G.gen_case(rng, n, nsites=rng.randint(4, 12))
            if rng.random() < 0.3:
                t = G.caterpillar([x.name for x in G.parse_newick(case["newick"]).leaves()])
                case = G.gen_case(rng, n, topo=t, subst=case["subst"]["kind"], nsites=6)
            run_case(ck, drv, torch, case, failures, "random/10-40", oracle=False)
        # ---- ambiguity stress: columns in which NO taxon is unambiguous, all-missing columns, columns repeated many
        #      times, RNA U/u — with ambiguities on / off / default, tip partials and tip states
        #      every combination of the two boolean options GIVEN true / GIVEN false / ABSENT (in particular exactly
        #      one of them set): the object must take the path the option names and agree with the oracle
        for ua in (True, False, None):
            for ts in (False, True, "absent"):
                for _ in range(12 if thorough else 4):
                    n = rng.choice([3, 4, 5, 6])
                    case = G.gen_case(rng, n, subst=rng.choice(["JC69", "HKY", "GTR", "GeneralNonSymmetric"]),
                                      tip_states=ts, use_amb=ua, use_amb_fixed=True, special=True, nsites=rng.randint(2, 5))
                    run_case(ck, drv, torch, case, failures, f"ambiguity-stress/amb={ua}/tipstates={ts}")
        # ---- every genetic code shipped (MG94), GeneralDataType with user-supplied codes / ambiguity map, and
        #      SitePattern.indices column selections: Lean patterns + tip vectors, float run, brute-force oracle
        for k in range(len(G.GENETIC_CODES)):
            for ts in ((False, True) if thorough else (rng.random() < 0.5,)):
                case = G.gen_case(rng, 3, subst="MG94", site=rng.choice(["constant", "weibull"]), genetic_code=k, tip_states=ts,
                                  nsites=rng.randint(2, 3))
                run_case(ck, drv, torch, case, failures, f"genetic-code/{G.GENETIC_CODES[k][0].replace(' ', '-')}")
        for _ in range(100 if thorough else 24):
            case = G.gen_case(rng, rng.choice([3, 4, 5]), general=True, nsites=rng.randint(3, 7), indices=rng.random() < 0.2)
            run_case(ck, drv, torch, case, failures, "general-datatype/" + case["subst"]["kind"])
        for _ in range(80 if thorough else 16):
            case = G.gen_case(rng, rng.choice([3, 4, 5]), subst=rng.choice(["JC69", "HKY", "GTR", "LG"]), indices=True)
            run_case(ck, drv, torch, case, failures, "site-pattern-indices")
        # the whole spelling class of `indices` (negative ints esp. -1, negative slice starts / stops / steps, clamped bounds, mixed lists)
        base_c = G.gen_case(rng, 4, subst=rng.choice(["HKY", "LG"]), site="constant", rooting="unrooted", nsites=rng.randint(7, 10), special=False)
        for sp in G.index_spellings(min(len(x) for x in base_c["seqs"].values()), rng):
            case = dict(base_c, indices=sp)
            if G.site_symbols(case):
                run_case(ck, drv, torch, case, failures, "site-pattern-indices/spellings")
        # ---- PER-SYMBOL sweep: every symbol of every alphabet (both cases, aliases, ambiguity codes, gap / unknown, characters
        #      outside the alphabet) at the tips of a fixed tree, x {tip states, partials without / with ambiguities}, vs oracle
        for dtn, sub, symbols, plain, extra in symbol_sweep_plan(rng):
            size = 3 if dtn == "codon" else 1
            for sym in symbols:
                # the symbol at each tip in turn, at two tips, and a CONSTANT column (every tip carries it), the latter twice
                cols = ([[sym if j == i else plain[(i + j) % 2] for j in range(4)] for i in range(4)] + [[sym, sym, plain[0], plain[1]]]
                        + [[sym] * 4, [sym] * 4])
                seqs = {nm: "".join(c[i] for c in cols) for i, nm in enumerate(["t0", "t1", "t2", "t3"])}
                for ts, ua in ((True, None), (False, False), (False, True)):
                    case = {"taxa": ["t2", "t0", "t3", "t1"], "seq_order": ["t0", "t1", "t2", "t3"], "seqs": seqs, "datatype": dtn,
                            "rooting": "unrooted", "subst": sub, "site": {"kind": "constant"}, "use_tip_states": ts, "use_ambiguities": ua,
                            "dates": None, "clock": None, "newick": "((t0:0.11,t1:0.23):0.07,(t2:0.31,t3:0.13):0.19);"}
                    case.update(extra)
                    run_case(ck, drv, torch, case, failures, f"symbol-sweep/{dtn}", lean=(ts is True and ua is None))
        # ---- accuracy on large trees with MIXED columns: a few well-behaved columns plus one whose site likelihood lies in
        #      the float64 denormal range without flushing to zero; reference = pruning in mpmath (unbounded range)
        plan = [("balanced", 256, False), ("balanced", 256, True)]
        if thorough:
            plan += [("balanced", 256, False), ("caterpillar", 200, True), ("random", 256, False), ("balanced", 300, True),
                     ("caterpillar", 220, False), ("random", 280, True)]
        for shape, n, ts in plan:
            try:
                case, hard = G.denormal_case(rng, n, shape, ts, target=rng.uniform(-322.0, -319.5),
                                             subst=rng.choice(["JC69", "HKY"]) if thorough else "JC69")
                model = G.build_model(case)
                impl = impl_value(model)
                want, logs = G.mp_loglik(case, model)
            except InfraError:
                raise
            except Exception as e:  # noqa: BLE001
                ck.mismatch("large mixed-column case could not be evaluated", {"shape": shape, "n": n, "error": repr(e)[:300]})
                continue
            ck.case(key=("denormal", shape, n, ts, case["newick"][:80]), bucket=f"denormal-mixed/{shape}/{n}/" + ("tip-states" if ts else "tip-partials"),
                    sample={"shape": shape, "taxa": n, "log10_site_likelihoods": [round(x, 2) for x in logs], "loglik": impl, "reference": want})
            if not close(impl, want, TOL_ORACLE):
                failures.append((case, impl, want))
        # ---- CONSTRUCTION ROUTES: the same case through every way the library offers to build the object
        for i in range(40 if thorough else 10):
            try:
                case = G.gen_case(rng, rng.choice([3, 4]), subst=rng.choice(["JC69", "HKY", "GTR", "LG", "WAG", "GeneralNonSymmetric", "MG94"]),
                                  special=True, nsites=rng.randint(2, 4), indices=(i % 5 == 4))
                RT.check_routes(ck, case, rng, impl_path, route_failures)
            except InfraError:
                raise
            except Exception as e:  # noqa: BLE001
                ck.mismatch("construction routes could not be evaluated", {"error": repr(e)[:300]})
        # ---- SEVERAL LIVE INSTANCES: 2-3 differently configured models (taxa counts, topologies, rootings, data types,
        #      substitution / site / clock models) all built BEFORE any is evaluated, their histories interleaved; between the
        #      steps other helper objects (bare tree models of other topologies, alignments, site patterns, data types, site /
        #      substitution / clock models) are constructed by the oracle's own fresh builds; every evaluation vs the oracle of ITS model
        for h in range(60 if thorough else 12):
            try:
                plan = LV.gen_interleaved(rng)
                recs = LV.run_interleaved(plan)
            except InfraError:
                raise
            except Exception as e:  # noqa: BLE001
                ck.mismatch("interleaved instances could not be evaluated", {"error": repr(e)[:300]})
                continue
            ck.case(key=("interleaved", h, json.dumps(plan["schedule"])[:200]), bucket=f"live/interleaved/{len(plan['histories'])}-instances",
                    sample={"instances": [(len(x["case"]["taxa"]), x["case"]["subst"]["kind"], x["case"]["rooting"]) for x in plan["histories"]],
                            "evaluations": len(recs)} if h < 1 else None)
            ck.bucket("live/interleaved/evaluations", len(recs))
            if any(LV.failing(r) for r in recs):
                interleaved_failures.append((plan, recs))
        # ---- SHARED SUB-OBJECTS: 2-3 live likelihoods referring to ONE Taxa / Alignment / SitePattern / substitution / site model
        #      (through JSON references and through Python object sharing), each with its own tree (another topology over the same
        #      taxa) and its own options (tip states / partials, ambiguities, use_postorder_indices); evaluated interleaved, a SHARED
        #      parameter updated, each against its own brute-force oracle; what the shared SitePattern hands out must stay intact
        for h in range(60 if thorough else 14):
            try:
                plan = LV.gen_shared(rng)
                recs = LV.run_shared(plan)
            except InfraError:
                raise
            except Exception as e:  # noqa: BLE001
                ck.mismatch("shared-sub-object plan could not be evaluated", {"error": repr(e)[:300]})
                continue
            ck.case(key=("shared", h, plan["via"], plan["consumers"][0]["newick"]), bucket=f"live/shared/{plan['via']}/{len(plan['consumers'])}-consumers")
            ck.bucket("live/shared/postorder-consumers", sum(1 for c in plan["consumers"] if c.get("tree_options")))
            if any(LV.failing(r) for r in recs):
                shared_failures.append((plan, recs))
        mutation_failures = []
        for i in range(8 if thorough else 2):
            try:
                case = G.gen_case(rng, rng.choice([3, 4]), subst=rng.choice(["JC69", "HKY", "LG"]), clock="strict", nsites=4, tip_states=(i % 2 == 1))
                RT.check_mutations(ck, case, rng, mutation_failures)
            except InfraError:
                raise
            except Exception as e:  # noqa: BLE001
                ck.mismatch("order mutations could not be evaluated", {"error": repr(e)[:300]})
        for f in mutation_failures:
            route_failures.append({"case": f["case"], "route": "order-mutation:" + f["mutation"], "baseline": f["oracle"], "value": f.get("value"), "error": f.get("error")})
        # ---- REGIMES (dtype, grad mode, immutability, repeatability, deepcopy, device move, batches, special inputs,
        #      options, failure paths): see harness/c01_regimes.py
        try:
            probes = RG.gen_probes(rng, thorough)
        except Exception as e:  # noqa: BLE001
            probes = []
            ck.mismatch("regime probes could not be generated", {"error": repr(e)[:300]})
        failure_table = []
        for pr in probes:
            res = RG.run_probe(pr)
            lab = pr.get("label") or ""
            ck.case(key=("probe", pr["kind"], lab, json.dumps(pr["case"], sort_keys=True)[:200]), bucket=f"regime/{pr['kind']}" + (f"/{lab}" if lab and pr["kind"] == "plain" else ""),
                    sample={"probe": pr["kind"], "label": lab, "result": {k: v for k, v in res.items() if k != "where"}} if pr["kind"] in ("batch", "grad") and len(ck.samples) < 6 else None)
            if pr["kind"] == "must-raise":
                failure_table.append({"malformed": lab, "outcome": res.get("raised") or ("returned %r" % res.get("returned"))})
            if not res["ok"]:
                probe_failures.append((pr, res))
        ck.extra["failure_paths"] = failure_table
        ck.extra["tensor_constructors_without_dtype"] = RG.scan_constructors(REPO, [
            "torchtree/evolution/tree_likelihood.py", "torchtree/evolution/tree_model.py", "torchtree/evolution/site_pattern.py",
            "torchtree/evolution/alignment.py", "torchtree/evolution/datatype.py", "torchtree/evolution/branch_model.py"])
        # ---- LIVE-object histories: update parameters of ONE model object through the public interface
        #      every substitution-model CLASS takes part (MG94 / codon, LG, WAG, GeneralJC69, general symmetric / non-symmetric on a
        #      GeneralDataType, and the nucleotide ones), every parameter of each, with requires_grad off and on
        classes = [("MG94", False), ("LG", False), ("WAG", False), (None, True), (None, True), ("JC69", False), ("HKY", False),
                   ("GTR", False), ("GeneralSymmetric", False), ("GeneralNonSymmetric", False), (None, False), (None, False)]
        for h in range(250 if thorough else 48):
            sub_kind, general = classes[h % len(classes)]
            rg = (h // len(classes)) % 2 == 1
            n = 3 if sub_kind == "MG94" else (rng.choice([3, 4]) if (general or sub_kind in ("LG", "WAG")) else rng.choice([3, 4, 5, 6]))
            case, use_prior, ops = LV.gen_live(rng, n, subst=sub_kind, general=general)
            lean_fresh = (lambda snap: json_case_lean(ck, drv, torch, snap, "live")) if drv and rng.random() < 0.4 else None
            recs = LV.run_live(case, use_prior, ops, on_fresh=lean_fresh, requires_grad=rg)
            ck.bucket(f"live/class/{case['subst']['kind']}/requires_grad={rg}")
            kind = "reparam" if case.get("ratios") is not None else case["rooting"]
            ck.case(key=("live", h, json.dumps(ops)[:300]), bucket=f"live/{kind}/" + ("prior" if use_prior else "noprior"),
                    sample={"kind": kind, "ops": [o["op"] + ":" + o.get("param", o.get("what", "")) for o in ops],
                            "values": [r["impl"] for r in recs]} if h < 2 else None)
            ck.bucket("live/evaluations", len(recs))
            ck.bucket("live/updates", sum(1 for o in ops if o["op"] == "set"))
            if any(LV.failing(r) for r in recs):
                live_failures.append((case, use_prior, ops, recs, rg))
    finally:
        if drv:
            drv.close()

    # ---- verdict: every kind of finding is reported on its own (none suppresses another)
    found = False
    if failures:
        found = True
        failures.sort(key=lambda f: (len(f[0]["taxa"]), len(json.dumps(f[0]))))
        case, impl, want = failures[0]
        ck.violation(
            "TreeLikelihoodModel:" + "/".join(str(x) for x in config_key(case)[:3]),
            f"log-likelihood {impl} differs from " + ("the extended-range reference " if len(case["taxa"]) > 9 else "explicit marginalisation over all labelings ") + f"{want} "
            f"({len(failures)} failing inputs; smallest: {len(case['taxa'])} taxa, {config_key(case)})",
            {"case": case, "impl": impl, "oracle": want, "broken_obligations": broken,
             "mismatches": ck.mismatches[:3], "replay_cmd": "./check C01 --replay <this file>"},
        )
    if live_failures:
        found = True
        live_failures.sort(key=lambda f: (len(f[0]["taxa"]), len(f[2])))
        case, use_prior, ops, recs, rg = live_failures[0]
        t_shrink = time.time()
        try:
            if len(ops) <= 30:
                use_prior, ops = LV.shrink(case, use_prior, ops, deadline=t_shrink + 40, requires_grad=rg)
                recs = LV.run_live(case, use_prior, ops, requires_grad=rg)
        except Exception as e:  # noqa: BLE001
            ck.notes.append("shrinking failed: " + repr(e)[:200])
        bad = next((r for r in recs if LV.failing(r)), recs[-1])
        kind = "reparam" if case.get("ratios") is not None else case["rooting"]
        ck.violation(
            "TreeLikelihoodModel:live:" + kind + ":" + case["subst"]["kind"],
            f"after the history {[o['op'] + ':' + o.get('param', o.get('what', '')) for o in ops]} the live model returns "
            f"{bad['impl']} but the marginal over all labelings at the current values is {bad['oracle']} and a freshly built "
            f"model gives {bad['fresh']} ({len(live_failures)} failing histories)",
            {"live": {"case": case, "use_prior": use_prior, "ops": ops, "requires_grad": rg}, "records": [{k: v for k, v in r.items() if k != "case"} for r in recs],
             "broken_obligations": broken, "replay_cmd": "./check C01 --replay <this file>"},
        )
    if interleaved_failures:
        found = True
        interleaved_failures.sort(key=lambda f: (len(f[0]["histories"]), len(f[0]["schedule"])))
        plan, recs = interleaved_failures[0]
        # shrink: keep the failing instance + one other, cut the schedule after the first failing evaluation
        try:
            bad_i = next(r["instance"] for r in recs if LV.failing(r))
            for keep in [o for o in range(len(plan["histories"])) if o != bad_i]:
                sub = {"histories": [plan["histories"][bad_i], plan["histories"][keep]],
                       "schedule": [[0 if i == bad_i else 1, j] for i, j in plan["schedule"] if i in (bad_i, keep)]}
                r2 = LV.run_interleaved(sub)
                if any(LV.failing(r) for r in r2):
                    plan, recs = sub, r2
                    break
        except Exception as e:  # noqa: BLE001
            ck.notes.append("shrinking an interleaved plan failed: " + repr(e)[:200])
        bad = next(r for r in recs if LV.failing(r))
        desc = [(len(h["case"]["taxa"]), h["case"]["subst"]["kind"], h["case"]["rooting"]) for h in plan["histories"]]
        ck.violation(
            "TreeLikelihoodModel:several-live-instances",
            f"with {len(plan['histories'])} models alive at once {desc} (all built before the first evaluation, operations interleaved) "
            f"instance {bad['instance']} returns {bad['impl']} but the marginal over all labelings for ITS OWN tree and data is {bad['oracle']} "
            f"(a model built alone gives {bad['fresh']}; {len(interleaved_failures)} failing plans)",
            {"interleaved": plan, "records": [{k: v for k, v in r.items() if k != "case"} for r in recs][:40],
             "replay_cmd": "./check C01 --replay <this file>"},
        )
    if shared_failures:
        found = True
        shared_failures.sort(key=lambda f: (not any(LV.failing(r) and r["instance"] >= 0 for r in f[1]), len(f[0]["consumers"]), len(json.dumps(f[0]))))
        plan, recs = shared_failures[0]
        bad = next((r for r in recs if LV.failing(r) and r["instance"] >= 0), None) or next(r for r in recs if LV.failing(r))
        ck.violation(
            "TreeLikelihoodModel:shared-sub-objects",
            f"{len(plan['consumers'])} likelihoods sharing one Taxa / Alignment / SitePattern / substitution / site model ({plan['via']}; "
            f"options {[(c.get('use_tip_states'), c.get('use_ambiguities'), bool(c.get('tree_options'))) for c in plan['consumers']]}): "
            + (f"consumer {bad['instance']} ({bad.get('kind')}) returns {bad['impl']} but the marginal for ITS OWN tree and options is {bad['oracle']}"
               if bad["instance"] >= 0 else f"{bad.get('kind', 'construction')} failed: {bad.get('error', 'the tip list handed out by the shared SitePattern was altered by a consumer')}")
            + f" ({len(shared_failures)} failing plans)",
            {"shared": plan, "records": recs, "replay_cmd": "./check C01 --replay <this file>"},
        )
    for route in sorted(set(f["route"] for f in route_failures)):
        found = True
        fs = sorted((f for f in route_failures if f["route"] == route), key=lambda f: len(json.dumps(f["case"])))
        f = fs[0]
        ck.violation(
            "TreeLikelihoodModel:route:" + route,
            f"built through the route '{route}' the model " + (f"raises {f['error']}" if f.get("error") else f"returns {f['value']} (tips held: {f.get('path')})")
            + f" while TreeLikelihoodModel.from_json on the nested JSON returns {f['baseline']} ({len(fs)} failing cases)",
            {"route": {"case": f["case"], "route": route}, "detail": {k: v for k, v in f.items() if k != "case"}, "replay_cmd": "./check C01 --replay <this file>"},
        )
    SIG = {"dtype-default32-params64": "TreeLikelihoodModel:dtype-regime", "dtype-default64-params32": "TreeLikelihoodModel:dtype-regime",
           "to-float32": "TreeLikelihoodModel:to-dtype", "cpu": "TreeLikelihoodModel:device-move",
           "postorder-indices": "option:use_postorder_indices"}
    by_sig = {}
    for pr, res in probe_failures:
        by_sig.setdefault(SIG.get(pr["kind"], "TreeLikelihoodModel:" + pr["kind"] + (":" + pr["label"].replace(" ", "-") if pr.get("label") else "")), []).append((pr, res))
    for sig, items in sorted(by_sig.items()):
        found = True
        items.sort(key=lambda x: len(json.dumps(x[0]["case"])))
        pr, res = items[0]
        ck.violation(
            sig,
            f"probe '{pr['kind']}'" + (f" ({pr['label']})" if pr.get("label") else "") + f" fails on {config_key(pr['case'])}: "
            + json.dumps({k: v for k, v in res.items() if k not in ("where", "ok")}, default=str)[:400] + f" ({len(items)} failing probes of this kind)",
            {"probe": pr, "result": res, "replay_cmd": "./check C01 --replay <this file>"},
        )
    if not found and (not ok or ck.mismatches):
        ck.violation(
            "C01:unproved",
            "C01 theorems or the model/implementation correspondence no longer check "
            f"({len(broken)} broken obligations, {len(ck.mismatches)} mismatches: "
            f"{sorted(set(m['what'] for m in ck.mismatches))[:4]})",
            {"broken_obligations": broken, "mismatches": ck.mismatches[:5], "translator_note": note},
            found_input=False,
        )


def symbol_sweep_plan(rng):
    """(data type, substitution model, symbols, two plain symbols, extra case keys) for the per-symbol sweep"""
    sense = G.codon_sense(0)
    gen = {"codes": ["0", "1", "2", "x"], "ambiguities": {"K": ["0", "2"], "M": ["1", "2", "x"], "U": "1"}}
    return [
        ("nucleotide", {"kind": "HKY", "kappa": 2.3, "freqs": [0.1, 0.2, 0.3, 0.4]},
         list(G.NUC18) + [c.lower() for c in G.NUC18 if c.isalpha()] + list("XxZ*0."), "AC", {}),
        ("aa", {"kind": rng.choice(["LG", "WAG"])}, list(G.AA_ALL) + [c.lower() for c in G.AA_ALL if c.isalpha()] + list("0."), "AC", {}),
        ("codon", {"kind": "MG94", "kappa": 2.0, "alpha": 1.1, "beta": 0.7, "freqs": [1.0 / len(sense)] * len(sense), "genetic_code": 0},
         [sense[0], sense[17], sense[60], sense[17].lower(), "UUU", "ttu", "---", "???", "NNN", "A-G", "ACR", "acn", "Y??", "A?C"],
         [sense[3], sense[40]], {"genetic_code": 0}),
        ("general", {"kind": "GeneralJC69", "states": 4}, ["0", "1", "2", "x", "U", "K", "M", "?", "-", "Z"], ["0", "1"], {"general": gen}),
        # a general alphabet whose genuine codes are characters that mean "missing" for nucleotides
        ("general", {"kind": "GeneralJC69", "states": 3}, ["N", "n", "A", "?", "-", "X"], ["A", "N"],
         {"general": {"codes": ["N", "n", "A"], "ambiguities": {}}}),
    ]


def run_case(ck, drv, torch, case, failures, bucket, lean=True, oracle=True):
    try:
        _run_case(ck, drv, torch, case, failures, bucket, lean, oracle)
    except InfraError:
        raise
    except Exception as e:  # noqa: BLE001
        import traceback

        ck.mismatch("case could not be evaluated", {"case": case, "error": repr(e)[:300], "where": traceback.format_exc()[-600:]})


def _run_case(ck, drv, torch, case, failures, bucket, lean=True, oracle=True):
    impl = model = None
    if drv and lean:
        impl, model = json_case_lean(ck, drv, torch, case, bucket)
    else:
        try:
            model = G.build_model(case)
            impl = impl_value(model)
        except Exception as e:  # noqa: BLE001
            ck.mismatch("implementation raised", {"case": case, "error": repr(e)[:300]})
    seqs = case["seqs"]
    amb = any(c not in "ACGTacgt" for s in seqs.values() for c in s) if case["datatype"] == "nucleotide" else True
    key = (case["newick"].translate({ord(c): None for c in "0123456789.:e-"}), tuple(case["taxa"]), config_key(case),
           "|".join(case["seqs"][nm] for nm in case["taxa"])[:120])
    ck.case(key=key, bucket=bucket + "/" + case["subst"]["kind"], nontrivial=amb and impl is not None and math.isfinite(impl),
            sample={"newick": case["newick"], "config": config_key(case), "loglik": impl})
    ck.bucket("cfg/" + "/".join(str(x) for x in config_key(case)[1:4]))
    tw = G.twin_features(case)
    if tw:
        ck.bucket(f"alignment/ambiguity-twin-columns/{case['datatype']}/amb={case.get('use_ambiguities')}/tipstates={bool(case.get('use_tip_states'))}")
    for feat in G.alignment_features(case):
        ck.bucket(f"alignment/{feat}/amb={case.get('use_ambiguities')}/tipstates={bool(case.get('use_tip_states'))}")
    if oracle and model is not None:
        check_oracle(ck, case, impl, model, failures)
    elif oracle:
        failures.append((case, None, None))


def replay(path: str) -> int:
    torch = setup_torch()
    obj = json.loads(Path(path).read_text())
    if obj.get("route"):
        rt = obj["route"]
        import random

        rng = random.Random(0)
        try:
            v0 = impl_value(RT.build_route(rt["case"], "baseline", rng))
        except Exception as e:  # noqa: BLE001
            print("baseline raised:", repr(e))
            return 1
        import tempfile

        with tempfile.TemporaryDirectory() as tmp:
            try:
                if rt["route"].startswith("order-mutation:"):
                    m = RT.mutation_route(rt["case"], rt["route"].split(":", 1)[1], rng)
                else:
                    m = RT.build_route(rt["case"], rt["route"], rng, tmp)
                v = impl_value(m)
                pth = impl_path(m, len(rt["case"]["taxa"]))
            except Exception as e:  # noqa: BLE001
                print(f"route {rt['route']}: raised {e!r}; from_json: {v0!r}; VIOLATES")
                return 1
        bad = not close(v, v0, 1e-13)
        print(f"route {rt['route']}: {v!r} (tips {pth}); from_json: {v0!r}; {'VIOLATES' if bad else 'ok'}")
        return 1 if bad else 0
    if obj.get("probe"):
        res = RG.run_probe(obj["probe"])
        print(f"probe {obj['probe']['kind']}: {json.dumps({k: v for k, v in res.items() if k != 'where'}, default=str)[:600]}; {'ok' if res['ok'] else 'VIOLATES'}")
        return 0 if res["ok"] else 1
    if obj.get("shared"):
        recs = LV.run_shared(obj["shared"])
        bad = False
        for r in recs:
            f = LV.failing(r)
            bad = bad or f
            print(f"consumer {r['instance']} {r.get('kind', '')}: live = {r['impl']!r}; marginal for its own tree/options = {r['oracle']!r}; {'VIOLATES' if f else 'ok'} {r.get('error', '')}")
        return 1 if bad else 0
    if obj.get("interleaved"):
        recs = LV.run_interleaved(obj["interleaved"])
        bad = False
        for r in recs:
            f = LV.failing(r)
            bad = bad or f
            if f or len(recs) <= 12:
                print(f"instance {r['instance']} eval at op {r['step']}: live model = {r['impl']!r}; marginal for its own tree/data = {r['oracle']!r}; "
                      f"model built alone = {r['fresh']!r}; {'VIOLATES' if f else 'ok'} {r.get('error', '')}")
        print("VIOLATES" if bad else "ok")
        return 1 if bad else 0
    if obj.get("live"):
        lv = obj["live"]
        recs = LV.run_live(lv["case"], lv["use_prior"], lv["ops"], requires_grad=bool(lv.get("requires_grad")))
        bad = False
        for r in recs:
            f = LV.failing(r)
            bad = bad or f
            print(f"eval at op {r['step']}: live model = {r['impl']!r}; marginal at current values = {r['oracle']!r}; "
                  f"fresh model = {r['fresh']!r}; {'VIOLATES' if f else 'ok'} {r.get('error', '')}")
        return 1 if bad else 0
    case = obj.get("case")
    if not case:
        print("replay names broken obligations only:", obj.get("broken_obligations"), obj.get("mismatches"))
        return 1
    try:
        model = G.build_model(case)
        impl = impl_value(model)
    except Exception as e:  # noqa: BLE001
        print("implementation raised:", repr(e))
        return 1
    if len(case["taxa"]) > 9:
        want, logs = G.mp_loglik(case, model)
        how = "extended-range (mpmath) pruning reference; log10 site likelihoods " + str([round(x, 1) for x in logs])
    else:
        want, per_site = G.oracle_loglik(case, model)
        how = "explicit marginalisation"
    bad = not close(impl, want, TOL_ORACLE)
    print(f"TreeLikelihoodModel() = {impl!r}; {how} = {want!r}; {'VIOLATES' if bad else 'ok'}")
    return 1 if bad else 0
