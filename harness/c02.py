"""C02 — the likelihood is invariant to how the same tree and data are written down.

Lean side : C01's model (same definitions), theorems in TTProofs/Props/C02.lean: lik_swap_children,
            lik_perm_taxa / lik_perm_sequences (the value is a function of the name-indexed data),
            lik_perm_columns, lik_merge_columns (from compress_sum), tipStates_vs_partials,
            reroot_edge / reroot_step / reroot_any (pulley principle under detailed balance, P(0)=I, semigroup).
Tie       : every member of every pair below is run through C01's discrete + float correspondence (Lean's own
            indices, branch lengths, patterns, tip vectors, pruning) and must agree with the real
            TreeLikelihoodModel to 1e-10.
Search    : the property's own oracle on the REAL TreeLikelihoodModel: pairs of equivalent JSON specifications
            (taxa order, sequence order, child order, column order, duplicated columns, tip states vs tip
            partials, every rooting of small unrooted trees under reversible models) must agree to 1e-11.
            All permutations for <= 4 taxa (5 in the thorough tier), all child-swap subsets, all 2n-3 rootings,
            random beyond.  Always run.
"""
from __future__ import annotations

import itertools
import json
import math
import sys
from pathlib import Path

from common import REPO, VERIF, Check, InfraError, use_repo

sys.path.insert(0, str(VERIF / "harness" / "translators"))
import tr_datatype  # noqa: E402
import c01  # noqa: E402
import c01_gen as G  # noqa: E402
import c01_live as LV  # noqa: E402
import c01_regimes as RG  # noqa: E402
import c01_routes as RT  # noqa: E402

TOL_PAIR = 1e-11
PROPS = "TTProofs/Props/C02.lean"


def close(a, b, tol):
    if a is None or b is None:
        return False
    if math.isinf(a) or math.isinf(b) or math.isnan(a) or math.isnan(b):
        return a == b
    return abs(a - b) <= tol * max(1.0, abs(a), abs(b))


def gen_base(rng, n, subst=None, site=None, rooting=None, reversible=False):
    """(tree with node-attached lengths/heights/rates, names, seqs, base configuration)"""
    kinds = ["JC69", "HKY", "GTR", "GeneralSymmetric", "GeneralNonSymmetric"]
    if reversible:
        kinds = [k for k in kinds if k in G.REVERSIBLE]
    subst = subst or rng.choice(kinds)
    site = site or rng.choice(["constant", "invariant", "weibull", "weibull+inv"])
    rooting = rooting or rng.choice(["unrooted", "time"])
    dt = G.SUBST_DT[subst]
    names = G.make_names(rng, n)
    tree = G.shuffle_children(rng, G.random_topology(rng, names))
    nsites = rng.randint(4, 8) if dt != "codon" else rng.randint(2, 3)
    if dt == "nucleotide":
        sp = rng.random() < 0.6
        seqs = G.random_alignment(rng, names, nsites, G.NUC18, "ACGT", lower=True, special=sp, twins=(G.PARTIAL_AMB + "N-?") if sp else None)
    elif dt == "aa":
        seqs = G.random_alignment(rng, names, nsites, G.AA_ALL, G.AA20, p_amb=0.3, lower=True)
    else:
        seqs = G.random_codon_alignment(rng, names, nsites)
    base = {"datatype": dt, "rooting": rooting, "subst": G.gen_subst(rng, subst), "site": G.gen_site(rng, site),
            "use_tip_states": rng.random() < 0.3, "use_ambiguities": rng.choice([True, False, None]), "dates": None, "clock": None}
    if rooting == "unrooted":
        G.assign_lengths(rng, tree)
    else:
        scheme = rng.choice(["contemporaneous", "from-zero", "years"])
        if scheme == "contemporaneous":
            dates = {nm: 0.0 for nm in names}
        elif scheme == "from-zero":
            dates = {nm: float(rng.choice([0, 0, 1, 2, 3])) for nm in names}
            dates[rng.choice(names)] = 0.0
        else:
            dates = {nm: float(rng.choice([2010, 2011, 2012, 2014])) for nm in names}
        base["dates"] = dates
        mx, mn = max(dates.values()), min(dates.values())
        G.assign_heights(rng, tree, {nm: (dates[nm] if mn == 0.0 else mx - dates[nm]) for nm in names})
        if rng.random() < 0.5:
            base["clock"] = {"kind": "strict", "rate": rng.uniform(0.02, 0.3)}
        else:
            base["clock"] = {"kind": "simple"}
            for x in tree.postorder():
                x.rate = rng.uniform(0.02, 0.3)
    return tree, names, seqs, base


class Runner:
    def __init__(self, ck: Check, drv, torch):
        self.ck, self.drv, self.torch = ck, drv, torch
        self.failures = []
        self.cache = {}

    def value(self, case, lean=True):
        """value of the REAL TreeLikelihoodModel for the case (and C01's Lean correspondence on it)"""
        key = json.dumps(case, sort_keys=True)
        if key in self.cache:
            return self.cache[key]
        if self.drv and lean:
            impl, _model = c01.json_case_lean(self.ck, self.drv, self.torch, case, "c02")
        else:
            try:
                impl = c01.impl_value(G.build_model(case))
            except Exception as e:  # noqa: BLE001
                self.ck.mismatch("implementation raised", {"case": case, "error": repr(e)[:300]})
                impl = None
        self.cache[key] = impl
        return impl

    def sum_pair(self, relation, a, parts, bucket, key):
        """value(a) must equal the sum of the values of `parts`"""
        va = self.value(a)
        vs = [self.value(p, lean=False) for p in parts]
        tot = None if any(v is None for v in vs) else math.fsum(vs)
        ok = close(va, tot, TOL_PAIR * max(1, len(parts)))
        self.ck.case(key=(relation,) + tuple(key), bucket=bucket + "/" + relation, nontrivial=va is not None and math.isfinite(va),
                     sample=None)
        if not ok:
            self.failures.append({"relation": relation, "factor": 1.0, "a": a, "b": parts[0], "parts": parts, "value_a": va, "value_b": tot})

    def pair(self, relation, a, b, bucket, key, factor=1.0, lean_b=True, lean_a=True):
        va = self.value(a, lean=lean_a)
        vb = self.value(b, lean=lean_b)
        # re-rooting replaces P(a)P(b) by P(a+b) through the eigen-decomposition: different arithmetic, not a rewriting of the
        # same arithmetic — held to 1e-10 (a 14-taxon case differed by 1.5e-11 relative); every other relation to 1e-11
        ok = close(va * factor if va is not None else None, vb, 1e-10 if relation.startswith("reroot") else TOL_PAIR)
        self.ck.case(key=(relation,) + tuple(key), bucket=bucket + "/" + relation,
                     sample={"relation": relation, "a": va, "b": vb, "newick_a": a["newick"], "newick_b": b["newick"],
                             "taxa_a": a["taxa"], "taxa_b": b["taxa"]},
                     nontrivial=va is not None and math.isfinite(va))
        if not ok:
            self.failures.append({"relation": relation, "factor": factor, "a": a, "b": b, "value_a": va, "value_b": vb})


def prefix(t, branch):
    if t.is_leaf():
        return f"L {t.name} {branch(t)}"
    return f"N {branch(t)} {prefix(t.kids[0], branch)} {prefix(t.kids[1], branch)}"


def parse_prefix(ws):
    from fractions import Fraction

    def rec(i):
        if ws[i] == "N":
            n = G.Node(None, [], Fraction(ws[i + 1]))
            l, j = rec(i + 2)
            r, j = rec(j)
            n.kids = [l, r]
            return n, j
        n = G.Node(ws[i + 1], None, Fraction(ws[i + 2]))
        return n, i + 3

    t, j = rec(0)
    assert j == len(ws)
    return t


def unrooted_form(t):
    """(frozenset of (split, length) over all branches with the two root branches merged, split of the root branch);
    a split is the frozenset of leaf names on the side that does not contain the smallest name"""
    names = sorted(x.name for x in t.leaves())
    lo = names[0]
    allset = frozenset(names)

    def side(x):
        s = frozenset(y.name for y in x.leaves())
        return allset - s if lo in s else s

    a, b = t.kids
    splits = {}
    for x in t.preorder():
        if x is t or x is a or x is b:
            continue
        splits[side(x)] = x.length
    root_split = side(a)
    assert side(b) == root_split
    splits[root_split] = a.length + b.length
    return frozenset(splits.items()), root_split


def lean_rootings(run, tree, bucket):
    """Lean's `allRootings` of the base tree (exact rational lengths) must enumerate every branch exactly once and
    leave the unrooted tree unchanged"""
    from fractions import Fraction

    n = len(tree.leaves())
    req = "rootings q | " + prefix(tree, lambda x: str(Fraction(x.length)) if x.length is not None else "0")
    rep = run.drv.ask(req)
    if not rep.startswith("ok "):
        run.ck.mismatch("model rejected rootings request", {"request": req[:200], "reply": rep[:100]})
        return
    t0 = tree.copy()
    for x in t0.postorder():
        x.length = Fraction(x.length) if x.length is not None else Fraction(0)
    base_form, _ = unrooted_form(t0)
    seen = []
    for part in rep[3:].split(" ; "):
        form, rs = unrooted_form(parse_prefix(part.split()))
        if form != base_form:
            run.ck.mismatch("Lean rooting changes the unrooted tree", {"tree": G.newick(tree), "rooting": part})
        seen.append(rs)
    run.ck.case(key=("rootings", G.newick(tree, lengths=False)), bucket=bucket + "/lean-allRootings")
    if len(seen) != 2 * n - 3 or len(set(seen)) != 2 * n - 3 or set(seen) != set(k for k, _ in base_form):
        run.ck.mismatch("Lean allRootings does not enumerate every branch exactly once",
                        {"tree": G.newick(tree), "count": len(seen), "distinct": len(set(seen)), "expected": 2 * n - 3})


def lean_likn(run, case, bucket):
    """the name-based specification `likN` (no index, no order) evaluated by the driver on the matrices of the real
    model must reproduce the implementation's per-pattern likelihoods"""
    out = {}
    c01.json_case_lean(run.ck, run.drv, run.torch, case, "likn", out=out)
    if not out or out.get("site_liks") is None or case.get("use_tip_states"):
        return
    t, taxa, S, K, N = out["tree"], out["taxa"], out["S"], out["K"], out["N"]
    names = [x.name for x in t.leaves()]
    data = []
    for nm in names:
        i = taxa.index(nm)
        for p in range(N):
            data += [float(v) for v in out["tips"][i][p]]
    req = (f"likn f {S} {K} {N} | " + prefix(t, lambda x: str(x.index)) + f" | {G.fl(out['pi'])} | {G.fl(out['probs'])} | "
           f"{out['mats']} | " + " ".join(names) + " | " + G.fl(data))
    rep = run.drv.ask(req)
    from common import h2f
    got = [h2f(x) for x in rep.split()[1:]] if rep.startswith("ok") else None
    run.ck.case(key=("likn", json.dumps(case, sort_keys=True)[:200]), bucket=bucket + "/lean-likN")
    if got is None or len(got) != N or any(not close(a, b, 1e-12) for a, b in zip(got, out["site_liks"])):
        run.ck.mismatch("name-based likN differs from the index-addressed loop", {"case": case, "likN": got, "loop": out["site_liks"]})


MISSING_SYMS = "-?NnRYMWSKBDHVrykb"


def state_coincidence(run: Runner, rng, tree, names, base, bucket):
    """columns that DIFFER as symbols but COINCIDE as states when ambiguous = missing ('-' / '?' / 'N' / 'R' …, lower vs
    upper case, 'U' vs 'T'), in otherwise identical columns, several of them with different multiplicities.  With tip
    states, or tip partials without ambiguities, the value must equal that of the canonically rewritten alignment, of
    any column permutation, and the SUM of the single-column likelihoods (a merged pattern carries the sum of the
    weights of its source columns)."""
    n = len(names)
    taxa0 = rng.sample(names, n)
    seq0 = rng.sample(names, n)
    canon_cols, sym_cols = [], []
    for _ in range(rng.randint(2, 3)):
        b = rng.choice("ACGT")
        ccol = [rng.choice([b, b, rng.choice("ACGT"), "-"]) for _ in names]
        if "-" not in ccol:
            ccol[rng.randrange(n)] = "-"
        if "T" not in ccol and rng.random() < 0.5:
            ccol[rng.randrange(n)] = "T"
        for _v in range(rng.randint(2, 4)):  # symbol variants of the same state column
            vcol = []
            for c in ccol:
                if c == "-":
                    vcol.append(rng.choice(MISSING_SYMS))
                elif c == "T":
                    vcol.append(rng.choice("TtUu"))
                else:
                    vcol.append(rng.choice([c, c.lower()]))
            m = rng.choice([1, 1, 2, 3, 5])
            sym_cols += [vcol] * m
            canon_cols += [ccol] * m
    order = list(range(len(sym_cols)))
    rng.shuffle(order)
    sym_cols = [sym_cols[i] for i in order]
    canon_cols = [canon_cols[i] for i in order]

    def seqs_of(cols):
        return {nm: "".join(c[i] for c in cols) for i, nm in enumerate(names)}

    kid = (G.newick(tree, lengths=False), base["subst"]["kind"], base["rooting"], "".join("".join(c) for c in sym_cols))
    for label, ts, ua in (("tip-states", True, rng.choice([None, False, True])), ("partials-no-ambiguities", False, rng.choice([None, False]))):
        b2 = dict(base, use_tip_states=ts, use_ambiguities=ua)
        a = G.materialise(tree, taxa0, seq0, seqs_of(sym_cols), b2)
        run.pair(f"state-coincidence/{label}", a, G.materialise(tree, taxa0, seq0, seqs_of(canon_cols), b2), bucket, kid)
        perm = list(range(len(sym_cols)))
        rng.shuffle(perm)
        run.pair(f"state-coincidence-perm-columns/{label}", a,
                 G.materialise(tree, taxa0, seq0, seqs_of([sym_cols[i] for i in perm]), b2), bucket, kid + (tuple(perm),))
        singles = [G.materialise(tree, taxa0, seq0, seqs_of([c]), b2) for c in sym_cols]
        run.sum_pair(f"sum-of-single-columns/{label}", a, singles, bucket, kid)
    # tip states against tip partials on the very same symbols
    run.pair("state-coincidence/states-vs-partials",
             G.materialise(tree, taxa0, seq0, seqs_of(sym_cols), dict(base, use_tip_states=True, use_ambiguities=None)),
             G.materialise(tree, taxa0, seq0, seqs_of(sym_cols), dict(base, use_tip_states=False, use_ambiguities=False)), bucket, kid)


def variants(run: Runner, rng, tree, names, seqs, base, bucket, exhaustive):
    """all rewritings of one base case"""
    n = len(names)
    taxa0 = list(names)
    rng.shuffle(taxa0)
    seq0 = list(names)
    rng.shuffle(seq0)
    ref = G.materialise(tree, taxa0, seq0, seqs, base)
    kid = (G.newick(tree, lengths=False), base["subst"]["kind"], base["site"]["kind"], base["rooting"])
    if run.drv:
        try:
            if base["rooting"] == "unrooted":
                lean_rootings(run, tree, bucket)
            lean_likn(run, ref, bucket)
        except InfraError:
            raise
        except Exception as e:  # noqa: BLE001
            run.ck.mismatch("implementation returned something the harness could not interpret", {"case": ref, "error": repr(e)[:300]})
    if base["datatype"] == "nucleotide":
        state_coincidence(run, rng, tree, names, base, bucket)
    # --- taxa order
    perms = list(itertools.permutations(names)) if exhaustive else [tuple(rng.sample(names, n)) for _ in range(3)]
    for p in perms:
        run.pair("perm-taxa", ref, G.materialise(tree, list(p), seq0, seqs, base), bucket, (kid, p), lean_b=rng.random() < 0.3)
    # --- sequence order
    perms = list(itertools.permutations(names)) if exhaustive and n <= 4 else [tuple(rng.sample(names, n)) for _ in range(3)]
    for p in perms:
        run.pair("perm-sequences", ref, G.materialise(tree, taxa0, list(p), seqs, base), bucket, (kid, p), lean_b=rng.random() < 0.3)
    # --- children of any node (every subset of internal nodes); for an UNROOTED tree under a non-reversible
    #     model swapping the root's children moves the (degree-two) root to the other end of the merged root
    #     branch, which is a re-rooting: covered by the property only for reversible models
    root_rank = n - 2
    rev = base["subst"]["kind"] in G.REVERSIBLE
    subsets = [set(c) for r in range(1, n) for c in itertools.combinations(range(n - 1), r)] if exhaustive else \
        [set(rng.sample(range(n - 1), rng.randint(1, n - 1))) for _ in range(3)]
    for sub in subsets:
        if base["rooting"] == "unrooted" and not rev and root_rank in sub:
            sub = sub - {root_rank}
            if not sub:
                continue
        run.pair("swap-children", ref, G.materialise(G.swap_nodes(tree, sub), taxa0, seq0, seqs, base), bucket,
                 (kid, tuple(sorted(sub))), lean_b=rng.random() < 0.3)
    # --- column order, duplicated columns
    size = G.dt_of(base)["size"]
    L = min(len(s) for s in seqs.values()) // size
    for _ in range(2):
        perm = list(range(L))
        rng.shuffle(perm)
        seqs2 = {nm: "".join(s[j * size:(j + 1) * size] for j in perm) for nm, s in seqs.items()}
        run.pair("perm-columns", ref, G.materialise(tree, taxa0, seq0, seqs2, base), bucket, (kid, tuple(perm)))
    seqs2 = {nm: s[:L * size] * 2 for nm, s in seqs.items()}
    run.pair("merge-columns(x2)", ref, G.materialise(tree, taxa0, seq0, seqs2, base), bucket, (kid, "dup"), factor=2.0)
    # --- tip states vs tip partials with unknown/ambiguous symbols treated as missing
    b1 = dict(base, use_tip_states=False, use_ambiguities=False)
    b2 = dict(base, use_tip_states=True, use_ambiguities=None)
    run.pair("tip-states-vs-partials", G.materialise(tree, taxa0, seq0, seqs, b1), G.materialise(tree, taxa0, seq0, seqs, b2),
             bucket, (kid, "ts"))
    # --- all at once
    t2 = G.swap_nodes(tree, {r for r in range(n - 1) if rng.random() < 0.5 and not (base["rooting"] == "unrooted" and not rev and r == root_rank)})
    run.pair("all-at-once", ref, G.materialise(t2, rng.sample(names, n), rng.sample(names, n), seqs, base), bucket, (kid, "all"))
    # --- every rooting of an unrooted tree under a reversible model
    if base["rooting"] == "unrooted" and rev:
        for i, t3 in enumerate(G.all_rootings(tree, frac=rng.choice([0.25, 0.5, 0.0, 1.0]))):
            G.shuffle_children(rng, t3)
            run.pair("reroot", ref, G.materialise(t3, taxa0, seq0, seqs, base), bucket, (kid, "root", i), lean_b=rng.random() < 0.3)


def column_relations(run: Runner, rng, case, bucket):
    """relations that only rewrite the COLUMNS of a case (any data type, here GeneralDataType alphabets whose
    alignments contain columns differing only in which ambiguity code one tip carries): column permutation, the
    alignment written twice, and the sum of the single-column likelihoods"""
    size = G.dt_of(case)["size"]
    seqs = case["seqs"]
    L = min(len(x) for x in seqs.values()) // size
    key = (case["newick"], json.dumps(case.get("general"), sort_keys=True), "".join(seqs[nm] for nm in case["taxa"]))

    def with_cols(js):
        c = dict(case)
        c["seqs"] = {nm: "".join(sq[j * size:(j + 1) * size] for j in js) for nm, sq in seqs.items()}
        return c

    perm = list(range(L))
    rng.shuffle(perm)
    run.pair("perm-columns/general", case, with_cols(perm), bucket, key + (tuple(perm),))
    run.pair("merge-columns(x2)/general", case, with_cols(list(range(L)) * 2), bucket, key, factor=2.0)
    run.sum_pair("sum-of-single-columns/general", case, [with_cols([j]) for j in range(L)], bucket, key)
    taxa2 = rng.sample(case["taxa"], len(case["taxa"]))
    c2 = dict(case, taxa=taxa2, seq_order=rng.sample(case["seq_order"], len(case["seq_order"])))
    if case["rooting"] == "unrooted" or (case.get("clock") or {}).get("kind") == "strict":
        run.pair("perm-taxa/general", case, c2, bucket, key + (tuple(taxa2),))


def symbol_sweep(run: Runner, rng, thorough=False):
    """PER-SYMBOL sweep (not random alignments): for every data type and EVERY symbol of its alphabet (both cases, aliases,
    ambiguity codes, gap / unknown, a few characters outside the alphabet) placed at one tip of a small fixed tree:
      * tip states  ==  tip partials with ambiguities treated as missing      (same data by the property);
      * wherever the symbol is NOT a state under the regime, rewriting it as the fully-missing code (`-`) is the same data:
        always for tip states, for tip partials with use_ambiguities false, and with use_ambiguities true only for the
        fully-missing symbols;
      * a state written in lower case / as the alias U is the same data as its canonical spelling."""
    names = ["t0", "t1", "t2", "t3"]
    tree = G.parse_newick("((t0:0.11,t1:0.23):0.07,(t2:0.31,t3:0.13):0.19);")
    taxa = ["t2", "t0", "t3", "t1"]

    def case_for(dt, subst, cols, ts, ua, extra=None):
        size = 3 if dt == "codon" else 1
        seqs = {nm: "".join(c[i] for c in cols) for i, nm in enumerate(names)}
        c = {"taxa": taxa, "seq_order": names, "seqs": seqs, "datatype": dt, "rooting": "unrooted", "subst": subst,
             "site": {"kind": "constant"}, "use_tip_states": ts, "use_ambiguities": ua, "dates": None, "clock": None,
             "newick": G.newick(tree)}
        if extra:
            c.update(extra)
        return c

    def sweep(dt, subst, symbols, plain, is_state, fully_missing, missing_code, canon, extra=None, union_only=()):
        for sym in symbols:
            p0, p1 = plain[0], plain[1]

            def cols_with(x):
                # the symbol at one tip per column (every tip once), plus a column where two tips carry it
                cs = [[x if j == i else (p0 if (i + j) % 2 else p1) for j in range(4)] for i in range(4)]
                cs.append([x, x, p0, p1])
                return cs
            kid = (dt, sym)
            states = case_for(dt, subst, cols_with(sym), True, None, extra)
            noamb = case_for(dt, subst, cols_with(sym), False, False, extra)
            amb = case_for(dt, subst, cols_with(sym), False, True, extra)
            if sym not in union_only:
                run.pair(f"symbol/states-vs-partials-noamb/{dt}", states, noamb, "symbol-sweep", kid, lean_a=False, lean_b=False)
            if not is_state(sym):
                miss = cols_with(missing_code)
                run.pair(f"symbol/as-missing/tip-states/{dt}", states, case_for(dt, subst, miss, True, None, extra), "symbol-sweep", kid, lean_a=False, lean_b=False)
                if sym not in union_only:
                    run.pair(f"symbol/as-missing/partials-noamb/{dt}", noamb, case_for(dt, subst, miss, False, False, extra), "symbol-sweep", kid, lean_a=False, lean_b=False)
                if fully_missing(sym):
                    run.pair(f"symbol/as-missing/partials-amb/{dt}", amb, case_for(dt, subst, miss, False, True, extra), "symbol-sweep", kid, lean_a=False, lean_b=False)
            else:
                c = canon(sym)
                if c != sym:
                    for ts, ua, lab in ((True, None, "tip-states"), (False, False, "partials-noamb"), (False, True, "partials-amb")):
                        run.pair(f"symbol/canonical-spelling/{lab}/{dt}", case_for(dt, subst, cols_with(sym), ts, ua, extra),
                                 case_for(dt, subst, cols_with(c), ts, ua, extra), "symbol-sweep", kid, lean_a=False, lean_b=False)

    # nucleotides: the 18 symbols in both cases + characters outside the alphabet
    nuc = list(G.NUC18) + [c.lower() for c in G.NUC18 if c.isalpha()] + list("XxZ*0.")
    sweep("nucleotide", {"kind": "HKY", "kappa": 2.3, "freqs": [0.1, 0.2, 0.3, 0.4]}, nuc, "AC",
          lambda x: x.upper() in "ACGTU", lambda x: x.upper() not in "RYMWSKBDHV" and x.upper() not in "ACGTU", "-",
          lambda x: x.upper().replace("U", "T"))
    # amino acids: 20 states, B Z X J O U * ? - in both cases
    aa = list(G.AA_ALL) + [c.lower() for c in G.AA_ALL if c.isalpha()] + list("0.")
    sweep("aa", {"kind": rng.choice(["LG", "WAG"])}, aa, "AC", lambda x: x.upper() in G.AA20,
          lambda x: x.upper() not in "BZ" and x.upper() not in G.AA20, "-", lambda x: x.upper())
    # codons (Universal code): sense triplets in several spellings, ambiguous / gap triplets
    sense = G.codon_sense(0)
    cod = [sense[0], sense[17], sense[60], sense[17].lower(), "TTT".replace("T", "U"), "ttu", "---", "???", "NNN", "A-G", "ACR", "acn", "Y??", "A?C"]
    k = 0
    sweep("codon", {"kind": "MG94", "kappa": 2.0, "alpha": 1.1, "beta": 0.7, "freqs": [1.0 / len(sense)] * len(sense), "genetic_code": k}, cod,
          [sense[3], sense[40]], lambda x: x.upper().replace("U", "T") in sense, lambda x: True, "---",
          lambda x: x.upper().replace("U", "T"), extra={"genetic_code": k})
    # a general data type with user ambiguity codes: codes, an alias, proper ambiguity keys, unknown symbols
    gen = {"codes": ["0", "1", "2", "x"], "ambiguities": {"K": ["0", "2"], "M": ["1", "2", "x"], "U": "1"}}
    sweep("general", {"kind": "GeneralJC69", "states": 4}, ["0", "1", "2", "x", "U", "K", "M", "?", "-", "Z"], ["0", "1"],
          lambda x: x in gen["codes"] or x == "U", lambda x: x not in ("K", "M"), "-", lambda x: "1" if x == "U" else x,
          extra={"general": gen}, union_only=("K", "M"))


def variants_guarded(run_, rng, tree, names, seqs, base, bucket, exhaustive):
    try:
        variants(run_, rng, tree, names, seqs, base, bucket, exhaustive)
    except InfraError:
        raise
    except Exception as e:  # noqa: BLE001
        import traceback

        run_.ck.mismatch("rewritings of a base case could not be evaluated",
                         {"newick": G.newick(tree), "base": base, "error": repr(e)[:300], "where": traceback.format_exc()[-600:]})


def run(ck: Check):
    torch = c01.setup_torch()
    ck.rule = (
        "one case = one PAIR of equivalent JSON specifications evaluated by the REAL TreeLikelihoodModel (members must "
        "agree to 1e-11) with members also re-run in the Lean model; distinct = distinct (base case, rewriting); "
        "non-trivial = finite log-likelihood of a tree with >= 3 taxa"
    )
    ck.assumptions += [
        "re-rooting and swapping the children of the ROOT of an UnRootedTreeModel are checked for time-reversible models "
        "only (the second moves the degree-two root to the other end of the merged root branch)",
        "index-addressed inputs (internal heights, per-branch clock rates) are re-addressed by the documented node "
        "numbering when the taxa order or child order changes: they are part of how the same tree is written down",
        "reversibility (detailed balance), P(0)=I and the semigroup property of the transition matrices are hypotheses "
        "of the re-rooting theorems (C04's subject)",
    ]
    ck.trusted += ["dendropy newick parsing / traversal order", "torch matmul/indexing/broadcasting semantics",
                   "subst_model.p_t (eigh/matrix_exp), site_model.rates/probabilities"]
    lean_src, tr_ok, note = tr_datatype.translate(REPO)
    gen_files = {"TTGen/C01_Alphabet.lean": lean_src}
    try:  # the LG / WAG corollaries (Props/C0x_LGWAG.lean) are about the generated empirical tables: regenerate them too
        import tr_subst

        sub_src, sub_ok, sub_note = tr_subst.translate(REPO)
        gen_files["TTGen/C04Tables.lean"] = sub_src
        ck.extra["translator_subst_recognised_source"] = sub_ok
        if not sub_ok:
            ck.notes.append("translator tr_subst: " + str(sub_note))
    except Exception as e:  # noqa: BLE001
        ck.notes.append("tr_subst unavailable: " + repr(e)[:200])
    ok, broken = ck.lean_side(gen_files,
                              ["TTGen.C01_Alphabet", "TTProofs.Props.C02", "drv_c02"], PROPS)
    drv = None
    try:
        drv = ck.driver("drv_c02")
    except Exception as e:  # noqa: BLE001
        ck.notes.append(f"driver unavailable: {e}")
    rng = ck.rng
    thorough = ck.thorough()
    run_ = Runner(ck, drv, torch)
    try:
        cdir = VERIF / "corpus" / "C02"
        for f in sorted(cdir.glob("*.json")) if cdir.exists() else []:
            try:
                obj = json.loads(f.read_text())
                run_.pair(obj["relation"], obj["a"], obj["b"], "corpus", (f.name,), factor=obj.get("factor", 1.0))
            except InfraError:
                raise
            except Exception as e:  # noqa: BLE001
                ck.mismatch("corpus pair could not be evaluated", {"file": f.name, "error": repr(e)[:300]})
        # exhaustive: every permutation / swap subset / rooting for small trees
        for n in ([3, 4, 5] if thorough else [3, 4]):
            for rep in range((12 if n == 3 else (8 if n == 4 else 4)) if thorough else (8 if n == 3 else 6)):
                tree, names, seqs, base = gen_base(rng, n, reversible=(rep % 2 == 0), rooting="unrooted" if rep % 2 == 0 else None)
                variants_guarded(run_, rng, tree, names, seqs, base, f"exhaustive/{n}", exhaustive=True)
        # amino-acid / codon alphabets
        for subst in (["LG", "WAG", "MG94"] * 3 if thorough else ["LG", "WAG", "MG94"]):
            tree, names, seqs, base = gen_base(rng, 3 if subst == "MG94" else 4, subst=subst)
            variants_guarded(run_, rng, tree, names, seqs, base, "alphabets", exhaustive=False)
        # ---- fourth-wave checklist: HOW the object is reached
        # (1) construction routes: the route-built object is one more way of writing the same thing down
        route_failures = []
        for i in range(24 if thorough else 6):
            try:
                case = G.gen_case(rng, rng.choice([3, 4]), subst=rng.choice(["JC69", "HKY", "GTR", "LG", "GeneralNonSymmetric"]), special=True,
                                  nsites=rng.randint(2, 4))
                RT.check_routes(ck, case, rng, c01.impl_path, route_failures, bucket="routes")
            except InfraError:
                raise
            except Exception as e:  # noqa: BLE001
                ck.mismatch("construction routes could not be evaluated", {"error": repr(e)[:300]})
        for f in route_failures:
            run_.failures.append({"relation": "route/" + f["route"], "factor": 1.0, "a": f["case"], "b": f["case"], "route": f["route"],
                                  "value_a": f["baseline"], "value_b": f.get("value"), "error": f.get("error")})
        # (1b) ORDER established at construction vs order at use: Alignment / Taxa (UserLists) and the sequence list are
        #      mutated in place between building one object and the next (alignment -> tree model -> site pattern -> likelihood);
        #      the value must stay the brute-force marginal of the data BY NAME
        mutation_failures = []
        for i in range(20 if thorough else 6):
            try:
                case = G.gen_case(rng, rng.choice([3, 4, 5]), subst=rng.choice(["JC69", "HKY", "GTR", "LG"]), clock="strict",
                                  nsites=rng.randint(3, 6), tip_states=(i % 2 == 1))
                RT.check_mutations(ck, case, rng, mutation_failures)
            except InfraError:
                raise
            except Exception as e:  # noqa: BLE001
                ck.mismatch("order mutations could not be evaluated", {"error": repr(e)[:300]})
        # (1c) SEVERAL LIVE INSTANCES: a model must give the same value whether it is alone in the process or built alongside
        #      differently configured ones (all built first, then evaluated in another order); helper objects are shared by none
        alongside_failures = []
        for g in range(12 if thorough else 4):
            try:
                cases = [G.gen_case(rng, n_, subst=sb, nsites=rng.randint(3, 5))
                         for n_, sb in zip(rng.sample([3, 4, 5], 3), rng.sample(["JC69", "HKY", "GTR", "LG", "GeneralNonSymmetric"], 3))]
                alone = [run_.value(c, lean=False) for c in cases]
                models = [G.build_model(c) for c in cases]        # all alive before any evaluation
                order = rng.sample(range(3), 3)
                got = {}
                for i in order:
                    try:
                        got[i] = c01.impl_value(models[i])
                    except Exception as e:  # noqa: BLE001  (raising alongside others while fine alone is a failure of the relation)
                        got[i] = None
                        ck.notes.append("alongside evaluation raised: " + repr(e)[:120]) if len(ck.notes) < 5 else None
                for i in range(3):
                    ck.case(key=("alongside", g, i, cases[i]["newick"]), bucket="several-live-instances")
                    if not close(got[i], alone[i], 1e-12):
                        alongside_failures.append({"cases": cases, "order": order, "instance": i, "alone": alone[i], "alongside": got[i]})
            except InfraError:
                raise
            except Exception as e:  # noqa: BLE001
                ck.mismatch("several-live-instances relation could not be evaluated", {"error": repr(e)[:300]})
        # (1d) SHARED SUB-OBJECTS: a likelihood built on sub-objects it SHARES by reference with other live likelihoods (one Taxa /
        #      Alignment / SitePattern / substitution / site model; JSON references or Python objects; other trees over the same taxa,
        #      other options per consumer) must give the value of the same specification built from its own copies (= the marginal of
        #      its own tree and data), before and after an update of a shared parameter
        shared_failures = []
        for g in range(30 if thorough else 8):
            try:
                plan = LV.gen_shared(rng)
                recs = LV.run_shared(plan)
                ck.case(key=("shared", g, plan["via"], plan["consumers"][0]["newick"]), bucket=f"shared-sub-objects/{plan['via']}")
                if any(LV.failing(r) for r in recs):
                    shared_failures.append((plan, recs))
            except InfraError:
                raise
            except Exception as e:  # noqa: BLE001
                ck.mismatch("shared-sub-object relation could not be evaluated", {"error": repr(e)[:300]})
        # (2) the tree-model option use_postorder_indices only renumbers the leaves: taxa order must still not matter,
        #     and the value must be that of the same specification without the option
        for rooting in ("unrooted", "time", "unrooted", "time") if thorough else ("unrooted", "time"):
            try:
                tree, names, seqs, base = gen_base(rng, 4, rooting=rooting, subst=rng.choice(["HKY", "GTR"]))
                if (base.get("clock") or {}).get("kind") == "simple":
                    # per-branch rates are addressed by node index, which this option changes: use one rate for all branches
                    base["clock"] = {"kind": "strict", "rate": rng.uniform(0.02, 0.3)}
                base["tree_options"] = {"use_postorder_indices": True}
                leaves = [x.name for x in tree.leaves()]
                t1 = leaves[1:] + leaves[:1]
                t2 = rng.sample(names, len(names))
                a = G.materialise(tree, t1, names, seqs, base)
                b = G.materialise(tree, t2, names, seqs, base)
                plain = dict(a)
                plain.pop("tree_options")
                kid = (G.newick(tree, lengths=False), rooting, tuple(t1), tuple(t2))
                run_.pair("perm-taxa/use_postorder_indices", a, b, "options", kid, lean_a=False, lean_b=False)
                run_.pair("option-absent-vs-use_postorder_indices", plain, a, "options", kid, lean_b=False)
            except InfraError:
                raise
            except Exception as e:  # noqa: BLE001
                ck.mismatch("option pairs could not be evaluated", {"error": repr(e)[:300]})
        # (3) dtype regimes / grad modes / copies as pair relations: the same specification evaluated under default
        #     float32 with float64 parameters, under no_grad, after deepcopy, after .cpu() must give the plain value
        regime_failures = []
        # a FIXED time-tree case for model.to(float32): a listed known finding must be reproduced on every seed / tier
        try:
            res = RG.run_probe({"kind": "to-float32", "case": RG.fixed_to_dtype_case()})
            ck.case(key=("regime", "to-float32", "fixed-time-tree"), bucket="regime/to-float32/fixed-time-tree")
            if not res["ok"]:
                regime_failures.append(("to-float32", RG.fixed_to_dtype_case(), res))
        except InfraError:
            raise
        except Exception as e:  # noqa: BLE001
            ck.mismatch("regime probe could not be evaluated", {"kind": "to-float32", "error": repr(e)[:300]})
        for kind in ("dtype-default32-params64", "grad", "cpu", "to-float32", "immutable"):
            for _ in range(3 if thorough else 1):
                try:
                    case = G.gen_case(rng, 4, subst=rng.choice(["JC69", "HKY"]), site=rng.choice(["constant", "invariant"]), nsites=3)
                    res = RG.run_probe({"kind": kind, "case": case})
                    ck.case(key=("regime", kind, case["newick"]), bucket="regime/" + kind)
                    if not res["ok"]:
                        regime_failures.append((kind, case, res))
                except InfraError:
                    raise
                except Exception as e:  # noqa: BLE001
                    ck.mismatch("regime probe could not be evaluated", {"kind": kind, "error": repr(e)[:300]})
        # SitePattern `indices`: every spelling of the class (negative ints esp. -1, negative slice starts / stops / steps, open and
        # clamped bounds, mixed and repeated lists) must give the value of the alignment REWRITTEN with Python's own column indexing
        try:
            for dtn, sub in (("nucleotide", "HKY"), ("aa", "LG")):
                base_c = G.gen_case(rng, 4, subst=sub, site="constant", rooting="unrooted", nsites=rng.randint(7, 10), special=False)
                L = min(len(x) for x in base_c["seqs"].values())
                for sp in G.index_spellings(L, rng):
                    a = dict(base_c, indices=sp)
                    b = G.rewritten_without_indices(a)
                    if b is None:
                        continue   # an empty selection cannot be compressed (the code raises on it): not a data set
                    run_.pair("indices-vs-rewritten-columns", a, b, "site-pattern-indices", (dtn, base_c["newick"], sp), lean_a=False, lean_b=False)
        except InfraError:
            raise
        except Exception as e:  # noqa: BLE001
            ck.mismatch("indices relation could not be evaluated", {"error": repr(e)[:300]})
        # per-symbol sweep over every alphabet
        try:
            symbol_sweep(run_, rng, thorough)
        except InfraError:
            raise
        except Exception as e:  # noqa: BLE001
            import traceback

            ck.mismatch("symbol sweep could not be evaluated", {"error": repr(e)[:300], "where": traceback.format_exc()[-500:]})
        # GeneralDataType alphabets (user-supplied codes + ambiguity map): column relations
        for _ in range(40 if thorough else 8):
            try:
                case = G.gen_case(rng, rng.choice([3, 4, 5]), general=True, rooting="unrooted", nsites=rng.randint(3, 6))
                column_relations(run_, rng, case, "general-datatype")
            except InfraError:
                raise
            except Exception as e:  # noqa: BLE001
                ck.mismatch("general-datatype relations could not be evaluated", {"error": repr(e)[:300]})
        # random beyond
        for _ in range(200 if thorough else 30):
            n = rng.choice([5, 6, 7, 8, 10, 14]) if thorough else rng.choice([5, 6, 7, 8])
            tree, names, seqs, base = gen_base(rng, n)
            variants_guarded(run_, rng, tree, names, seqs, base, "random", exhaustive=False)
        # all rootings of larger unrooted trees, reversible
        for _ in range(40 if thorough else 8):
            n = rng.choice([6, 7, 8, 12, 20]) if thorough else rng.choice([6, 7, 8, 12])
            tree, names, seqs, base = gen_base(rng, n, reversible=True, rooting="unrooted")
            variants_guarded(run_, rng, tree, names, seqs, base, "rootings", exhaustive=False)
    finally:
        if drv:
            drv.close()

    SIG = {"dtype-default32-params64": "TreeLikelihoodModel:dtype-regime", "to-float32": "TreeLikelihoodModel:to-dtype",
           "cpu": "TreeLikelihoodModel:device-move"}
    seen_sig = set()
    for kind, case, res in regime_failures:
        sig = SIG.get(kind, "TreeLikelihoodModel:" + kind)
        if sig in seen_sig:
            continue
        seen_sig.add(sig)
        ck.violation(sig, f"the same specification evaluated in the regime '{kind}' does not give the plain value: "
                     + json.dumps({k: v for k, v in res.items() if k not in ("where", "ok")}, default=str)[:300],
                     {"probe": {"kind": kind, "case": case}, "result": res, "replay_cmd": "./check C02 --replay <this file>"})
    for how in sorted(set(f["mutation"] for f in mutation_failures)):
        fs = sorted((f for f in mutation_failures if f["mutation"] == how), key=lambda f: len(json.dumps(f["case"])))
        f = fs[0]
        ck.violation("TreeLikelihoodModel:order-mutation:" + how,
                     f"after the in-place reordering '{how}' of the live containers the likelihood is "
                     + (f"{f['value']}" if f.get("error") is None else f"not computed ({f['error']})")
                     + f" but the marginal of the data matched BY NAME is {f['oracle']} ({len(fs)} failing cases)",
                     {"mutation": {"case": f["case"], "how": how}, "detail": {k: v for k, v in f.items() if k != "case"},
                      "replay_cmd": "./check C02 --replay <this file>"})
    if shared_failures:
        shared_failures.sort(key=lambda f: (not any(LV.failing(r) and r["instance"] >= 0 for r in f[1]), len(f[0]["consumers"]), len(json.dumps(f[0]))))
        plan, recs = shared_failures[0]
        bad = next((r for r in recs if LV.failing(r) and r["instance"] >= 0), None) or next(r for r in recs if LV.failing(r))
        ck.violation("TreeLikelihoodModel:shared-sub-objects",
                     f"{len(plan['consumers'])} likelihoods sharing one Taxa / Alignment / SitePattern / substitution / site model ({plan['via']}): "
                     + (f"consumer {bad['instance']} ({bad.get('kind')}) returns {bad['impl']} but the same specification on its own sub-objects gives {bad['oracle']}"
                        if bad["instance"] >= 0 else "the tip list handed out by the shared SitePattern was altered by a consumer")
                     + f" ({len(shared_failures)} failing plans)",
                     {"shared": plan, "records": recs, "replay_cmd": "./check C02 --replay <this file>"})
    if alongside_failures:
        f = alongside_failures[0]
        ck.violation("TreeLikelihoodModel:several-live-instances",
                     f"a model ({len(f['cases'][f['instance']]['taxa'])} taxa, {f['cases'][f['instance']]['subst']['kind']}) returns {f['alongside']} when built alongside two "
                     f"differently configured models (all built first, evaluated in order {f['order']}) but {f['alone']} when built alone "
                     f"({len(alongside_failures)} failing instances)",
                     {"alongside": f, "replay_cmd": "./check C02 --replay <this file>"})
    fails = run_.failures
    opt = [f for f in fails if "use_postorder_indices" in f["relation"]]
    if opt:
        f = opt[0]
        ck.violation("option:use_postorder_indices",
                     f"with use_postorder_indices the value depends on the order of Taxa / differs from the specification without the option "
                     f"({f['relation']}: {f['value_a']} vs {f['value_b']}; {len(opt)} failing pairs)",
                     {"pair": f, "replay_cmd": "./check C02 --replay <this file>"})
        fails = [f for f in fails if f not in opt]
    if fails:
        fails.sort(key=lambda f: (len(f["a"]["taxa"]), len(json.dumps(f["a"]))))
        f = fails[0]
        rels = sorted(set(x["relation"] for x in fails))
        ck.violation(
            "TreeLikelihoodModel:pair:" + f["relation"],
            f"equivalent specifications ({f['relation']}) give {f['value_a']} and {f['value_b']} "
            f"({len(fails)} failing pairs, relations {rels}; smallest has {len(f['a']['taxa'])} taxa)",
            {"pair": f, "broken_obligations": broken, "mismatches": ck.mismatches[:3], "replay_cmd": "./check C02 --replay <this file>"},
        )
    elif not opt and not regime_failures and not mutation_failures and not alongside_failures and not shared_failures and (not ok or ck.mismatches):
        ck.violation(
            "C02:unproved",
            "C02 theorems or the model/implementation correspondence no longer check "
            f"({len(broken)} broken obligations, {len(ck.mismatches)} mismatches: {sorted(set(m['what'] for m in ck.mismatches))[:4]})",
            {"broken_obligations": broken, "mismatches": ck.mismatches[:5], "translator_note": note},
            found_input=False,
        )


def replay(path: str) -> int:
    c01.setup_torch()
    obj = json.loads(Path(path).read_text())
    if obj.get("shared"):
        recs = LV.run_shared(obj["shared"])
        bad = any(LV.failing(r) for r in recs)
        for r in recs:
            print(f"consumer {r['instance']} {r.get('kind', '')}: shared = {r['impl']!r}; own sub-objects / marginal = {r['oracle']!r}; {'VIOLATES' if LV.failing(r) else 'ok'}")
        return 1 if bad else 0
    if obj.get("alongside"):
        f = obj["alongside"]
        alone = [c01.impl_value(G.build_model(c)) for c in f["cases"]]
        models = [G.build_model(c) for c in f["cases"]]
        got = {}
        for i in f["order"]:
            try:
                got[i] = c01.impl_value(models[i])
            except Exception as e:  # noqa: BLE001
                print("alongside evaluation raised:", repr(e)[:200])
                got[i] = None
        bad = any(not close(got[i], alone[i], 1e-12) for i in got)
        print(f"alone: {alone}; alongside (order {f['order']}): {[got[i] for i in range(len(alone))]}; {'VIOLATES' if bad else 'ok'}")
        return 1 if bad else 0
    if obj.get("mutation"):
        import random

        mu = obj["mutation"]
        want, _ = G.oracle_loglik(mu["case"], G.build_model(mu["case"]))
        try:
            v = c01.impl_value(RT.mutation_route(mu["case"], mu["how"], random.Random(0)))
        except Exception as e:  # noqa: BLE001
            print(f"mutation {mu['how']}: raised {e!r}; marginal by name {want!r}; VIOLATES")
            return 1
        bad = not close(v, want, 1e-9)
        print(f"mutation {mu['how']}: {v!r}; marginal of the data by name: {want!r}; {'VIOLATES' if bad else 'ok'}")
        return 1 if bad else 0
    if obj.get("probe"):
        res = RG.run_probe(obj["probe"])
        print(f"regime {obj['probe']['kind']}: {json.dumps({k: v for k, v in res.items() if k != 'where'}, default=str)[:500]}; {'ok' if res['ok'] else 'VIOLATES'}")
        return 0 if res["ok"] else 1
    f = obj.get("pair")
    if f and f.get("route"):
        import random
        import tempfile

        rng = random.Random(0)
        try:
            v0 = c01.impl_value(RT.build_route(f["a"], "baseline", rng))
            with tempfile.TemporaryDirectory() as tmp:
                v = c01.impl_value(RT.build_route(f["a"], f["route"], rng, tmp))
        except Exception as e:  # noqa: BLE001
            print(f"route {f['route']}: raised {e!r}; VIOLATES")
            return 1
        bad = not close(v, v0, 1e-13)
        print(f"route {f['route']}: {v!r}; from_json on the nested JSON: {v0!r}; {'VIOLATES' if bad else 'ok'}")
        return 1 if bad else 0
    if not f:
        print("replay names broken obligations only:", obj.get("broken_obligations"), obj.get("mismatches"))
        return 1
    vals = []
    for c in (f["a"], f["b"]):
        try:
            vals.append(c01.impl_value(G.build_model(c)))
        except Exception as e:  # noqa: BLE001
            print("implementation raised:", repr(e))
            vals.append(None)
    if f.get("parts"):
        try:
            vals[1] = math.fsum(c01.impl_value(G.build_model(c)) for c in f["parts"])
        except Exception as e:  # noqa: BLE001
            print("implementation raised on a single-column alignment:", repr(e))
            vals[1] = None
    bad = not close(vals[0] * f.get("factor", 1.0) if vals[0] is not None else None, vals[1], TOL_PAIR)
    print(f"relation {f['relation']}: a -> {vals[0]!r} (x{f.get('factor', 1.0)}), b -> {vals[1]!r}; {'VIOLATES' if bad else 'ok'}")
    return 1 if bad else 0
