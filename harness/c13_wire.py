"""Wire codec for JSON values exchanged with the Lean drivers drv_c13 / drv_c19
(see lean/TTModel/C13_Codec.lean) and parsing of the loader's replies."""
from __future__ import annotations

from common import f2h, h2f


def hx(s: str) -> str:
    return s.encode("utf-8").hex()


def unhx(h: str) -> str:
    return bytes.fromhex(h).decode("utf-8")


def enc(j, out=None) -> list:
    top = out is None
    if top:
        out = []
    if j is None:
        out.append("N")
    elif j is True:
        out.append("T")
    elif j is False:
        out.append("F")
    elif isinstance(j, int):
        out.append("I%d" % j)
    elif isinstance(j, float):
        out.append("D" + f2h(j))
    elif isinstance(j, str):
        out.append("S" + hx(j))
    elif isinstance(j, (list, tuple)):
        out.append("A%d" % len(j))
        for x in j:
            enc(x, out)
    elif isinstance(j, dict):
        out.append("O%d" % len(j))
        for k, v in j.items():
            if not isinstance(k, str):
                raise TypeError("non-string key")
            out.append("S" + hx(k))
            enc(v, out)
    else:
        raise TypeError("not a JSON value: %r" % (j,))
    return out


def encs(j) -> str:
    return " ".join(enc(j))


def dec(toks, i=0):
    t = toks[i]
    c, body = t[0], t[1:]
    if c == "N":
        return None, i + 1
    if c == "T":
        return True, i + 1
    if c == "F":
        return False, i + 1
    if c == "I":
        return int(body), i + 1
    if c == "D":
        return h2f(body), i + 1
    if c == "S":
        return unhx(body), i + 1
    if c == "A":
        n, xs, i = int(body), [], i + 1
        for _ in range(n):
            x, i = dec(toks, i)
            xs.append(x)
        return xs, i
    if c == "O":
        n, d, i = int(body), {}, i + 1
        for _ in range(n):
            k, i = dec(toks, i)
            v, i = dec(toks, i)
            d[k] = v
        return d, i
    raise ValueError("bad token " + t)


def decs(s: str):
    toks = s.split()
    j, i = dec(toks)
    if i != len(toks):
        raise ValueError("trailing tokens")
    return j


def same_json(a, b) -> bool:
    """structural equality that distinguishes bool / int / float (Python's == does not),
    compares floats by bit pattern, and dict key ORDER"""
    if type(a) is not type(b):
        return False
    if isinstance(a, float):
        return f2h(a) == f2h(b)
    if isinstance(a, list):
        return len(a) == len(b) and all(same_json(x, y) for x, y in zip(a, b))
    if isinstance(a, dict):
        return list(a.keys()) == list(b.keys()) and all(same_json(a[k], b[k]) for k in a)
    return a == b


# ------------------------------------------------------------------ loader replies
def parse_err(words):
    """['wrapped:..:..', 'wrapped:..', 'notFound:..'] -> chain outermost..innermost of tuples"""
    chain = []
    for w in words:
        parts = w.split(":")
        chain.append(tuple([parts[0]] + [unhx(p) for p in parts[1:]]))
    return chain


def parse_load(reply: str):
    """-> ('ok', results, reg, heap) | ('err', chain) | ('plate-err', kind) | ('bad', reply)"""
    w = reply.split(" ")
    if w[0] == "err":
        return ("err", parse_err(w[1:]))
    if w[0] == "plate-err":
        return ("plate-err", w[1])
    if w[0] != "ok":
        return ("bad", reply)
    # ok results <r> reg <reg> heap <heap>
    i_reg, i_heap = w.index("reg"), w.index("heap")
    res_s = " ".join(w[2:i_reg])
    reg_s = " ".join(w[i_reg + 1:i_heap])
    heap_s = " ".join(w[i_heap + 1:])
    results = [[int(a) for a in r[1:].split(".") if a != ""] for r in res_s.split(",")] if res_s != "" else []
    reg = []
    if reg_s:
        for e in reg_s.split(","):
            k, a = e.split(":")
            reg.append((unhx(k), int(a)))
    heap = []
    if heap_s:
        for e in heap_s.split(","):
            cls, id_, kids_s = e.split(":")
            kids = []
            if kids_s:
                for ks in kids_s.split(";"):
                    k, as_ = ks.split("=")
                    kids.append((unhx(k), [int(a) for a in as_.split(".") if a != ""]))
            heap.append((unhx(cls), unhx(id_), kids))
    return ("ok", results, reg, heap)


def canon_graph(results, reg, label, kids):
    """Canonical pointer graph: nodes renamed by first visit in a depth-first walk from the
    top-level results (in order) and then the registry entries (in insertion order).
    `label(node)` -> hashable label; `kids(node)` -> [(slot, [nodes])]; nodes compared by `key`."""
    num = {}
    nodes = []

    def visit(n):
        k = n if isinstance(n, int) else id(n)
        if k in num:
            return num[k]
        num[k] = len(nodes)
        me = [label(n), None]
        nodes.append(me)
        me[1] = [(s, [visit(c) for c in cs]) for s, cs in kids(n)]
        return num[k]

    r = [[visit(n) for n in rs] for rs in results]
    g = [(k, visit(n)) for k, n in reg]
    return {"results": r, "reg": g, "nodes": [(l, k) for l, k in nodes]}
