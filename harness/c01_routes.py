"""CONSTRUCTION ROUTES for C01/C02: the same case reaches a TreeLikelihoodModel through every route the library
offers; every route-built object must take the path the options name and evaluate exactly like the baseline
(`TreeLikelihoodModel.from_json` on the nested JSON of `c01_gen.build_spec`).

routes
  key-order          the same JSON with every dict's keys in another order
  full-type-names    fully qualified `type` strings instead of the registered short names
  referenced         a flat list of top-level objects referring to each other by id, loaded with `process_objects`
                     (what `torchtree.py` does with a configuration file)
  explicit-defaults  every optional key given explicitly with its documented default
  cli-shape          the nesting `torchtree-cli` emits (data type object inside the alignment, taxa inside the tree model,
                     `tree_model`, `site_model`, `substitution_model`, `site_pattern` order, no boolean options unless set)
  json-factory       tree / clock / parameter JSON produced by the `json_factory` helpers
  files              alignment read from a FASTA file, tree read from a Newick file
  keyword-ctor       sub-objects built with the Python constructors, `TreeLikelihoodModel(id_=…, site_pattern=…, …)`
  positional-ctor    the same, all arguments positional
"""
from __future__ import annotations

import copy
import os
import tempfile

import c01_gen as G

FULL = {
    "TreeLikelihoodModel": "torchtree.evolution.tree_likelihood.TreeLikelihoodModel",
    "Parameter": "torchtree.core.parameter.Parameter",
    "Taxa": "torchtree.evolution.taxa.Taxa", "Taxon": "torchtree.evolution.taxa.Taxon",
    "Alignment": "torchtree.evolution.alignment.Alignment", "SitePattern": "torchtree.evolution.site_pattern.SitePattern",
    "UnRootedTreeModel": "torchtree.evolution.tree_model.UnRootedTreeModel", "TimeTreeModel": "torchtree.evolution.tree_model.TimeTreeModel",
    "ReparameterizedTimeTreeModel": "torchtree.evolution.tree_model.ReparameterizedTimeTreeModel",
    "StrictClockModel": "torchtree.evolution.branch_model.StrictClockModel", "SimpleClockModel": "torchtree.evolution.branch_model.SimpleClockModel",
    "ConstantSiteModel": "torchtree.evolution.site_model.ConstantSiteModel", "InvariantSiteModel": "torchtree.evolution.site_model.InvariantSiteModel",
    "WeibullSiteModel": "torchtree.evolution.site_model.WeibullSiteModel",
    "JC69": "torchtree.evolution.substitution_model.JC69", "HKY": "torchtree.evolution.substitution_model.HKY",
    "GTR": "torchtree.evolution.substitution_model.GTR", "LG": "torchtree.evolution.substitution_model.LG",
    "WAG": "torchtree.evolution.substitution_model.WAG", "MG94": "torchtree.evolution.substitution_model.MG94",
    "GeneralJC69": "torchtree.evolution.substitution_model.GeneralJC69",
    "GeneralSymmetricSubstitutionModel": "torchtree.evolution.substitution_model.GeneralSymmetricSubstitutionModel",
    "GeneralNonSymmetricSubstitutionModel": "torchtree.evolution.substitution_model.GeneralNonSymmetricSubstitutionModel",
    "NucleotideDataType": "torchtree.evolution.datatype.NucleotideDataType", "AminoAcidDataType": "torchtree.evolution.datatype.AminoAcidDataType",
    "CodonDataType": "torchtree.evolution.datatype.CodonDataType", "GeneralDataType": "torchtree.evolution.datatype.GeneralDataType",
}
SHORT = {v: k for k, v in FULL.items()}
SHORT["torchtree.Parameter"] = "Parameter"


def walk(o, fn):
    if isinstance(o, dict):
        return fn({k: walk(v, fn) for k, v in o.items()})
    if isinstance(o, list):
        return [walk(v, fn) for v in o]
    return o


def short_type(t):
    return SHORT.get(t, t.split(".")[-1] if t.startswith("torchtree.") else t)


def reorder(spec, rng):
    def f(d):
        ks = list(d.keys())
        rng.shuffle(ks)
        return {k: d[k] for k in ks}
    return walk(copy.deepcopy(spec), f)


def full_names(spec, to_full=True):
    def f(d):
        if "type" in d and isinstance(d["type"], str):
            t = short_type(d["type"])
            d = dict(d)
            d["type"] = FULL.get(t, d["type"]) if to_full else t
        return d
    return walk(copy.deepcopy(spec), f)


def flatten(spec):
    """top-level list: every identifiable sub-object defined once at top level, nested occurrences replaced by its id;
    objects appear after the objects they refer to"""
    out, seen = [], set()

    def lift(d, top=False):
        if isinstance(d, dict):
            d2 = {}
            for k, v in d.items():
                if isinstance(v, dict) and "id" in v and "type" in v and v["id"] is not None and short_type(v["type"]) not in ("Taxon",):
                    lift(v, True)
                    d2[k] = v["id"]
                elif isinstance(v, list):
                    d2[k] = [lift(x) if isinstance(x, dict) and short_type(x.get("type", "")) == "Taxon" else x for x in v]
                elif isinstance(v, dict):
                    d2[k] = lift(v)
                else:
                    d2[k] = v
            if top and d["id"] not in seen:
                seen.add(d["id"])
                out.append(d2)
            return d2
        return d

    spec = copy.deepcopy(spec)
    # the data type of codon / general alignments is defined inside the substitution model: define that one first
    first = [k for k in ("tree_model", "site_model", "substitution_model") if k in spec]
    spec = {**{k: spec[k] for k in first}, **{k: v for k, v in spec.items() if k not in first}}
    lift(spec, True)
    return out


def explicit_defaults(spec):
    s = copy.deepcopy(spec)
    s.setdefault("use_ambiguities", False)
    s.setdefault("use_tip_states", False)
    if isinstance(s.get("tree_model"), dict):
        s["tree_model"].setdefault("use_postorder_indices", False)
        if s["tree_model"]["type"].endswith("TimeTreeModel") and "keep_branch_lengths" not in s["tree_model"]:
            s["tree_model"]["keep_branch_lengths"] = False
    return s


def cli_shape(spec):
    """nesting of torchtree-cli: alignment carries the data type object and the taxa; the tree model refers to `taxa`;
    key order tree_model, site_model, substitution_model, site_pattern"""
    s = copy.deepcopy(spec)
    tree, aln = s["tree_model"], s["site_pattern"]["alignment"]
    if not isinstance(tree.get("taxa"), dict):
        return None
    if aln["datatype"] == "nucleotide":
        aln["datatype"] = {"id": "data_type", "type": "NucleotideDataType"}
    # from_json processes tree_model first, so the taxa stay defined there (as the CLI's create_tree_model does)
    out = {"id": s["id"], "type": "TreeLikelihoodModel", "tree_model": tree, "site_model": s["site_model"],
           "substitution_model": s["substitution_model"], "site_pattern": s["site_pattern"]}
    if s.get("use_ambiguities"):
        out["use_ambiguities"] = True
    if s.get("use_tip_states"):
        out["use_tip_states"] = True
    if "use_ambiguities" in s and not s["use_ambiguities"] and s["use_ambiguities"] is not None:
        pass  # the CLI never writes an explicit false
    if "branch_model" in s:
        out["branch_model"] = s["branch_model"]
    return out


def via_factories(case, spec):
    from torchtree.evolution.branch_model import SimpleClockModel
    from torchtree.evolution.tree_model import TimeTreeModel, UnRootedTreeModel

    s = copy.deepcopy(spec)
    tree = s["tree_model"]
    taxa = tree["taxa"]
    if not isinstance(taxa, dict):
        return None
    kind = short_type(tree["type"])
    if kind == "UnRootedTreeModel":
        bl = tree["branch_lengths"]["tensor"]
        kw = {"branch_lengths_id": "bl", "taxa_id": "taxa"}
        if tree.get("keep_branch_lengths"):
            kw["keep_branch_lengths"] = True
        t2 = UnRootedTreeModel.json_factory("tree", tree["newick"], [float(x) for x in bl], taxa["taxa"], **kw)
        t2["branch_lengths"]["dtype"] = "torch.float64"
    elif kind == "TimeTreeModel":
        kw = {"internal_heights_id": "heights", "taxa_id": "taxa"}
        if tree.get("keep_branch_lengths"):
            kw["keep_branch_lengths"] = True
        dates = {t["id"]: t["attributes"]["date"] for t in taxa["taxa"]}  # dict form: the factory writes the Taxon objects
        t2 = TimeTreeModel.json_factory("tree", tree["newick"], [float(x) for x in tree["internal_heights"]["tensor"]], dates, **kw)
        t2["internal_heights"]["dtype"] = "torch.float64"
    else:
        return None
    s["tree_model"] = t2
    if "branch_model" in s and short_type(s["branch_model"]["type"]) == "SimpleClockModel":
        s["branch_model"] = SimpleClockModel.json_factory("clock", "tree", s["branch_model"]["rate"])
    return s


def via_files(case, spec, tmpdir):
    s = copy.deepcopy(spec)
    aln = s["site_pattern"]["alignment"]
    fa = os.path.join(tmpdir, "aln.fasta")
    with open(fa, "w") as fp:
        for sq in aln.pop("sequences"):
            txt = sq["sequence"]
            fp.write(">" + sq["taxon"] + "\n")
            for i in range(0, len(txt), 7):  # sequences broken over several lines
                fp.write(txt[i:i + 7] + "\n")
    aln["file"] = fa
    nw = os.path.join(tmpdir, "tree.nwk")
    with open(nw, "w") as fp:
        fp.write(s["tree_model"].pop("newick") + "\n")
    s["tree_model"]["file"] = nw
    return s


def ctor_route(case, spec, positional):
    """sub-objects through their own constructors where the library has public ones, then the likelihood constructor"""
    import torch
    from torchtree import Parameter
    from torchtree.core.utils import process_object
    from torchtree.evolution.alignment import Alignment, Sequence
    from torchtree.evolution.datatype import AminoAcidDataType, NucleotideDataType
    from torchtree.evolution.site_pattern import SitePattern
    from torchtree.evolution.taxa import Taxa, Taxon
    from torchtree.evolution.tree_likelihood import TreeLikelihoodModel

    dic = {}
    tree_model = process_object(copy.deepcopy(spec["tree_model"]), dic)  # trees need dendropy's parser: from_json is the route
    taxa = dic["taxa"]
    assert isinstance(taxa, Taxa)
    aln_spec = spec["site_pattern"]["alignment"]
    if case["datatype"] == "nucleotide":
        dt = NucleotideDataType(None)
    elif case["datatype"] == "aa":
        dt = AminoAcidDataType("dt")
    else:
        return None
    seqs = [Sequence(x["taxon"], x["sequence"]) for x in aln_spec["sequences"]]
    if positional:
        aln = Alignment("aln", seqs, taxa, dt)
        sp = SitePattern("sp", aln, None) if not spec["site_pattern"].get("indices") else None
    else:
        aln = Alignment(id_="aln", sequences=seqs, taxa=taxa, data_type=dt)
        sp = SitePattern(id_="sp", alignment=aln) if not spec["site_pattern"].get("indices") else None
    if sp is None:
        return None
    subst = process_object(copy.deepcopy(spec["substitution_model"]), dic)
    site = process_object(copy.deepcopy(spec["site_model"]), dic)
    clock = process_object(copy.deepcopy(spec["branch_model"]), dic) if "branch_model" in spec else None
    ua, ts = spec.get("use_ambiguities", False), spec.get("use_tip_states", False)
    if positional:
        return TreeLikelihoodModel("like", sp, tree_model, subst, site, clock, ua, ts)
    kw = dict(id_="like", site_pattern=sp, tree_model=tree_model, subst_model=subst, site_model=site)
    # optional arguments only when they were given in the specification
    if clock is not None:
        kw["clock_model"] = clock
    if "use_ambiguities" in spec:
        kw["use_ambiguities"] = spec["use_ambiguities"]
    if "use_tip_states" in spec:
        kw["use_tip_states"] = spec["use_tip_states"]
    return TreeLikelihoodModel(**kw)


ROUTES = ["key-order", "full-type-names", "referenced", "explicit-defaults", "cli-shape", "json-factory", "files",
          "keyword-ctor", "positional-ctor"]


def build_route(case, route, rng, tmpdir=None):
    """-> model or None (route not applicable to this case)"""
    import torch
    from torchtree.core.utils import process_objects
    from torchtree.evolution.tree_likelihood import TreeLikelihoodModel

    torch.set_default_dtype(torch.float64)
    spec = G.build_spec(case)
    if route == "baseline":
        return TreeLikelihoodModel.from_json(spec, {})
    if route == "key-order":
        return TreeLikelihoodModel.from_json(reorder(spec, rng), {})
    if route == "full-type-names":
        return TreeLikelihoodModel.from_json(full_names(spec), {})
    if route == "referenced":
        dic = {}
        objs = process_objects(flatten(spec), dic)
        return objs[-1]
    if route == "explicit-defaults":
        return TreeLikelihoodModel.from_json(explicit_defaults(spec), {})
    if route == "cli-shape":
        s = cli_shape(spec)
        return None if s is None else TreeLikelihoodModel.from_json(s, {})
    if route == "json-factory":
        s = via_factories(case, spec)
        return None if s is None else TreeLikelihoodModel.from_json(s, {})
    if route == "files":
        return TreeLikelihoodModel.from_json(via_files(case, spec, tmpdir), {})
    if route == "keyword-ctor":
        return ctor_route(case, spec, False)
    if route == "positional-ctor":
        return ctor_route(case, spec, True)
    raise ValueError(route)


def check_routes(ck, case, rng, impl_path, failures, bucket="routes"):
    """all routes of one case against the baseline; appends (case, route, baseline value, route value/err) to failures"""
    try:
        base = build_route(case, "baseline", rng)
        v0 = float(base().reshape(-1)[0])
        p0 = impl_path(base, len(case["taxa"]))
    except Exception as e:  # noqa: BLE001
        ck.mismatch("implementation raised", {"case": case, "error": repr(e)[:300]})
        return
    with tempfile.TemporaryDirectory(prefix="c01r-") as tmp:
        for route in ROUTES:
            try:
                m = build_route(case, route, rng, tmp)
                if m is None:
                    ck.bucket(f"{bucket}/{route}/not-applicable")
                    continue
                v = float(m().reshape(-1)[0])
                p = impl_path(m, len(case["taxa"]))
            except Exception as e:  # noqa: BLE001
                failures.append({"case": case, "route": route, "baseline": v0, "value": None, "error": repr(e)[:300]})
                ck.case(key=("route", route, case["newick"]), bucket=f"{bucket}/{route}/raised")
                continue
            ck.case(key=("route", route, case["newick"], case["subst"]["kind"]), bucket=f"{bucket}/{route}")
            if v != v0 and not (abs(v - v0) <= 1e-13 * max(1.0, abs(v0))) or p != p0:
                failures.append({"case": case, "route": route, "baseline": v0, "value": v, "path": list(p), "baseline_path": list(p0)})


# ------------------------------------------------------------------------------------------------------------------
# ORDER established at construction vs order at use: the live containers (Alignment and Taxa are UserLists) are
# MUTATED between building one object and building the next one downstream
MUTATIONS = ["aln.reverse", "aln.sort-by-sequence", "aln.pop-append", "aln.slice-assign", "aln.insert-front",
             "taxa.sort@before-tree", "taxa.reverse@before-tree", "taxa.sort@after-tree", "taxa.reverse@after-tree",
             "taxa.pop-append@after-tree", "both@after-tree", "seqs-list.reverse@after-alignment", "aln.reverse@after-sitepattern",
             "taxa.reverse@after-likelihood"]


def mutate_alignment(aln, how, rng):
    if how == "aln.reverse":
        aln.reverse()
    elif how == "aln.sort-by-sequence":
        aln.sort(key=lambda s: (s.sequence, s.taxon))
    elif how == "aln.pop-append":
        aln.append(aln.pop(0))
    elif how == "aln.slice-assign":
        items = list(aln)
        rng.shuffle(items)
        aln[:] = items
    elif how == "aln.insert-front":
        aln.insert(0, aln.pop())


def mutation_route(case, how, rng):
    """build taxa -> alignment -> tree model -> site pattern -> likelihood with the Python constructors, mutating the live
    containers at the point `how` names. Returns the model (nucleotide / amino-acid data, no column selection)."""
    import torch
    from torchtree.core.utils import process_object
    from torchtree.evolution.alignment import Alignment, Sequence
    from torchtree.evolution.datatype import AminoAcidDataType, NucleotideDataType
    from torchtree.evolution.site_pattern import SitePattern
    from torchtree.evolution.taxa import Taxa, Taxon
    from torchtree.evolution.tree_likelihood import TreeLikelihoodModel

    torch.set_default_dtype(torch.float64)
    spec = G.build_spec(case)
    if case["datatype"] not in ("nucleotide", "aa") or spec["site_pattern"].get("indices"):
        return None
    taxa = Taxa("taxa", [Taxon(t["id"], dict(t.get("attributes", {}))) for t in spec["tree_model"]["taxa"]["taxa"]])
    dt = NucleotideDataType(None) if case["datatype"] == "nucleotide" else AminoAcidDataType("dt")
    seq_list = [Sequence(x["taxon"], x["sequence"]) for x in spec["site_pattern"]["alignment"]["sequences"]]
    aln = Alignment("aln", seq_list, taxa, dt)
    if how == "seqs-list.reverse@after-alignment":
        seq_list.reverse()  # the list object that was handed to the Alignment
    if how.startswith("aln.") and "@" not in how:
        mutate_alignment(aln, how, rng)
    if how == "taxa.sort@before-tree":
        taxa.sort(key=lambda t: t.id)
    if how == "taxa.reverse@before-tree":
        taxa.reverse()
    dic = {"taxa": taxa}
    tspec = copy.deepcopy(spec["tree_model"])
    tspec["taxa"] = "taxa"
    tree_model = process_object(tspec, dic)
    if how == "taxa.sort@after-tree":
        taxa.sort(key=lambda t: t.id)
    if how == "taxa.reverse@after-tree":
        taxa.reverse()
    if how == "taxa.pop-append@after-tree":
        taxa.append(taxa.pop(0))
    if how == "both@after-tree":
        taxa.sort(key=lambda t: t.id, reverse=True)
        aln.reverse()
    sp = SitePattern("sp", aln)
    if how == "aln.reverse@after-sitepattern":
        aln.reverse()
    subst = process_object(copy.deepcopy(spec["substitution_model"]), dic)
    site = process_object(copy.deepcopy(spec["site_model"]), dic)
    clock = process_object(copy.deepcopy(spec["branch_model"]), dic) if "branch_model" in spec else None
    m = TreeLikelihoodModel("like", sp, tree_model, subst, site, clock, bool(spec.get("use_ambiguities", False)), bool(spec.get("use_tip_states", False)))
    if how == "taxa.reverse@after-likelihood":
        taxa.reverse()
        aln.reverse()
    return m


def check_mutations(ck, case, rng, failures, bucket="order-mutation"):
    """every mutation point against the brute-force oracle on the data BY NAME"""
    try:
        base = G.build_model(case)
        want, _ = G.oracle_loglik(case, base)
    except Exception as e:  # noqa: BLE001
        ck.mismatch("implementation raised", {"case": case, "error": repr(e)[:300]})
        return
    for how in MUTATIONS:
        try:
            m = mutation_route(case, how, rng)
            if m is None:
                return
            v = float(m().reshape(-1)[0])
        except Exception as e:  # noqa: BLE001
            failures.append({"case": case, "mutation": how, "oracle": want, "value": None, "error": repr(e)[:300]})
            ck.case(key=("mutation", how, case["newick"]), bucket=f"{bucket}/{how}/raised")
            continue
        ck.case(key=("mutation", how, case["newick"], tuple(case["taxa"])), bucket=f"{bucket}/{how}")
        if not (abs(v - want) <= 1e-9 * max(1.0, abs(want))):
            failures.append({"case": case, "mutation": how, "oracle": want, "value": v})
