"""C17 — a checkpoint restores the whole run state; resuming continues the same run.

Lean side : TTModel/C17_Codec.lean (value universe, ParameterEncoder/TensorEncoder + json.dump,
            TensorDecoder + json.load), TTModel/C17_Resume.lean (meaning of the state tables, torch's
            re-attachment of optimiser state, the run loop and its counter); TTGen/C17_StateKeys.lean
            REGENERATED from the AST of every state_dict/load_state_dict pair and every checkpointing
            loop; theorems in TTProofs/Props/C17.lean.
Tie       : (A) codec: random values of the universe + every real state dictionary met below, through the
            real ParameterEncoder/TensorDecoder vs the Lean `encode`/`decode`, exact;
            (B) tables: keys really written by state_dict() / really read by load_state_dict() (recording
            dictionary) on live objects vs the generated table evaluated by the driver;
            (C) restart: run -> checkpoint file -> fresh start through the REAL torchtree.torchtree.main with
            --checkpoint (in-process; a few in a fresh subprocess) -> state_dict() and parameter tensors
            compared with the snapshot taken when the file was written; labels visited by the restarted run
            vs the Lean loop model; attachment of torch optimiser state vs the Lean `attached`.
Search    : the property's own oracle on the implementation: restart never raises; state after restart
            identical to the state saved (tuples/lists, Counter/dict, deque/list identified — nothing else);
            (iteration, parameter state) sequence of the restarted run = tail of the uninterrupted run.
Harness-side wrappers (none in /repo): capture of the objects main() builds, a recorder after every
optimiser step / MCMC iteration, and the torch RNG position handed from the checkpoint to the restarted run
(the random stream is an input of a *deterministic* run, it is not part of the checkpoint).
"""
from __future__ import annotations

import collections
import contextlib
import copy
import io
import json
import math
import os
import shutil
import struct
import subprocess
import sys
import tempfile
import traceback
from pathlib import Path

from common import REPO, VERIF, Check, InfraError, use_repo

sys.path.insert(0, str(VERIF / "harness" / "translators"))
import tr_statedict  # noqa: E402

LEVEL = "proof"
PROPS = "TTProofs/Props/C17.lean"
GEN = "TTGen/C17_StateKeys.lean"

_T = {}  # lazily imported torch / torchtree handles


def T():
    if not _T:
        use_repo()
        import torch

        torch.set_num_threads(2)
        import torchtree.torchtree as tt
        from torchtree.core.parameter import Parameter
        from torchtree.core.parameter_encoder import ParameterEncoder
        from torchtree.core.utils import TensorDecoder

        _T.update(torch=torch, tt=tt, Parameter=Parameter, Enc=ParameterEncoder, Dec=TensorDecoder)
    return _T


# ============================================================================ value <-> tokens
DT = {"torch.float16": "float16", "torch.float32": "float32", "torch.float64": "float64",
      "torch.int32": "int32", "torch.int64": "int64", "torch.bool": "bool"}


def enc_str(s: str) -> str:
    return "-" if s == "" else ".".join(str(ord(c)) for c in s)


def fbits(x: float) -> str:
    if x != x:
        return "7ff8000000000000"
    return "%016x" % struct.unpack("<Q", struct.pack("<d", float(x)))[0]


class NotInUniverse(Exception):
    pass


class Pairs(list):
    """a JSON object as written (duplicate keys kept)"""


def toks(v) -> list[str]:
    """python value -> protocol tokens (tensor data = what .tolist() returns)"""
    t = T()
    torch, Parameter = t["torch"], t["Parameter"]
    if v is None:
        return ["N"]
    if v is True:
        return ["T"]
    if v is False:
        return ["F"]
    if isinstance(v, int):
        return ["I", str(v)]
    if isinstance(v, float):
        return ["D", fbits(v)]
    if isinstance(v, str):
        return ["S", enc_str(v)]
    if isinstance(v, Parameter):
        ten = v.tensor
        if str(ten.dtype) not in DT:
            raise NotInUniverse(str(ten.dtype))
        return ["P", enc_str(v.id if v.id is not None else ""), DT[str(ten.dtype)],
                "1" if isinstance(ten, torch.nn.Parameter) else "0"] + toks(ten.detach().tolist())
    if isinstance(v, torch.Tensor):
        if str(v.dtype) not in DT:
            raise NotInUniverse(str(v.dtype))
        return ["X", DT[str(v.dtype)], "1" if isinstance(v, torch.nn.Parameter) else "0"] + toks(v.detach().tolist())
    if isinstance(v, Pairs):
        out = ["M", str(len(v))]
        for k, x in v:
            out += ["KS", enc_str(k)] + toks(x)
        return out
    if isinstance(v, tuple):
        out = ["U", str(len(v))]
        for x in v:
            out += toks(x)
        return out
    if isinstance(v, (list, collections.deque)):
        out = ["L", str(len(v))]
        for x in v:
            out += toks(x)
        return out
    if isinstance(v, dict):
        out = ["M", str(len(v))]
        for k, x in v.items():
            if isinstance(k, bool) or not isinstance(k, (int, str)):
                raise NotInUniverse(f"key {k!r}")
            out += (["KI", str(k)] if isinstance(k, int) else ["KS", enc_str(k)]) + toks(x)
        return out
    raise NotInUniverse(type(v).__name__)


def from_toks(ws: list[str]):
    """inverse of toks (replays)"""
    t = T()
    torch, Parameter = t["torch"], t["Parameter"]
    rev = {v: k for k, v in DT.items()}

    def dec(s):
        return "" if s == "-" else "".join(chr(int(c)) for c in s.split("."))

    def go(i):
        w = ws[i]
        if w == "N":
            return None, i + 1
        if w in "TF":
            return w == "T", i + 1
        if w == "I":
            return int(ws[i + 1]), i + 2
        if w == "D":
            return struct.unpack("<d", struct.pack("<Q", int(ws[i + 1], 16)))[0], i + 2
        if w == "S":
            return dec(ws[i + 1]), i + 2
        if w in "LU":
            n, i, out = int(ws[i + 1]), i + 2, []
            for _ in range(n):
                x, i = go(i)
                out.append(x)
            return (out if w == "L" else tuple(out)), i
        if w == "M":
            n, i, out = int(ws[i + 1]), i + 2, {}
            for _ in range(n):
                k = int(ws[i + 1]) if ws[i] == "KI" else dec(ws[i + 1])
                x, i = go(i + 2)
                out[k] = x
            return out, i
        if w in "XP":
            off = 1 if w == "P" else 0
            dt, nn = getattr(torch, rev[ws[i + 1 + off]].split(".")[1]), ws[i + 2 + off] == "1"
            data, j = go(i + 3 + off)
            ten = torch.tensor(data, dtype=dt)
            if nn:
                ten = torch.nn.Parameter(ten, requires_grad=dt.is_floating_point)
            return (Parameter(dec(ws[i + 1]), ten) if w == "P" else ten), j
        raise ValueError(w)

    return go(0)[0]


def allowed_canon(v):
    """identify ONLY what the property lets a checkpoint identify: tuple~list, deque~list,
    Counter/OrderedDict~dict (key types are kept!)"""
    t = T()
    torch, Parameter = t["torch"], t["Parameter"]
    if isinstance(v, Parameter):
        return ("Parameter", v.id, allowed_canon(v.tensor))
    if isinstance(v, torch.Tensor):
        return ("Tensor", str(v.dtype), isinstance(v, torch.nn.Parameter), toks(v.detach().tolist()))
    if isinstance(v, (list, tuple, collections.deque)):
        return [allowed_canon(x) for x in v]
    if isinstance(v, dict):
        return {(type(k).__name__, k): allowed_canon(x) for k, x in v.items()}
    if isinstance(v, float):
        return ("f", fbits(v))
    return v


def all_diffs(a, b, path="", out=None) -> list[str]:
    out = [] if out is None else out
    if isinstance(a, dict) and isinstance(b, dict):
        if set(a) != set(b):
            out.append(f"{path}: keys {sorted(map(str, set(a) ^ set(b)))[:4]} differ")
        for k in a:
            if k in b:
                all_diffs(a[k], b[k], f"{path}[{k[1]!r}]", out)
    elif isinstance(a, list) and isinstance(b, list):
        if len(a) != len(b):
            out.append(f"{path}: length {len(a)} vs {len(b)}")
        else:
            for i, (x, y) in enumerate(zip(a, b)):
                all_diffs(x, y, f"{path}[{i}]", out)
    elif a != b or type(a) is not type(b):
        out.append(f"{path}: {str(a)[:80]} vs {str(b)[:80]}")
    return out


# ============================================================================ running the real main()
class Capture:
    """wrappers installed from the harness around what main() builds (nothing in /repo)"""

    def __init__(self):
        self.dic = None
        self.algo = None
        self.rec = []  # (label = self._epoch when the step was made, [parameter tensors])
        self.snaps = {}  # completed iterations -> snapshot at the moment the checkpoint was written
        self.rng_at_start = None
        self.workdir = None

    def on_object(self, obj, dic):
        torch = T()["torch"]
        import numpy as np

        self.dic = dic
        name = type(obj).__name__
        if name not in ("Optimizer", "MCMC", "HMC") or obj is self.algo:
            return
        self.algo = obj
        cap = self
        cap.trace = []  # step / logger / tune / save events in the order they really happen

        def record(label=None):
            cap.rec.append((obj._epoch if label is None else label, [p.tensor.detach().clone() for p in obj.parameters]))

        def wrap_loggers(rec_label):
            for lg in getattr(obj, "loggers", ()):
                if hasattr(lg, "log"):
                    inner_l = lg.log

                    def log(*a, _inner=inner_l, **k):
                        if k.get("sample", 1) != 0:  # MCMC logs the initial state as sample 0 before the loop
                            cap.trace.append("logger")
                            if rec_label:
                                record(k.get("sample"))
                        return _inner(*a, **k)

                    lg.log = log

        if name == "Optimizer":
            inner = obj.optimizer.step

            def step(*a, **k):
                r = inner(*a, **k)
                cap.trace.append("step")
                record()
                return r

            obj.optimizer.step = step
            wrap_loggers(False)
        elif name == "MCMC":
            for op in obj._operators:
                inner_t, inner_s = op.tune, op.step

                def tune(*a, _inner=inner_t, **k):
                    cap.trace.append("tune")
                    record()  # parameters after accept/reject of this iteration
                    return _inner(*a, **k)

                def ostep(*a, _inner=inner_s, **k):
                    cap.trace.append("step")
                    return _inner(*a, **k)

                op.tune, op.step = tune, ostep
            wrap_loggers(False)
        else:
            class IntegratorProxy:
                def __init__(self, inner):
                    object.__setattr__(self, "_inner", inner)

                def __call__(self, *a, **k):
                    cap.trace.append("step")
                    return self._inner(*a, **k)

                def __getattr__(self, n):
                    return getattr(self._inner, n)

                def __setattr__(self, n, v):
                    setattr(self._inner, n, v)

            obj.integrator = IntegratorProxy(obj.integrator)
            wrap_loggers(True)  # HMC has no counter attribute: the label is what it hands to its loggers

        def snapshot(fname, state):
            done = len(cap.rec)
            cap.trace.append("save")
            keep = os.path.join(cap.workdir, f"saved-{done}.json")
            shutil.copyfile(os.path.join(cap.workdir, fname), keep)
            cap.snaps[done] = {
                "state": state,
                "params": [(p.id, p.tensor.detach().clone(), isinstance(p.tensor, torch.nn.Parameter))
                           for p in obj.parameters],
                "rng": (torch.get_rng_state(), np.random.get_state()),
                "file": keep,
                "trace": list(cap.trace),
            }

        if name == "HMC":
            import torchtree.inference.hmc.hmc as hmod

            if not hasattr(hmod, "_c17_orig_save"):
                hmod._c17_orig_save = hmod.save_parameters

            def save_params(fname, params, *a, **k):
                r = hmod._c17_orig_save(fname, params, *a, **k)
                c = _CUR["cap"]
                if c is cap:
                    snapshot(fname, {})
                return r

            hmod.save_parameters = save_params
        else:
            inner_save = obj.save_full_state

            def save(*a, **k):
                r = inner_save(*a, **k)
                fname = a[0] if a else k.get("checkpoint", getattr(obj, "checkpoint", None))
                snapshot(fname, copy.deepcopy(obj.state_dict()))
                return r

            obj.save_full_state = save
        inner_run = obj.run

        def run():
            if cap.rng_at_start is not None:
                torch.set_rng_state(cap.rng_at_start[0])
                np.random.set_state(cap.rng_at_start[1])
            else:
                np.random.seed(int(torch.initial_seed()) % (2 ** 32))
            return inner_run()

        obj.run = run


_CUR = {"cap": None}


def install_capture():
    tt = T()["tt"]
    if getattr(tt, "_c17_wrapped", False):
        return
    orig = tt.process_objects

    def cap(element, dic):
        obj = orig(element, dic)
        c = _CUR["cap"]
        if c is not None:
            for o in (obj if isinstance(obj, list) else [obj]):
                c.on_object(o, dic)
        return obj

    tt.process_objects = cap
    tt._c17_wrapped = True


def run_main(spec, args, workdir, rng=None, cap_cls=None):
    """the real torchtree.torchtree.main(), in-process. -> (Capture, error or None)"""
    torch, tt = T()["torch"], T()["tt"]
    install_capture()
    os.makedirs(workdir, exist_ok=True)
    with open(os.path.join(workdir, "spec.json"), "w") as f:
        json.dump(spec, f)
    cap = (cap_cls or Capture)()
    cap.workdir = workdir
    cap.rng_at_start = rng
    _CUR["cap"] = cap
    old_cwd, old_argv = os.getcwd(), sys.argv
    os.chdir(workdir)
    sys.argv = ["torchtree", "spec.json"] + list(args)
    err = None
    out = io.StringIO()
    try:
        with contextlib.redirect_stdout(out), contextlib.redirect_stderr(out):
            tt.main()
    except BaseException as e:  # the implementation raised (SystemExit included)
        if isinstance(e, KeyboardInterrupt):
            raise
        tb = traceback.extract_tb(e.__traceback__)
        where = next((f"{Path(fr.filename).name}:{fr.name}" for fr in reversed(tb) if "torchtree" in fr.filename
                      and "harness" not in fr.filename), "?")
        err = {"type": type(e).__name__, "msg": str(e)[:200], "where": where,
               "in_checkpoint_write": any(fr.name in ("save_full_state", "save_parameters") and "harness" not in fr.filename
                                          for fr in tb)}
    finally:
        os.chdir(old_cwd)
        sys.argv = old_argv
        _CUR["cap"] = None
        torch.set_default_dtype(torch.float32)
    return cap, err


# ============================================================================ specifications
def normal(id_, x, loc, scale):
    return {"id": id_, "type": "Distribution", "distribution": "torch.distributions.Normal", "x": x,
            "parameters": {"loc": {"id": id_ + ".loc", "type": "Parameter", "tensor": [loc]},
                           "scale": {"id": id_ + ".scale", "type": "Parameter", "tensor": [scale]}}}


def param(id_, values, nn=False, dtype=None):
    p = {"id": id_, "type": "Parameter", "tensor": values}
    if nn:
        p["nn"] = True
    if dtype:
        p["dtype"] = dtype
    return p


def declared(form, id_, shape_like, value, dtype=None):
    """a Parameter of the given constant value declared through one of the forms Parameter.from_json offers;
    `shape_like` = (n, id of an earlier parameter with n entries, inline?)"""
    n, ref, inline = shape_like
    other = {"id": id_ + ".shape", "type": "Parameter", "tensor": [0.0] * n} if inline else ref
    p = {"id": id_, "type": "Parameter"}
    if form == "full":
        p.update(full=[n], tensor=value)
    elif form == "full-int":
        p.update(full=n, tensor=value)
    elif form == "full_like":
        p.update(full_like=other, tensor=value)
    elif form == "zeros":
        p.update(zeros=n)
    elif form == "zeros_like":
        p.update(zeros_like=other)
    elif form == "ones":
        p.update(ones=[n])
    elif form == "ones_like":
        p.update(ones_like=other)
    elif form == "dimension":
        p.update(tensor=[value], dimension=n)
    else:
        raise InfraError("unknown form " + form)
    if dtype:
        p["dtype"] = dtype
    return p


FORMS = {
    # x (3 entries, any real), y (2, positive), z (3, simplex), h (2, any real), mass matrix
    "A": {"x": ("full", 0.75, False), "y": ("ones_like", 1.0, False), "z": ("full_like", 1 / 3, False), "h": ("zeros_like", 0.0, False), "mm": "ones"},
    "B": {"x": ("zeros", 0.0, False), "y": ("full-int", 1.5, False), "z": ("dimension", 1 / 3, False), "h": ("full_like", 0.3, True), "mm": "eye_like"},
    "C": {"x": ("zeros_like", 0.0, True), "y": ("ones", 1.0, False), "z": ("full", 1 / 3, False), "h": ("full", -0.4, False), "mm": "eye"},
}


SCHEDULERS = {
    "none": None,
    "StepLR": {"step_size": 2, "gamma": 0.5},
    "MultiStepLR": {"milestones": [2, 4], "gamma": 0.5},
    "ExponentialLR": {"gamma": 0.75},
    "LambdaLR": {"lr_lambda": "lambda epoch: 0.5 ** epoch"},
    "MultiplicativeLR": {"lr_lambda": "lambda epoch: 0.75"},
    "CosineAnnealingLR": {"T_max": 4},
    "CosineAnnealingWarmRestarts": {"T_0": 3},
    "LinearLR": {"start_factor": 0.5, "total_iters": 4},
    "ConstantLR": {"factor": 0.5, "total_iters": 3},
    "PolynomialLR": {"total_iters": 5, "power": 2.0},
    "CyclicLR": {"base_lr": 0.01, "max_lr": 0.1, "step_size_up": 2, "cycle_momentum": False},
    "OneCycleLR": {"max_lr": 0.1, "total_steps": 20, "cycle_momentum": False},
    "ReduceLROnPlateau": {},
}


def optimisers():
    torch = T()["torch"]
    return sorted(n for n in dir(torch.optim)
                  if isinstance(getattr(torch.optim, n), type) and issubclass(getattr(torch.optim, n), torch.optim.Optimizer)
                  and n != "Optimizer")


def spec_opt(algo, sched, iters, freq, nn, two_d, explicit_dtype, forms=None):
    x = [[1.0, 2.0, -0.5], [0.25, -1.5, 3.0]] if two_d else [1.0, 2.0, -0.5]
    if forms and not two_d:
        px = declared("full", "x", (3, None, False), 1.5, explicit_dtype)
        pw = declared({"A": "zeros_like", "B": "ones", "C": "full_like"}[forms], "w", (3, "x", forms == "C"), 0.25, explicit_dtype)
        for p_ in (px, pw):
            if nn:
                p_["nn"] = True
    else:
        px = param("x", x, nn, explicit_dtype)
        pw = param("w", [0.5, -0.25], nn, explicit_dtype) if not two_d else param("w", [[0.5, -0.25], [1.0, 2.0]], nn, explicit_dtype)
    s = [
        px,
        pw,
        {"id": "loss", "type": "JointDistributionModel", "distributions": [normal("d1", "x", 0.5, 2.0), normal("d2", "w", -1.0, 0.5)]},
        {"id": "opt", "type": "Optimizer", "algorithm": "torch.optim." + algo, "loss": "loss", "parameters": ["x", "w"],
         "iterations": iters, "checkpoint": "ck.json", "checkpoint_frequency": freq, "checkpoint_all": True, "options": {}},
    ]
    if algo == "SGD":
        s[3]["options"] = {"momentum": 0.5}
    if sched != "none":
        s[3]["scheduler"] = dict({"id": "sch", "type": "Scheduler", "scheduler": "torch.optim.lr_scheduler." + sched},
                                 **SCHEDULERS[sched])
    return s


def spec_opt_preprocessed(spelling, algo, sched, iters, freq, ignored_duplicate=False):
    """a configuration that only becomes the object list after main()'s PRE-PROCESSING: the optimised parameters are declared inside
    a torchtree.Plate (template ids `x.*` or `x.${i}`, replicated over a range), next to comment keys (`_note`), an ignored
    object and an ignored duplicate of a live parameter id. The checkpoint speaks about the FINAL ids (x.0, x.1, …)."""
    star = spelling == "star"
    tid = (lambda n: f"{n}.*") if star else (lambda n: f"{n}.${{i}}")
    plate = {"type": "torchtree.Plate", "range": "0:3", "_note": "three independent normals",
             "object": {"id": tid("normal"), "type": "Distribution", "distribution": "torch.distributions.Normal",
                        "x": {"id": tid("x"), "type": "Parameter", "tensor": [3.0, -2.0], "_was": [0.0, 0.0]},
                        "parameters": {"loc": {"id": tid("loc"), "type": "Parameter", "tensor": [0.5, 1.5]},
                                       "scale": {"id": tid("scale"), "type": "Parameter", "tensor": [1.0, 2.0]}}}}
    if not star:
        plate["var"] = "i"
    s = [
        # switched off: must not be built, nor restored into (an ignored duplicate of a live id, or just an ignored object)
        {"id": "x.0" if ignored_duplicate else "unused", "type": "Parameter", "tensor": [9.0, 9.0], "ignore": True},
        param("w", [0.5, -0.25]),
        {"id": "joint", "type": "JointDistributionModel", "_comment": "plate + one plain parameter",
         "distributions": [plate, normal("dw", "w", -1.0, 0.5)]},
        {"id": "opt", "type": "Optimizer", "algorithm": "torch.optim." + algo, "loss": "joint", "maximize": True,
         "parameters": ["x.0", "x.1", "x.2", "w"], "iterations": iters, "checkpoint": "ck.json", "checkpoint_frequency": freq,
         "checkpoint_all": True, "options": {"lr": 0.1}},
    ]
    if sched != "none":
        s[3]["scheduler"] = dict({"id": "sch", "type": "Scheduler", "scheduler": "torch.optim.lr_scheduler." + sched}, **SCHEDULERS[sched])
    return s


OPERATORS = ("sliding", "scaler", "dirichlet", "gmrf", "hmc")
ADAPTORS = {
    "none": [],
    "ass": ["ass"],
    "ass-rate": ["ass-rate"],
    "dass": ["dass"],
    "mma": ["mma"],
    "mma-dense": ["mma-dense"],
    "mma+dass": ["mma", "dass"],
    "mma+ass": ["mma", "ass"],
    "mma-window+dass": ["mma-window", "dass"],
    "mma-window": ["mma-window"],
    "mma-swap": ["mma-swap:5"],
    "mma-swap25": ["mma-swap:25"],
}


def adaptor(kind):
    """`kind@start=3,end=10`: the adaptor with the options that give it PHASES (adapt only inside [start, end], every-k updates, …)"""
    if "@" in kind:
        kind, _, opts = kind.partition("@")
        a = adaptor(kind)
        for kv in opts.split(","):
            k_, _, v_ = kv.partition("=")
            a[k_] = int(v_)
        return a
    if kind.startswith("ass"):
        a = {"id": "ad.ss", "type": "AdaptiveStepSize", "integrator": "leap"}
        if kind == "ass-rate":
            a["use_acceptance_rate"] = True
        return a
    if kind == "dass":
        return {"id": "ad.ss", "type": "DualAveragingStepSize", "integrator": "leap"}
    a = {"id": "ad.mm", "type": "MassMatrixAdaptor", "mass_matrix": "mm", "parameters": ["h"], "update_frequency": 2}
    if kind == "mma-window":
        a["variance_window"] = 1
    if kind.startswith("mma-swap"):
        a["swap_every"] = int(kind.split(":")[1]) if ":" in kind else 3
    return a


def spec_mcmc(ops, adaptors, iters, freq, forms=None, pdtype=None, inline=None, hmc_options=None, hmc_target=None):
    from torchtree.evolution.tree_model import TimeTreeModel

    if forms:
        F = FORMS[forms]
        s = []
        order = {"A": ["x", "y", "z", "h"], "B": ["x", "y", "z", "h"], "C": ["x", "y", "z", "h"]}[forms]
        like = {"x": (3, None), "y": (2, "h0"), "z": (3, "x"), "h": (2, "y")}
        s.append({"id": "h0", "type": "Parameter", "tensor": [0.0, 0.0]})
        for nm in order:
            form, value, inline = F[nm]
            n, ref = like[nm]
            s.append(declared(form, nm, (n, ref or "z", inline), value, pdtype))
    else:
        s = [param("x", [1.0, 2.0, -0.5], dtype=pdtype), param("y", [1.0, 2.0], dtype=pdtype), param("z", [0.2, 0.3, 0.5], dtype=pdtype),
             param("h", [0.3, -0.4], dtype=pdtype)]
    if inline == "unsaved":
        # y (sampled) is defined inline inside q, a parameter nothing samples and no checkpoint lists
        y = next(p_ for p_ in s if p_["id"] == "y")
        s.remove(y)
        s.insert(0, {"id": "q", "type": "Parameter", "zeros_like": y})
    elif inline == "saved":
        # y (sampled) is defined inline inside x, which is sampled — and therefore replaced on restart — too
        y = next(p_ for p_ in s if p_["id"] == "y")
        x = next(p_ for p_ in s if p_["id"] == "x")
        s.remove(y)
        y["tensor"] = [1.0, 2.0, 1.5]
        x.pop("tensor")
        x.update(full_like=y, tensor=0.5)
    dists = [normal("dx", "x", 0.5, 2.0),
             {"id": "dy", "type": "Distribution", "distribution": "torch.distributions.LogNormal", "x": "y",
              "parameters": {"loc": param("dy.loc", [0.1]), "scale": param("dy.scale", [1.0])}},
             {"id": "dz", "type": "Distribution", "distribution": "torch.distributions.Dirichlet", "x": "z",
              "parameters": {"concentration": param("dz.c", [2.0, 3.0, 4.0])}},
             normal("dh", "h", 0.0, 1.0)]
    logged = ["x", "y", "z", "h"]
    if "gmrf" in ops:
        s.append(TimeTreeModel.json_factory("tree", "((A:1,B:1):1,(C:1.5,D:1.5):0.5);", [1.0, 1.5, 2.0],
                                            {"A": 0.0, "B": 0.0, "C": 0.0, "D": 0.0}, internal_heights_id="tree.heights"))
        s.append({"id": "gmrf", "type": "GMRF", "x": param("field", [1.0, 1.2, 0.8, 1.1]), "precision": param("prec", [2.0])})
        s.append({"id": "coal", "type": "PiecewiseConstantCoalescentGridModel",
                  "theta": {"id": "theta", "type": "TransformedParameter", "transform": "torch.distributions.ExpTransform", "x": "field"},
                  "tree_model": "tree", "cutoff": 3.0})
        dists += ["coal", "gmrf",
                  {"id": "dprec", "type": "Distribution", "distribution": "torch.distributions.Gamma", "x": "prec",
                   "parameters": {"concentration": param("dp.c", [1.0]), "rate": param("dp.r", [1.0])}}]
        logged += ["field", "prec"]
    s.append({"id": "joint", "type": "JointDistributionModel", "distributions": dists})
    mk = {
        "sliding": {"id": "op.x", "type": "SlidingWindowOperator", "parameters": ["x"], "width": 0.5, "weight": 1.0, "acceptance_window_length": 3},
        "scaler": {"id": "op.y", "type": "ScalerOperator", "parameters": ["y"], "scaler": 0.5, "weight": 1.0, "acceptance_window_length": 3},
        "dirichlet": {"id": "op.z", "type": "DirichletOperator", "parameters": ["z"], "scaler": 50.0, "weight": 1.0, "acceptance_window_length": 3},
        "gmrf": {"id": "op.g", "type": "GMRFPiecewiseCoalescentBlockUpdatingOperator", "coalescent": "coal", "gmrf": "gmrf", "weight": 1.0},
        "hmc": {"id": "op.h", "type": "HMCOperator", "joint": "joint", "parameters": ["h"], "weight": 2.0,
                "integrator": {"id": "leap", "type": "LeapfrogIntegrator", "steps": 3, "step_size": 0.1},
                "mass_matrix": ({"id": "mm", "type": "Parameter", "eye": 2} if "mma-dense" in adaptors and not forms
                                else {"id": "mm", "type": "Parameter", "eye_like": "h"} if "mma-dense" in adaptors and FORMS[forms]["mm"] == "eye_like"
                                else {"id": "mm", "type": "Parameter", "eye": [2, 2]} if "mma-dense" in adaptors
                                else {"id": "mm", "type": "Parameter", "ones": 2} if forms and FORMS[forms]["mm"] == "ones"
                                else {"id": "mm", "type": "Parameter", "ones_like": "h"}),
                "adaptors": [adaptor("mma" if a == "mma-dense" else a) for a in adaptors]},
    }
    mk["hmc"].update(hmc_options or {})
    if hmc_target == "gumbel-tail":
        # a target whose curvature depends strongly on the position (left tail of a Gumbel): whatever the operator derives from
        # the current position when it is BUILT (initial step-size search, anything tied to it) differs between the start of
        # the run and the position of a checkpoint
        next(p_ for p_ in s if isinstance(p_, dict) and p_.get("id") == "h")["tensor"] = [-3.0, -3.5]
        jd = next(p_ for p_ in s if isinstance(p_, dict) and p_.get("id") == "joint")["distributions"]
        jd[[d_.get("id") if isinstance(d_, dict) else d_ for d_ in jd].index("dh")] = {
            "id": "dh", "type": "Distribution", "distribution": "torch.distributions.Gumbel", "x": "h",
            "parameters": {"loc": param("dh.loc", [0.0, 0.0]), "scale": param("dh.scale", [1.0, 1.0])}}
        mk["hmc"]["integrator"]["step_size"] = 0.5
    s.append({"id": "mcmc", "type": "MCMC", "joint": "joint", "iterations": iters, "checkpoint": "ck.json",
              "checkpoint_frequency": freq, "every": 0, "operators": [mk[o] for o in ops],
              "loggers": [{"id": "log", "type": "Logger", "parameters": logged, "file_name": "log.csv"}]})
    return s


def spec_hmc(iters, freq, dense=False):
    """the standalone HMC runnable (torchtree/inference/hmc/hmc.py): parameters-only checkpoints"""
    return [param("h", [0.3, -0.4]),
            {"id": "joint", "type": "JointDistributionModel", "distributions": [normal("dh", "h", 0.0, 1.0)]},
            {"id": "hmc", "type": "HMC", "joint": "joint", "parameters": ["h"], "iterations": iters, "checkpoint": "ck.json",
             "checkpoint_frequency": freq, "every": 100000,
             "integrator": {"id": "leap", "type": "LeapfrogIntegrator", "steps": 3, "step_size": 0.1},
             "loggers": [{"id": "log", "type": "Logger", "parameters": ["h"], "file_name": "log.csv"}]}]


# ============================================================================ oracles on one configuration
def params_canon(params):
    return [(i, str(t.dtype), nn, toks(t.tolist())) for i, t, nn in params]


def cond_holds(obj, cond: str) -> bool:
    """evaluate a normalised condition of the generated table on a live object"""
    kind, _, path = cond.partition(":")
    cur = obj
    for part in path.split(".")[1:]:
        cur = getattr(cur, part)
    if kind == "notNone":
        return cur is not None
    if kind == "nonempty":
        return len(cur) > 0
    if kind == "hasSD":
        return hasattr(cur, "state_dict") and hasattr(cur, "load_state_dict")
    raise InfraError("unknown condition " + cond)


class Recording(dict):
    def __init__(self, *a, **k):
        super().__init__(*a, **k)
        self.read = []

    def __getitem__(self, k):
        if k not in self.read:
            self.read.append(k)
        return super().__getitem__(k)


def walk_state_objects(algo):
    """(object, its state dict) for the algorithm and everything below it that has the pair"""
    name = type(algo).__name__
    if name == "HMC":
        return []  # no state_dict / load_state_dict at all (see the loop row HMC.run)
    out = [algo]
    if name == "Optimizer":
        if algo.scheduler is not None:
            out.append(algo.scheduler)
    else:
        for op in algo._operators:
            out.append(op)
            if hasattr(op, "_integrator"):
                out.append(op._integrator)
            for a in getattr(op, "_adaptors", []):
                out.append(a)
    return out


class Runner:
    def __init__(self, ck: Check, drv, table, root: Path):
        self.ck, self.drv, self.table, self.root = ck, drv, table, root
        self.fail = []  # oracle failures on the implementation: (sig, what, replay)
        self.n = 0
        self.table_conds = {c["name"]: c for c in table["classes"]}
        self.checked_classes = set()
        self.skipped = collections.Counter()
        self.twice_done = {}

    def wd(self):
        self.n += 1
        d = self.root / f"r{self.n}"
        d.mkdir(parents=True)
        return str(d)

    # ---------------------------------------------------------------- (B) tables on live objects
    def check_tables(self, algo, cfg):
        for obj in walk_state_objects(algo):
            name = type(obj).__name__
            ent = self.table_conds.get(name)
            if ent is None:
                self.ck.mismatch("object with a state_dict is not in the generated table", {"class": name})
                continue
            if ent["written"][0] == "delegate":
                self.checked_classes.add(name)
                continue
            conds = sorted({c for _k, _a, cs, *_ in list(ent["written"][1]) + list(ent["read"][1]) for c in cs.split("&") if c})
            holding = [c for c in conds if cond_holds(obj, c)]
            rep = self.drv.ask("keys " + name + "".join(" " + c for c in holding)) if self.drv else None
            try:
                sd = obj.state_dict()
            except Exception as e:
                self.fail.append((f"state_dict-raises:{name}:{type(e).__name__}", f"{name}.state_dict() raises {e!r}", {"config": cfg}))
                continue
            rec = Recording(copy.deepcopy(sd))
            pristine = allowed_canon(copy.deepcopy(sd))
            read_err = None
            try:
                obj.load_state_dict(rec)  # loading one's own state is the identity when the pair is sound
            except Exception as e:
                read_err = f"{type(e).__name__}:{e}"
            if read_err is None:
                # input immutability: load_state_dict must not write into the dictionary it was handed, and the
                # object must report the same state afterwards (state_dict is a pure read)
                try:
                    if allowed_canon(dict(rec)) != pristine:
                        d = (all_diffs(pristine, allowed_canon(dict(rec))) or ["?"])[0]
                        self.fail.append((f"load_state_dict-mutates-input:{name}", f"{name}.load_state_dict wrote into the dictionary it was given: {d}",
                                          {"kind": type(algo).__name__, "config": cfg}))
                    again = allowed_canon(obj.state_dict())
                    if again != pristine:
                        d = (all_diffs(pristine, again) or ["?"])[0]
                        self.fail.append((f"state-not-idempotent:{name}", f"{name}: state_dict() after loading its own state differs: {d}",
                                          {"kind": type(algo).__name__, "config": cfg}))
                except NotInUniverse:
                    pass
            key = (name, tuple(holding))
            if key not in self.checked_classes:
                self.checked_classes.add(key)
                self.ck.case(("table", name, tuple(holding)), bucket="table/" + name,
                             sample={"class": name, "conditions": holding, "written": list(sd), "read": rec.read})
            if rep is not None and rep != "bad-op":
                w = rep.split(" ")[1].split(",") if rep.split(" ")[1] else []
                parts = rep.split(" R ")
                r = parts[1].split(",") if len(parts) > 1 and parts[1] else []
                if w != list(sd):
                    self.ck.mismatch("keys written differ from the generated table", {"class": name, "impl": list(sd), "table": w})
                if read_err is None and sorted(r) != sorted(rec.read):
                    self.ck.mismatch("keys read differ from the generated table", {"class": name, "impl": rec.read, "table": r})

    # ---------------------------------------------------------------- (A') real state through the Lean codec
    def check_codec_on_state(self, state, dflt):
        if not self.drv:
            return
        t = T()
        try:
            tk = toks(state)
        except NotInUniverse as e:
            self.skipped["state outside the modelled universe: " + str(e)] += 1
            return
        text = json.dumps(state, cls=t["Enc"])
        try:
            back = toks(json.loads(text, cls=t["Dec"]))
            impl = "ok " + " ".join(back)
        except NotInUniverse:
            return
        except Exception:
            impl = "raise"
        model = self.drv.ask(f"codec {dflt} " + " ".join(tk))
        self.ck.case(None, nontrivial=False, bucket="codec/real-state")
        if model != impl:
            self.ck.mismatch("real state dictionary: decode(encode) differs from the Lean codec",
                             {"impl": impl[:300], "model": model[:300]})

    # ---------------------------------------------------------------- (C) one configuration end to end
    def config(self, kind, cfg, spec_fn, args, points="some"):
        ck = self.ck
        torch = T()["torch"]
        dflt = "float32" if "float32" in args else "float64"
        full, err = run_main(spec_fn(), args, self.wd())
        if err is not None or full.algo is None or not full.rec:
            if err and _is_checkpoint_write_error(err):
                self.fail.append((f"checkpoint-write-raises:{err['where']}:{err['type']}",
                                  f"writing the checkpoint raises {err['type']}: {err['msg']}", {"kind": kind, "config": cfg, "error": err}))
                return
            # the UNINTERRUPTED run does not work for a reason of its own: not a statement about checkpoints
            self.skipped[f"{_cfg_tag(cfg)}: uninterrupted run raises {err['type'] if err else 'nothing, no step made'}"
                         + (f" at {err['where']}" if err else "")] += 1
            ck.bucket("not-runnable")
            return
        self.check_tables(full.algo, cfg)
        n_iter = len(full.rec)
        ks = sorted(full.snaps)
        if cfg.get("at"):
            ks = [k for k in ks if k in cfg["at"]]  # interruption points placed around the phase boundaries of the configuration
        elif points == "some" and len(ks) > 2:
            ks = sorted(ck.rng.sample(ks[:-1], 1) + [ks[-1]])
        loop = {"Optimizer": "Optimizer._run_closure" if cfg.get("algo") == "LBFGS" else "Optimizer._run", "MCMC": "MCMC.run",
                "HMC": "HMC.run"}[kind]
        for k in ks:
            snap = full.snaps[k]
            key = (kind, json.dumps(cfg, sort_keys=True), k)
            self.check_codec_on_state(snap["state"], dflt)
            # ---- restart, parse only: state after the restart
            w = self.wd()
            shutil.copyfile(snap["file"], os.path.join(w, "ck.json"))
            dry, err = run_main(spec_fn(), args + ["--checkpoint", "ck.json", "--dry"], w)
            replay = {"kind": kind, "config": cfg, "args": args, "interrupt_after": k}
            ck.case(key, bucket=f"restart/{kind}",
                    sample={"config": cfg, "interrupt_after": k, "of": n_iter, "restart_error": err})
            if err is not None:
                self.fail.append((f"restart-raises:{err['where']}:{err['type']}:{err['msg'][:40]}",
                                  f"restart from the checkpoint written after iteration {k} raises {err['type']}: {err['msg']}",
                                  dict(replay, error=err)))
                continue
            if dry.algo is None:
                self.fail.append((f"restart-builds-nothing:{kind}", f"{_cfg_tag(cfg)}: restart from the checkpoint written after iteration {k}: main() returns "
                                  "normally but has not built the algorithm (it logs a JSONParseError and goes on)", replay))
                continue
            try:
                after = dry.algo.state_dict() if kind != "HMC" else {}
            except Exception as e:
                self.fail.append((f"state_dict-raises:{kind}:{type(e).__name__}", f"state_dict() after restart raises {e!r}", replay))
                continue
            for d in all_diffs(allowed_canon(snap["state"]), allowed_canon(after)):
                cls = _diff_class(d)
                self.fail.append((f"state-differs:{kind}:{cls}",
                                  f"state after restart differs from the state saved (interrupt after {k}): {d}",
                                  dict(replay, diff=d)))
            pa = [(p.id, p.tensor.detach().clone(), isinstance(p.tensor, torch.nn.Parameter)) for p in dry.algo.parameters]
            if params_canon(pa) != params_canon(snap["params"]):
                self.fail.append((f"parameters-differ:{kind}", f"parameter tensors after restart differ (interrupt after {k})",
                                  dict(replay, saved=str(params_canon(snap['params']))[:300], restored=str(params_canon(pa))[:300])))
            if kind == "Optimizer":
                self.check_attached(dry.algo, snap, replay, dflt)
            # ---- restart and run on: the trajectory
            w = self.wd()
            shutil.copyfile(snap["file"], os.path.join(w, "ck.json"))
            res, err = run_main(spec_fn(), args + ["--checkpoint", "ck.json"], w, rng=snap["rng"])
            if err is not None:
                self.fail.append((f"resume-raises:{err['where']}:{err['type']}",
                                  f"run resumed after iteration {k} raises {err['type']}: {err['msg']}", dict(replay, error=err)))
                continue
            want = full.rec[k:]
            got = res.rec
            labels_w, labels_g = [l for l, _ in want], [l for l, _ in got]
            if self.drv:
                rep = self.drv.ask(f"loop {loop} {n_iter} {k}")
                lab = rep.split("labels ")[1].split(" order")[0].strip() if "labels " in rep else ""
                model_labels = [int(x) for x in lab.split(",")] if lab else []
                order = rep.split(" order ")[1].split(" ")[0].split(",") if " order " in rep else []
                seen_kinds = set(snap.get("trace", []))
                want_order = [e for e in order if e in seen_kinds]
                tr = snap.get("trace", [])
                last_step = max((i for i, e in enumerate(tr) if e == "step"), default=0)
                got_order = list(dict.fromkeys(tr[last_step:]))
                if got_order != [e for e in want_order if e in got_order] or set(got_order) != set(e for e in want_order):
                    ck.mismatch("order of step/logger/tune/save observed in the run differs from the generated loop row",
                                {"loop": loop, "observed": got_order, "table": order})
                if kind != "HMC":
                    m_counter = int(rep.split("counter ")[1].split(" ")[0])
                    if snap["state"].get("iteration") != m_counter:
                        ck.mismatch("'iteration' in the checkpoint differs from the Lean savedCounter",
                                    {"loop": loop, "k": k, "impl": snap["state"].get("iteration"), "model": m_counter})
                if rep == "bad-op" or model_labels != labels_g:
                    ck.mismatch("labels visited by the restarted run differ from the Lean loop model",
                                {"loop": loop, "iterations": n_iter, "k": k, "impl": labels_g, "model": rep})
            if labels_w != labels_g:
                self.fail.append((f"resume-differs:{loop}:labels",
                                  f"{loop}: run resumed after iteration {k} of {n_iter} visits iterations {labels_g}, "
                                  f"the uninterrupted run visits {labels_w}", dict(replay, resumed=labels_g, uninterrupted=labels_w)))
            # the sequence of parameter states, whatever the labels say
            m = min(len(want), len(got))
            if not _same_states(want[:m], got[:m]):
                i = next(i for i, (a, b) in enumerate(zip(want, got)) if not _same_states([a], [b]))
                tag = kind if kind in ("Optimizer", "HMC") else "MCMC:" + _cfg_tag(cfg)
                self.fail.append((f"resume-differs:{tag}:states",
                                  f"{_cfg_tag(cfg)}: run resumed after iteration {k} leaves the uninterrupted trajectory "
                                  f"{i + 1} step(s) after the restart", dict(replay, steps_after_restart=i + 1)))
                continue
            # ---- restarting twice in a row: the resumed run is interrupted again at its own next checkpoint
            # (the resumed run counts its own steps: its snapshot j is the uninterrupted run's snapshot k + j)
            later = sorted(j for j in res.snaps if k + j in full.snaps and k + j < n_iter)
            if kind != "HMC" and later and (cfg.get("twice") or k == ks[0]) and not self.twice_done.get(key[:2], False):
                self.twice_done[key[:2]] = True
                k2 = k + later[0]
                snap2 = res.snaps[later[0]]
                ck.case((kind, json.dumps(cfg, sort_keys=True), k, k2), bucket=f"restart-twice/{kind}")
                rp2 = dict(replay, second_interrupt_after=k2)
                for d in all_diffs(allowed_canon(full.snaps[k2]["state"]), allowed_canon(snap2["state"])):
                    self.fail.append((f"second-checkpoint-differs:{kind}:{_diff_class(d)}",
                                      f"{_cfg_tag(cfg)}: the checkpoint written at iteration {k2} by the run resumed after {k} differs from the "
                                      f"uninterrupted run's checkpoint of iteration {k2}: {d}", dict(rp2, diff=d)))
                w = self.wd()
                shutil.copyfile(snap2["file"], os.path.join(w, "ck.json"))
                res2, err = run_main(spec_fn(), args + ["--checkpoint", "ck.json"], w, rng=snap2["rng"])
                if err is not None:
                    self.fail.append((f"resume-raises:{err['where']}:{err['type']}",
                                      f"second restart (after {k}, then after {k2}) raises {err['type']}: {err['msg']}", dict(rp2, error=err)))
                    continue
                want2, got2 = full.rec[k2:], res2.rec
                if [l for l, _ in want2] != [l for l, _ in got2]:
                    self.fail.append((f"resume-differs:{loop}:labels", f"{loop}: restarted after {k} and again after {k2} of {n_iter}: visits "
                                      f"{[l for l, _ in got2]}, the uninterrupted run {[l for l, _ in want2]}", rp2))
                elif not _same_states(want2, got2):
                    i = next(i for i, (a, b) in enumerate(zip(want2, got2)) if not _same_states([a], [b]))
                    tag = kind if kind in ("Optimizer", "HMC") else "MCMC:" + _cfg_tag(cfg)
                    self.fail.append((f"resume-differs:{tag}:states:second-restart",
                                      f"{_cfg_tag(cfg)}: restarted after iteration {k} and again after {k2}: leaves the uninterrupted trajectory "
                                      f"{i + 1} step(s) after the second restart", dict(rp2, steps_after_restart=i + 1)))

    def check_attached(self, algo, snap, replay, dflt):
        """torch optimiser: does every parameter find the state that was saved for it?"""
        saved = snap["state"]["optimizer"]["state"]
        opt = algo.optimizer
        ps = [p for g in opt.param_groups for p in g["params"]]
        impl = [int(bool(opt.state.get(p))) for p in ps]
        want = [int(bool(saved.get(i))) for i in range(len(ps))]
        if self.drv:
            # model: the dictionary as it comes back from the file, integer keys restored iff the generated
            # table shows the code doing so
            ent = self.table_conds.get("Optimizer")
            via = next((e[3] for e in ent["read"][1] if e[0] == "optimizer"), "") if ent else ""
            try:
                tk = toks(saved)
                back = self.drv.ask(f"codec {dflt} " + " ".join(tk))
                if back.startswith("ok "):
                    d = back[3:]
                    if "restore_int_keys" in via.split(","):
                        d = self.drv.ask("intkeys " + d)
                    model = [int(self.drv.ask(f"attached {d} {i}")) for i in range(len(ps))]
                    model = [m and w for m, w in zip(model, want)]
                    if model != impl:
                        self.ck.mismatch("attachment of optimiser state differs from the Lean model",
                                         {"impl": impl, "model": model, "config": replay["config"]})
            except NotInUniverse:
                pass
        if impl != want:
            self.fail.append(("state-differs:Optimizer:optimizer-state-detached",
                              "after restart the torch optimiser holds no state for its parameters: the saved moments / step "
                              f"counts are filed under string keys (attached {impl}, saved {want})", replay))


def _is_checkpoint_write_error(err):
    return bool(err.get("in_checkpoint_write"))


def _cfg_tag(cfg):
    if "ops" not in cfg and "algo" not in cfg:
        return "HMC"
    tag = cfg.get("algo") or ("+".join(cfg.get("ops", [])) + "/" + cfg.get("adaptors", ""))
    if cfg.get("preprocessed"):
        tag += f"[parameters inside a Plate ({'x.*' if cfg['preprocessed'] == 'star' else 'x.${i}'}), comments, ignored objects]"
    if cfg.get("forms"):
        tag += f"[declared:{cfg['forms']}]"
    if cfg.get("hmc_target"):
        tag += f"[{cfg['hmc_target']}]"
    if cfg.get("inline"):
        tag += f"[y defined inline inside a parameter that is {'not ' if cfg['inline'] == 'unsaved' else ''}in the checkpoint]"
    if cfg.get("pdtype"):
        tag += f"[{cfg['pdtype']} parameters, default {cfg.get('dtype')}]"
    return tag


def _diff_class(d: str) -> str:
    """['optimizer']['state'][0]['exp_avg']: ... -> optimizer/state (the first two named levels)"""
    import re

    names = re.findall(r"\['([^']+)'\]", d.split(": ")[0])
    return "/".join(names[:2]) or "top"


def _same_states(a, b):
    if len(a) != len(b):
        return False
    for (_la, pa), (_lb, pb) in zip(a, b):
        if len(pa) != len(pb):
            return False
        for x, y in zip(pa, pb):
            if x.dtype != y.dtype or x.shape != y.shape or toks(x.tolist()) != toks(y.tolist()):
                return False
    return True


# ============================================================================ (A) codec on generated values
def gen_value(rng, depth):
    t = T()
    torch, Parameter = t["torch"], t["Parameter"]
    specials = [0.0, -0.0, 1.0, -2.5, 1e-310, 1e308, float("inf"), float("-inf"), float("nan"), 0.1, 3.0, 2.0 ** -20]

    def scalar():
        c = rng.randrange(6)
        if c == 0:
            return None
        if c == 1:
            return rng.random() < 0.5
        if c == 2:
            return rng.choice([0, 1, -1, 7, 2 ** 40, -(2 ** 53) - 1])
        if c == 3:
            return rng.choice(specials)
        if c == 4:
            return rng.choice(["", "id", "type", "torch.Tensor", "0", "1", "-1", "a b", "é", "values", "nn"])
        return rng.random()

    def tensor():
        dt = rng.choice([torch.float16, torch.float32, torch.float64, torch.int32, torch.int64, torch.bool])
        shape = rng.choice([(), (1,), (3,), (2, 2), (0,), (2, 0), (1, 2, 2)])
        if dt.is_floating_point:
            x = torch.tensor([rng.choice(specials[:8]) for _ in range(max(1, math.prod(shape)))], dtype=torch.float64)
            x = x[: math.prod(shape)].reshape(shape).to(dt) if shape != () else x[0].to(dt)
        elif dt == torch.bool:
            x = torch.tensor([rng.random() < 0.5 for _ in range(max(1, math.prod(shape)))])[: math.prod(shape)].reshape(shape) \
                if shape != () else torch.tensor(True)
        else:
            x = torch.tensor([rng.randrange(-5, 6) for _ in range(max(1, math.prod(shape)))], dtype=dt)[: math.prod(shape)].reshape(shape) \
                if shape != () else torch.tensor(3, dtype=dt)
        if rng.random() < 0.3 and dt.is_floating_point:
            x = torch.nn.Parameter(x)
        return x

    def lookalike():
        # torch.tensor casts the leaves to the dtype: the model covers look-alikes whose leaves already have the
        # dtype's Python type and are exactly representable (always true of what the encoder writes)
        d = {"type": "torch.Tensor"}
        fl, it, bo = [[1.0, 2.5], [], [[1.0, 2.5], [3.0, -4.0]], 3.5], [[1, 2], [[1, 2], [3, 4]], 7], [[True, False], True]
        kind = rng.choice(["f", "i", "b"])
        if rng.random() < 0.85:
            d["values"] = rng.choice({"f": fl, "i": it, "b": bo}[kind])
        c = rng.randrange(6)
        if c == 0:
            d["dtype"] = rng.choice({"f": ["torch.float32", "float64", "torch.float16"], "i": ["torch.int64", "int32"], "b": ["torch.bool"]}[kind])
        elif c == 1:
            d["dtype"] = rng.choice(["torch.floaty", 3, "torch.Tensor"])
        if rng.random() < 0.3:
            d["nn"] = rng.choice([True, False])
        if rng.random() < 0.2:
            d[rng.choice(["requires_grad", "foo"])] = False
        items = list(d.items())
        rng.shuffle(items)
        return dict(items)

    def value(dep):
        c = rng.randrange(10) if dep > 0 else rng.randrange(4)
        if c < 3:
            return scalar()
        if c == 3:
            return tensor()
        if c == 4:
            return [value(dep - 1) for _ in range(rng.randrange(4))]
        if c == 5:
            return tuple(value(dep - 1) for _ in range(rng.randrange(4)))
        if c == 6:
            return Parameter(rng.choice(["p", "x.y", ""]), tensor())
        if c == 7 and rng.random() < 0.5:
            return lookalike()
        n = rng.randrange(4)
        d = {}
        for _ in range(n):
            k = rng.choice([0, 1, 2, -1, "0", "1", "a", "type", "id", "state", "values", 10])
            d[k] = value(dep - 1)
        return d

    return value(depth)


def codec_corpus():
    t = T()
    torch, Parameter = t["torch"], t["Parameter"]
    return [
        {0: {"step": torch.tensor(3.0), "exp_avg": torch.tensor([0.5, -1.0])}, 1: {}},
        {1: "int", "1": "str"},
        {"1": "str", 1: "int"},
        {"betas": (0.9, 0.999), "params": [0, 1]},
        {"type": "torch.Tensor", "values": [1, 2]},
        {"type": "torch.Tensor"},
        {"type": "torch.Tensor", "values": [1.0], "nn": False},
        {"mass_matrix": Parameter("mm", torch.tensor([1.0, 2.0], dtype=torch.float32))},
        {"x": torch.nn.Parameter(torch.tensor([[1.0, float("nan")]], dtype=torch.float64))},
        [torch.zeros((0, 3)), torch.zeros((2, 0)), torch.tensor(7)],
    ]


def is_plain(v, top=True) -> bool:
    """python mirror of TT.C17.Plain: the values a checkpoint must give back unchanged"""
    t = T()
    torch, Parameter = t["torch"], t["Parameter"]
    if v is None or isinstance(v, (bool, int, float, str)):
        return True
    if isinstance(v, Parameter) or isinstance(v, tuple):
        return False
    if isinstance(v, torch.Tensor):
        return v.dtype.is_floating_point or not isinstance(v, torch.nn.Parameter)
    if isinstance(v, list):
        return all(is_plain(x, False) for x in v)
    if isinstance(v, dict):
        tag = v.get("type")
        return (all(isinstance(k, str) for k in v) and not (isinstance(tag, str) and tag == "torch.Tensor")
                and all(is_plain(x, False) for x in v.values()))
    return False


def part_reinject(ck: Check, drv, n, fails):
    """update_parameters + Parameter.from_json on a specification entry vs the Lean re-injection model, and the
    property's oracle: the parameter rebuilt from (spec entry, checkpoint entry) equals the saved parameter when the
    spec names the saved dtype / nn flag (or names none and the default dtype is the saved one)"""
    t = T()
    torch, Parameter = t["torch"], t["Parameter"]
    from torchtree.core.utils import update_parameters

    rng = ck.rng
    for i in range(n):
        dflt = rng.choice(["float32", "float64"])
        dt = rng.choice([torch.float32, torch.float64])
        nn = rng.random() < 0.4
        shape = rng.choice([(3,), (2, 2), (1,), ()])
        numel = 1
        for d_ in shape:
            numel *= d_
        vals = torch.tensor([rng.choice([0.5, -1.25, 3.0, 2.0 ** -10, 2.0 ** -30]) for _ in range(numel)], dtype=torch.float64).reshape(shape).to(dt)
        saved_param = Parameter("p", torch.nn.Parameter(vals) if nn else vals)
        saved = json.loads(json.dumps(saved_param, cls=t["Enc"]), cls=t["Dec"])
        spec = {"id": "p", "type": rng.choice(["Parameter", "torchtree.Parameter", "torchtree.core.parameter.Parameter"])}
        # every way Parameter.from_json lets a configuration declare a parameter (the first iterations take every form in turn)
        forms = ["tensor", "full", "zeros", "ones", "tensor+dimension", "arange", "full_like", "zeros_like", "ones_like", "eye", "eye_like",
                 "full+rand", "full_like+rand"]
        ctor = forms[i] if i < len(forms) else rng.choice(forms)
        other = rng.choice(["q", {"id": "q", "type": "Parameter", "tensor": [0.25, 0.75]}])  # referenced / defined inline
        if ctor == "full_like":
            spec["full_like"] = other
            spec["tensor"] = 0.1
        elif ctor in ("zeros_like", "ones_like", "eye_like"):
            spec[ctor] = other
        elif ctor == "eye":
            spec["eye"] = rng.choice([2, [2, 3]])
        elif ctor == "full+rand":
            spec["full"] = [2]
            spec["rand"] = "normal(0.0,1.0)"
        elif ctor == "full_like+rand":
            spec["full_like"] = other
            spec["rand"] = "uniform"
        elif ctor == "tensor":
            spec["tensor"] = [0.0, 1.0]
        elif ctor == "full":
            spec["full"] = [2]
            spec["tensor"] = 0.1
        elif ctor == "zeros":
            spec["zeros"] = 3
        elif ctor == "ones":
            spec["ones"] = [2, 2]
        elif ctor == "arange":
            spec["arange"] = 3
        else:
            spec["tensor"] = [0.5]
            spec["dimension"] = 4
        if rng.random() < 0.5:
            spec["dtype"] = "torch." + rng.choice(["float32", "float64"])
        if rng.random() < 0.5:
            spec["nn"] = rng.random() < 0.5
        if rng.random() < 0.3:
            spec["requires_grad"] = rng.random() < 0.5
        if rng.random() < 0.3:
            # "meta" stands for "a device other than the default one" on a machine that has none
            spec["device"] = rng.choice(["cpu", "meta"])
        nested = rng.random() < 0.25  # the entry is defined inline inside a parameter the checkpoint does not list
        wrapped = {"id": "outer", "type": "Something", "n": 3,
                   "x": [dict(spec) if not nested else {"id": "unsaved", "type": "Parameter", rng.choice(["zeros_like", "full_like", "eye_like"]): dict(spec),
                                                         "tensor": 0.5}, "ref"]}
        torch.set_default_dtype(getattr(torch, dflt))
        try:
            try:
                live = json.loads(json.dumps(wrapped))
                update_parameters(live, {"p": saved})
                entry = live["x"][0]
                if nested:
                    entry = next(v_ for k_, v_ in entry.items() if k_.endswith("_like"))
                rebuilt = Parameter.from_json(entry, {})
                on_meta = rebuilt.tensor.device.type == "meta"
                impl = "ok " + " ".join(toks(rebuilt)) if not on_meta else "meta"
            except Exception as e:
                rebuilt, impl = None, "raise"
                entry = None
                on_meta = False
        finally:
            torch.set_default_dtype(torch.float32)
        ck.case(("reinject", json.dumps(spec, sort_keys=True), str(dt), nn, dflt), nontrivial=True, bucket="reinject/" + ctor)
        if drv:
            if nested:
                model = drv.ask(f"reinject-nested {dflt} " + " ".join(toks(wrapped["x"][0])) + " || " + " ".join(toks(saved)))
            else:
                model = drv.ask(f"reinject {dflt} " + " ".join(toks(spec)) + " || " + " ".join(toks(saved)))
            if model != impl and not on_meta:
                ck.mismatch("re-injection differs from the Lean model", {"spec": spec, "saved_dtype": str(dt), "nn": nn, "default": dflt,
                                                                          "impl": impl[:200], "model": model[:200]})
        spec_dt = spec.get("dtype", "torch." + dflt)
        if rebuilt is None:
            fails.append(("reinject-raises", f"Parameter.from_json after update_parameters raises for spec {spec}",
                          {"spec": spec, "default_dtype": dflt, "saved": " ".join(toks(saved_param))}))
        elif rebuilt.tensor.device.type != spec.get("device", "cpu"):
            fails.append(("reinject-device", f"the configuration declares the parameter on device '{spec['device']}' (neither ParameterEncoder nor "
                          f"TensorEncoder records a device); after update_parameters the rebuilt parameter is on '{rebuilt.tensor.device}' "
                          f"(entry left: {sorted(entry)})", {"spec": spec, "default_dtype": dflt, "saved": " ".join(toks(saved_param))}))
        elif bool(rebuilt.tensor.requires_grad) != bool(spec.get("requires_grad", False) or spec.get("nn", False)):
            fails.append(("reinject-requires_grad", f"the configuration declares requires_grad = {spec.get('requires_grad')}; the parameter rebuilt after "
                          f"update_parameters has requires_grad = {rebuilt.tensor.requires_grad} (entry left: {sorted(entry)})",
                          {"spec": spec, "default_dtype": dflt, "saved": " ".join(toks(saved_param))}))
        elif on_meta:
            pass
        elif spec_dt == str(dt) and bool(spec.get("nn", False)) == nn:
            if " ".join(toks(rebuilt)) != " ".join(toks(saved_param)):
                fails.append(("reinject-differs", f"parameter rebuilt from the checkpoint differs from the saved one (spec {spec})",
                              {"spec": spec, "default_dtype": dflt, "saved": " ".join(toks(saved_param)), "rebuilt": " ".join(toks(rebuilt))}))


def part_codec(ck: Check, drv, n, fails):
    t = T()
    torch = t["torch"]
    for i in range(n):
        v = codec_corpus()[i] if i < len(codec_corpus()) else gen_value(ck.rng, ck.rng.randrange(1, 5))
        dflt = ck.rng.choice(["float32", "float64"])
        torch.set_default_dtype(getattr(torch, dflt))
        try:
            try:
                tk = toks(v)
            except NotInUniverse:
                continue
            try:
                text = json.dumps(v, cls=t["Enc"])
            except Exception as e:  # the encoder raises on a value of the universe
                ck.mismatch("ParameterEncoder raises on a value of the universe", {"value": " ".join(tk)[:200], "error": repr(e)})
                continue
            impl_tree = "J " + " ".join(toks(json.loads(text, object_pairs_hook=Pairs)))
            try:
                impl = "ok " + " ".join(toks(json.loads(text, cls=t["Dec"])))
                kindb = "ok"
            except NotInUniverse:
                continue
            except Exception as e:
                impl = "raise"
                kindb = "raise:" + type(e).__name__
        finally:
            torch.set_default_dtype(torch.float32)
        if is_plain(v) and impl != "ok " + " ".join(tk):
            fails.append(("codec:plain-value-not-restored",
                          "a value without tuples, integer keys or Parameter objects does not come back from "
                          f"json.dump(cls=ParameterEncoder)/json.load(cls=TensorDecoder) as it was: {' '.join(tk)[:160]} -> {impl[:160]}",
                          {"value_tokens": " ".join(tk), "default_dtype": dflt, "decoded": impl}))
        m_tree = "J " + drv.ask("encode " + " ".join(tk))
        m = drv.ask(f"codec {dflt} " + " ".join(tk))
        m2 = drv.ask(f"canon {dflt} " + " ".join(tk))
        ck.case(("codec", " ".join(tk)), nontrivial=len(tk) > 2, bucket="codec/" + kindb,
                sample={"value": " ".join(tk)[:160], "decoded": impl[:160]} if i in (0, 3, 11) else None)
        if m_tree != impl_tree:
            ck.mismatch("JSON tree written differs from the Lean encode", {"value": " ".join(tk)[:300], "impl": impl_tree[:300], "model": m_tree[:300]})
        if m != impl or m2 != m:
            ck.mismatch("decode(encode v) differs from the Lean codec", {"value": " ".join(tk)[:300], "impl": impl[:300], "model": m[:300], "canon": m2[:300]})


# ============================================================================ configurations
def opt_configs(ck: Check):
    rng = ck.rng
    algos = optimisers()
    scheds = list(SCHEDULERS)
    out = []
    if ck.thorough():
        for a in algos:
            for s in scheds:
                out.append((a, s))
    else:
        for a in algos:
            out.append((a, rng.choice(scheds[1:])))
        for s in scheds:
            out.append(("Adam", s))
        out.append(("SGD", "none"))
        out.append(("LBFGS", "none"))
    cfgs = []
    for a, s in dict.fromkeys(out):
        cfgs.append({"algo": a, "sched": s, "iters": rng.choice([5, 6, 7]), "freq": rng.choice([1, 1, 2, 3]),
                     "dtype": rng.choice(["float32", "float64"]), "nn": rng.random() < 0.5,
                     "two_d": a == "Muon",
                     "explicit_dtype": None})
    for c in cfgs:
        # an explicit dtype in the specification, equal to the default one (parameter dtype != default dtype makes
        # torch.optim itself cast state tensors such as ASGD's eta on load: torch's policy, not torchtree's)
        if rng.random() < 0.4:
            c["explicit_dtype"] = "torch." + c["dtype"]
    # … except for optimisers whose state is all parameter-shaped: float32 parameters under a float64 default and vice versa
    for a, pd, dd in (("Adam", "float32", "float64"), ("SGD", "float64", "float32"), ("RMSprop", "float32", "float64"), ("Adagrad", "float64", "float32")):
        cfgs.append({"algo": a, "sched": rng.choice(["none", "StepLR", "ExponentialLR"]), "iters": 6, "freq": 2, "dtype": dd, "nn": rng.random() < 0.5,
                     "two_d": False, "explicit_dtype": "torch." + pd, "pdtype": "torch." + pd, "twice": True})
    # configurations that need main()'s pre-processing (plates in both spellings, comment keys, ignored objects)
    for sp_, a_, sc_ in (("star", "Adam", "StepLR"), ("var", "SGD", "none"), ("star", "Adagrad", "ExponentialLR")):
        cfgs.append({"algo": a_, "sched": sc_, "iters": 6, "freq": 2, "dtype": rng.choice(["float32", "float64"]), "nn": False, "two_d": False,
                     "explicit_dtype": None, "preprocessed": sp_, "ignored_duplicate": a_ == "Adagrad", "twice": True})
    # parameters declared through full / zeros_like / ones / full_like (inline shape)
    for f_ in ("A", "B", "C"):
        cfgs.append({"algo": rng.choice(["Adam", "SGD", "Adagrad"]), "sched": "none", "iters": 6, "freq": 2, "dtype": rng.choice(["float32", "float64"]),
                     "nn": f_ == "B", "two_d": False, "explicit_dtype": None, "forms": f_, "twice": True})
    return cfgs


def around(*boundaries, far=None):
    """interruption points just before, at and just after every phase boundary, plus one long after the last"""
    pts = set()
    for b in boundaries:
        pts.update({b - 1, b, b + 1})
    if far:
        pts.add(far)
    return sorted(p_ for p_ in pts if p_ >= 1)


def phase_configs():
    """every adaptor / operator option that introduces a PHASE (adaptation window [start, end], threshold counters, every-k
    updates, periodic restarts, initial step-size search, adaptation switched off), checkpoint after EVERY iteration and
    interruption points on both sides of each boundary. HMC alone: the adaptor's call counter is the iteration; with a second
    operator the two drift apart and every second point of 1..24 is taken."""
    P = []

    def add(label, specs, at, iters=24, ops=("hmc",), **kw):
        P.append(dict({"ops": list(ops), "adaptors": label, "adaptor_specs": specs, "iters": iters, "freq": 1, "at": at, "twice": True}, **kw))

    add("dass[start=3,end=10]", ["dass@start=3,end=10"], around(3, 10, far=20))
    add("dass[end=6]", ["dass@end=6"], around(6, far=18), iters=20)
    add("ass[start=4,end=9]", ["ass@start=4,end=9"], around(4, 9, far=18), iters=20)
    add("ass-rate[end=14]", ["ass-rate@end=14"], around(10, 14, far=21))  # the acceptance-rate variant waits for 10 calls
    add("mma[start=3,end=12,update_frequency=4]", ["mma@start=3,end=12,update_frequency=4"], around(3, 8, 12, far=20))
    add("mma[restart_frequency=6]", ["mma@restart_frequency=6,update_frequency=2"], around(6, 12, far=17), iters=18)
    add("mma[end=10]+dass[end=8]", ["mma@end=10,update_frequency=2", "dass@end=8"], around(8, 10, far=18), iters=20)
    add("mma-swap[swap_every=4,end=10]", ["mma-swap:4@end=10,update_frequency=2"], around(4, 8, 10, far=15), iters=16)
    add("mma-window[end=8]+ass[end=5]", ["mma-window@end=8,update_frequency=2", "ass@end=5"], around(5, 8, far=14), iters=16)
    add("dass[end=6],find_reasonable_step_size", ["dass@end=6"], around(1, 6, far=14), iters=16, hmc_options={"find_reasonable_step_size": True})
    add("dass[end=6],disable_adaptation", ["dass@end=6"], around(6, far=12), iters=14, hmc_options={"disable_adaptation": True})
    # what the operator derives when it is built must not become unsaved run state: position-dependent target, every adaptor
    for lab_, sp_ in (("dass", ["dass"]), ("ass", ["ass"]), ("mma+dass", ["mma@update_frequency=2", "dass"])):
        add(f"{lab_},find_reasonable_step_size,gumbel-tail", sp_, [1, 5, 12, 20], hmc_options={"find_reasonable_step_size": True}, hmc_target="gumbel-tail")
    # a second operator: the adaptor's call counter is no longer the iteration number, so every point
    add("dass[end=6] next to a sliding window", ["dass@end=6"], list(range(1, 25, 2)) + [24], ops=("sliding", "hmc"))
    add("mma[end=8]+ass[start=3,end=6] next to a scaler", ["mma@end=8,update_frequency=2", "ass@start=3,end=6"], list(range(2, 25, 2)), ops=("scaler", "hmc"))
    return P


def mcmc_configs(ck: Check):
    rng = ck.rng
    cfgs = []
    for o in OPERATORS[:4]:
        cfgs.append({"ops": [o], "adaptors": "none"})
    for a in ADAPTORS:
        c = {"ops": ["hmc"], "adaptors": a}
        if a in ("mma-window+dass", "mma-window"):
            # the window only starts to drop samples after 100 of them: checkpoints before (35, 70) and after (105) that
            c.update(iters=120, freq=35, points="all")
        if a == "mma-swap":
            # swap every 5: checkpoints at 3, 6, 9, 12, 15 = every offset 3, 1, 4, 2, 0 inside the swap period, the second
            # estimator holding 3, 1, 4, 2, 0 samples
            c.update(iters=16, freq=3, points="all")
        if a == "mma-swap25":
            # checkpoints at 20 (before the first swap), 40 (15 samples in the second estimator), 60
            c.update(iters=60, freq=20, points="all")
        cfgs.append(c)
    cfgs.append({"ops": list(OPERATORS), "adaptors": "mma+dass", "iters": 36, "freq": 12})
    # parameters declared through every form of Parameter.from_json (full / zeros / ones / *_like / eye / eye_like / dimension,
    # referenced and inline shapes)
    for f_, ad in (("A", "mma+dass"), ("B", "mma-dense"), ("C", "mma-dense")):
        cfgs.append({"ops": ["sliding", "scaler", "dirichlet", "hmc"], "adaptors": ad, "forms": f_, "iters": 12, "freq": 4, "points": "all", "twice": True})
    cfgs += phase_configs()
    cfgs.append({"ops": ["sliding", "scaler"], "adaptors": "none", "inline": "unsaved", "iters": 8, "freq": 4, "points": "all"})
    cfgs.append({"ops": ["sliding", "scaler"], "adaptors": "none", "inline": "saved", "iters": 8, "freq": 4, "points": "all"})
    # parameter dtype declared in the configuration and different from the default dtype of the run
    for pd, dd in (("torch.float32", "float64"), ("torch.float64", "float32")):
        cfgs.append({"ops": ["sliding", "scaler", "dirichlet", "hmc"], "adaptors": "mma+dass", "pdtype": pd, "dtype": dd, "iters": 12, "freq": 4,
                     "points": "all", "twice": True})
    cfgs.append({"ops": ["sliding", "hmc"], "adaptors": rng.choice(list(ADAPTORS))})
    if ck.thorough():
        for _ in range(12):
            ops = rng.sample(OPERATORS, rng.randrange(2, 5))
            cfgs.append({"ops": ops, "adaptors": rng.choice(list(ADAPTORS)) if "hmc" in ops else "none"})
    for c in cfgs:
        it = rng.choice([9, 12]) if not ck.thorough() else rng.choice([12, 24, 120])
        c.setdefault("iters", it)
        c.setdefault("freq", 40 if c["iters"] == 120 else rng.choice([3, 4]))
        d_ = rng.choice(["float32", "float64"])
        c.setdefault("dtype", d_)
        c.update(seed=rng.randrange(1, 1000))
    return cfgs


def inline_in_saved_parameter(runner: Runner, cfg, fn, args):
    """a sampled parameter defined inline inside another sampled parameter (`full_like: {…}`): on restart update_parameters
    replaces the outer entry wholesale and the inline definition goes with it"""
    ck = runner.ck
    full, err = run_main(fn(), args, runner.wd())
    if err is not None or not full.snaps:
        runner.skipped[f"{_cfg_tag(cfg)}: uninterrupted run raises"] += 1
        return
    k = sorted(full.snaps)[0]
    w = runner.wd()
    os.makedirs(w, exist_ok=True)
    shutil.copyfile(full.snaps[k]["file"], os.path.join(w, "ck.json"))
    res, err = run_main(fn(), args + ["--checkpoint", "ck.json"], w, rng=full.snaps[k]["rng"])
    ck.case(("inline-saved", json.dumps(cfg, sort_keys=True), k), bucket="restart/inline-definition")
    replay = {"kind": "MCMC", "config": cfg, "args": args, "interrupt_after": k}
    if err is not None or not res.rec:
        runner.fail.append(("restart-loses-inline-definition",
                            f"{_cfg_tag(cfg)}: restart after iteration {k} "
                            + (f"raises {err['type']}: {err['msg']}" if err else "logs 'Object with ID `y' not found' and performs no iteration")
                            + " (update_parameters deletes the full_like key of x, and the definition of y with it)", replay))
    elif not _same_states(full.rec[k:], res.rec):
        runner.fail.append(("resume-differs:MCMC:inline-definition:states", f"{_cfg_tag(cfg)}: resumed run leaves the uninterrupted trajectory", replay))


def run_cfg(runner: Runner, kind, cfg, points):
    if kind == "Optimizer":
        fn = lambda: spec_opt(cfg["algo"], cfg["sched"], cfg["iters"], cfg["freq"], cfg["nn"], cfg["two_d"], cfg["explicit_dtype"], cfg.get("forms"))  # noqa: E731
        if cfg.get("preprocessed"):
            fn = lambda: spec_opt_preprocessed(cfg["preprocessed"], cfg["algo"], cfg["sched"], cfg["iters"], cfg["freq"], cfg.get("ignored_duplicate", False))  # noqa: E731
        args = ["--dtype", cfg["dtype"], "-s", "1"]
    elif kind == "HMC":
        fn = lambda: spec_hmc(cfg["iters"], cfg["freq"], cfg.get("dense", False))  # noqa: E731
        args = ["--dtype", cfg["dtype"], "-s", str(cfg["seed"])]
    else:
        fn = lambda: spec_mcmc(cfg["ops"], cfg.get("adaptor_specs") or ADAPTORS[cfg["adaptors"]], cfg["iters"], cfg["freq"], cfg.get("forms"),  # noqa: E731
                               cfg.get("pdtype"), cfg.get("inline"), cfg.get("hmc_options"), cfg.get("hmc_target"))
        args = ["--dtype", cfg["dtype"], "-s", str(cfg["seed"])]
    if cfg.get("inline") == "saved":
        inline_in_saved_parameter(runner, cfg, fn, args)
        return
    try:
        before = sum(runner.skipped.values())
        runner.config(kind, cfg, fn, args, points)
        tries = 0
        while kind == "MCMC" and cfg.get("twice") and sum(runner.skipped.values()) > before and tries < 3:
            # the uninterrupted run failed for a reason of its own (an operator never drawn: 0/0 in the final summary):
            # these configurations are the only ones of their kind, so try another seed
            tries += 1
            before = sum(runner.skipped.values())
            args = args[:-1] + [str(cfg["seed"] + tries)]
            runner.config(kind, dict(cfg, seed=cfg["seed"] + tries), fn, args, points)
    except InfraError:
        raise
    except Exception as e:  # a harness-side conversion tripped over an implementation value
        runner.ck.mismatch("harness could not complete a configuration", {"config": cfg, "error": repr(e), "tb": traceback.format_exc()[-600:]})


def subprocess_restart(ck: Check, runner: Runner, cfg):
    """one restart in a genuinely fresh process: python -m torchtree.torchtree spec --checkpoint file"""
    fn = lambda: spec_opt(cfg["algo"], cfg["sched"], cfg["iters"], 1, cfg["nn"], cfg["two_d"], cfg["explicit_dtype"])  # noqa: E731
    args = ["--dtype", cfg["dtype"], "-s", "1"]
    full, err = run_main(fn(), args, runner.wd())
    if err or not full.snaps:
        return
    k = sorted(full.snaps)[len(full.snaps) // 2]
    w = runner.wd()
    os.makedirs(w, exist_ok=True)
    shutil.copyfile(full.snaps[k]["file"], os.path.join(w, "ck.json"))
    with open(os.path.join(w, "spec.json"), "w") as f:
        json.dump(fn(), f)
    env = dict(os.environ, PYTHONPATH=str(REPO), OMP_NUM_THREADS="2")
    try:
        r = subprocess.run([sys.executable, "-m", "torchtree.torchtree", "spec.json", "--checkpoint", "ck.json"] + args,
                           cwd=w, env=env, capture_output=True, text=True, timeout=300)
    except subprocess.TimeoutExpired:
        raise InfraError("subprocess restart timed out")
    ck.case(("subprocess", json.dumps(cfg, sort_keys=True), k), bucket="restart/subprocess",
            sample={"config": cfg, "interrupt_after": k, "returncode": r.returncode})
    replay = {"kind": "Optimizer", "config": dict(cfg, freq=1), "args": args, "interrupt_after": k, "subprocess": True}
    if r.returncode != 0:
        last = (r.stderr.strip().splitlines() or ["?"])[-1]
        runner.fail.append((f"restart-raises:subprocess:{last.split(':')[0]}", f"fresh process restarted after iteration {k} fails: {last[:200]}",
                            dict(replay, stderr=r.stderr[-400:])))
        return
    # the file the fresh process wrote after its last iteration vs the uninterrupted run's
    last_k = sorted(full.snaps)[-1]
    mine = json.load(open(full.snaps[last_k]["file"]))
    theirs_path = os.path.join(w, f"ck-{last_k}.json")
    if not os.path.exists(theirs_path):
        runner.fail.append((f"resume-differs:Optimizer._run:labels", f"fresh process resumed after {k} never wrote the checkpoint of iteration {last_k}", replay))
        return
    theirs = json.load(open(theirs_path))
    if json.dumps(mine, sort_keys=True) != json.dumps(theirs, sort_keys=True):
        extra = os.path.exists(os.path.join(w, f"ck-{k}.json"))
        runner.fail.append((("resume-differs:Optimizer._run:labels" if extra else f"resume-differs:Optimizer:{cfg['algo']}:states"),
                            f"fresh process resumed after iteration {k}: final checkpoint differs from the uninterrupted run's"
                            + (f"; it rewrote the checkpoint of iteration {k}" if extra else ""), replay))



# ============================================================================ several algorithms, several checkpoint files
class MultiCapture:
    """like Capture, for a configuration that runs SEVERAL algorithms one after the other, each writing its own checkpoint:
    one global sequence of (algorithm id, iteration label, its parameters) and, at every checkpoint written by any of them,
    a copy of EVERY checkpoint file that exists at that moment (what a killed process leaves behind)"""

    def __init__(self):
        self.algos = []
        self.rec = []
        self.snaps = {}
        self.rng_at_start = None
        self.workdir = None
        self.final = {}

    def on_object(self, obj, dic):
        torch = T()["torch"]
        import numpy as np

        name = type(obj).__name__
        if name not in ("Optimizer", "MCMC") or any(obj is a for a in self.algos):
            return
        self.algos.append(obj)
        cap = self

        def record():
            cap.rec.append((obj.id, obj._epoch, [p.tensor.detach().clone() for p in obj.parameters]))

        if name == "Optimizer":
            inner = obj.optimizer.step

            def step(*a, **k):
                r = inner(*a, **k)
                record()
                return r

            obj.optimizer.step = step
        else:
            for op in obj._operators:
                def tune(*a, _inner=op.tune, **k):
                    record()
                    return _inner(*a, **k)

                op.tune = tune
        inner_save = obj.save_full_state

        def save(*a, **k):
            r = inner_save(*a, **k)
            done = len(cap.rec)
            keep = {}
            for f in sorted(os.listdir(cap.workdir)):
                if f.startswith("stage") and f.endswith(".json"):
                    dst = os.path.join(cap.workdir, f"saved-{done}-{f}")
                    shutil.copyfile(os.path.join(cap.workdir, f), dst)
                    keep[f] = dst
            cap.snaps[done] = {"files": keep, "rng": (torch.get_rng_state(), np.random.get_state()), "by": obj.id}
            return r

        obj.save_full_state = save
        inner_run = obj.run

        def run():
            if cap.rng_at_start is not None:
                torch.set_rng_state(cap.rng_at_start[0])
                np.random.set_state(cap.rng_at_start[1])
            elif obj is cap.algos[0]:
                np.random.seed(int(torch.initial_seed()) % (2 ** 32))
            r = inner_run()
            cap.final[obj.id] = copy.deepcopy(obj.state_dict())
            return r

        obj.run = run


def spec_stages(stages, shared_param, shared_file):
    """stage = ('opt', iterations) | ('mcmc', iterations): algorithms run in the order of the list; stage i works on parameter
    p<i> (or all on p0 when shared_param) and checkpoints into stage<i>.json (or all into stage0.json when shared_file)"""
    s = []
    n_par = 1 if shared_param else len(stages)
    for i in range(n_par):
        s.append(param(f"p{i}", [1.0 + i, 2.0, 0.5]))
        s.append({"id": f"joint{i}", "type": "JointDistributionModel",
                  "distributions": [{"id": f"d{i}", "type": "Distribution", "distribution": "torch.distributions.LogNormal", "x": f"p{i}",
                                     "parameters": {"loc": param(f"d{i}.loc", [0.1 * (i + 1)]), "scale": param(f"d{i}.scale", [0.75])}}]})
    for i, (kind, iters) in enumerate(stages):
        j = 0 if shared_param else i
        ckf = "stage0.json" if shared_file else f"stage{i}.json"
        if kind == "opt":
            s.append({"id": f"alg{i}", "type": "Optimizer", "algorithm": "torch.optim.Adam", "loss": f"joint{j}", "parameters": [f"p{j}"], "maximize": True,
                      "iterations": iters, "checkpoint": ckf, "checkpoint_frequency": 2, "options": {"lr": 0.05},
                      "scheduler": {"id": f"sch{i}", "type": "Scheduler", "scheduler": "torch.optim.lr_scheduler.StepLR", "step_size": 2, "gamma": 0.5}})
        else:
            s.append({"id": f"alg{i}", "type": "MCMC", "joint": f"joint{j}", "iterations": iters, "checkpoint": ckf, "checkpoint_frequency": 2, "every": 0,
                      "operators": [{"id": f"op{i}", "type": "ScalerOperator", "parameters": [f"p{j}"], "scaler": 0.5, "weight": 1.0, "acceptance_window_length": 3}],
                      "loggers": []})
    return s


def part_stages(ck: Check, runner: Runner, only=None, args=None):
    """the restart ENTRY POINT with several algorithms and several -c files: interrupt in the first and in a later stage, restart
    through torchtree.main with every checkpoint file the killed run left, in every order when the stages share no parameter (in
    the order they were written when they do: a later file overrides an earlier one), and compare the continued global trajectory
    and the final state of every algorithm with the uninterrupted run"""
    import itertools

    layouts = [
        ("optimizer→optimizer", [("opt", 4), ("opt", 6)], False, False),
        ("optimizer→mcmc", [("opt", 4), ("mcmc", 6)], False, False),
        ("mcmc→optimizer", [("mcmc", 4), ("opt", 4)], False, False),
        ("optimizer→optimizer→mcmc", [("opt", 2), ("opt", 4), ("mcmc", 4)], False, False),
        ("optimizer→optimizer on the same parameter", [("opt", 4), ("opt", 6)], True, False),
        ("optimizer→optimizer, one shared checkpoint file", [("opt", 4), ("opt", 6)], False, True),
    ]
    args = args or ["--dtype", "float64", "-s", str(ck.rng.randrange(1, 1000))]
    for label, stages, shared_param, shared_file in layouts:
        if only is not None and label != only:
            continue
        fn = lambda: spec_stages(stages, shared_param, shared_file)  # noqa: E731
        full, err = run_main(fn(), args, runner.wd(), cap_cls=MultiCapture)
        if err is not None or not full.snaps:
            runner.skipped[f"stages {label}: uninterrupted run raises {err['type'] if err else 'nothing'}"] += 1
            continue
        for g in sorted(full.snaps):
            snap = full.snaps[g]
            files = sorted(snap["files"])
            orders = list(itertools.permutations(files)) if not shared_param else [tuple(files)]
            for order in orders:
                w = runner.wd()
                os.makedirs(w, exist_ok=True)
                cargs = []
                for f in order:
                    shutil.copyfile(snap["files"][f], os.path.join(w, f))
                    cargs += ["-c", f]
                res, err = run_main(fn(), args + cargs, w, rng=snap["rng"], cap_cls=MultiCapture)
                ck.case(("stages", label, g, order), bucket=f"restart-stages/{label}/{len(order)} file(s)")
                replay = {"kind": "stages", "layout": label, "stages": stages, "shared_param": shared_param, "shared_file": shared_file, "args": args,
                          "interrupt_after_global_step": g, "checkpoint_written_by": snap["by"], "files": list(order)}
                tag = f"{label}: interrupted after global step {g} (checkpoint of {snap['by']}), restarted with {' '.join(cargs)}"
                sigl = "shared-file" if shared_file else ("several-files" if len(order) > 1 else "one-file")
                if err is not None:
                    runner.fail.append((f"stages:restart-raises:{sigl}:{err['type']}", f"{tag}: raises {err['type']}: {err['msg']}", dict(replay, error=err)))
                    continue
                want = [(a, l) for a, l, _ in full.rec[g:]]
                got = [(a, l) for a, l, _ in res.rec]
                if want != got:
                    again = [x for x in got if x not in want]
                    runner.fail.append((f"stages:resume-differs:{sigl}:iterations",
                                        f"{tag}: the restarted run performs {got[:8]}{'…' if len(got) > 8 else ''}, the uninterrupted run continues with "
                                        f"{want[:8]}{'…' if len(want) > 8 else ''}" + (f" — {again[:4]} run again" if again else ""), replay))
                    continue
                if not _same_states([(l, p_) for _, l, p_ in full.rec[g:]], [(l, p_) for _, l, p_ in res.rec]):
                    runner.fail.append((f"stages:resume-differs:{sigl}:states", f"{tag}: the continued trajectory leaves the uninterrupted one", replay))
                    continue
                for aid, st in full.final.items():
                    for d in all_diffs(allowed_canon(st), allowed_canon(res.final.get(aid, {}))):
                        runner.fail.append((f"stages:final-state-differs:{sigl}:{_diff_class(d)}", f"{tag}: final state of {aid} differs: {d}", dict(replay, diff=d)))
                        break


SCAN_FILES = ("torchtree/core/utils.py", "torchtree/core/parameter_encoder.py", "torchtree/core/parameter_utils.py", "torchtree/core/parameter.py",
              "torchtree/inference/hmc/adaptation.py", "torchtree/ops/welford.py", "torchtree/optim/optimizer.py",
              "torchtree/inference/mcmc/mcmc.py", "torchtree/inference/mcmc/operator.py", "torchtree/inference/hmc/operator.py",
              "torchtree/inference/hmc/hmc.py", "torchtree/inference/hmc/hamiltonian.py")


def constructor_scan():
    """tensor constructors without dtype (or without device) in the files a checkpoint passes through"""
    import ast

    ctors = ("ones", "zeros", "tensor", "arange", "full", "eye", "empty", "linspace", "as_tensor")
    rows = []
    for rel in SCAN_FILES:
        path = Path(REPO) / rel
        if not path.exists():
            continue
        tree = ast.parse(path.read_text())
        parents = {}
        for node in ast.walk(tree):
            for ch in ast.iter_child_nodes(node):
                parents[ch] = node
        for node in ast.walk(tree):
            if (isinstance(node, ast.Call) and isinstance(node.func, ast.Attribute) and isinstance(node.func.value, ast.Name)
                    and node.func.value.id == "torch" and node.func.attr in ctors):
                kws = {k.arg for k in node.keywords}
                if None in kws or ("dtype" in kws and "device" in kws):
                    continue
                fn, cur = [], node
                while cur in parents:
                    cur = parents[cur]
                    if isinstance(cur, (ast.FunctionDef, ast.ClassDef)):
                        fn.insert(0, cur.name)
                rows.append({"file": rel, "line": node.lineno, "where": ".".join(fn), "call": ast.unparse(node)[:90],
                             "missing": [k for k in ("dtype", "device") if k not in kws]})
    return rows


def failure_paths(ck: Check, runner: Runner):
    """what a restart does when the checkpoint cannot be used: it must fail, never start silently from the configuration"""
    cfg = {"algo": "Adam", "sched": "none", "iters": 4, "freq": 2, "dtype": "float64", "nn": False, "two_d": False, "explicit_dtype": None}
    fn = lambda: spec_opt(cfg["algo"], cfg["sched"], cfg["iters"], cfg["freq"], cfg["nn"], cfg["two_d"], cfg["explicit_dtype"])  # noqa: E731
    args = ["--dtype", "float64", "-s", "1"]
    full, err = run_main(fn(), args, runner.wd())
    if err or not full.snaps:
        return
    text = open(full.snaps[sorted(full.snaps)[0]]["file"]).read()
    table = {}
    for name, content in (("truncated", text[: len(text) // 2]), ("empty", ""), ("missing", None), ("not-a-list", json.dumps({"id": "opt"}))):
        w = runner.wd()
        os.makedirs(w, exist_ok=True)
        if content is not None:
            with open(os.path.join(w, "ck.json"), "w") as f:
                f.write(content)
        res, err = run_main(fn(), args + ["--checkpoint", "ck.json"], w)
        ck.case(("failure-path", name), bucket="failure-path/" + name)
        table[name] = f"raises {err['type']}" if err else f"no error, {len(res.rec)} iteration(s) performed"
        if err is None and res.rec:
            runner.fail.append((f"unusable-checkpoint-ignored:{name}",
                                f"restart with a {name} checkpoint file raises nothing and performs {len(res.rec)} iterations from the configuration's initial values",
                                {"kind": "Optimizer", "config": cfg, "args": args, "checkpoint": name}))
    ck.extra["failure_paths"] = table


# ============================================================================ entry points
def run(ck: Check):
    ck.rule = (
        "one case = one (algorithm configuration, interruption point) taken through the real torchtree main(): run, "
        "checkpoint file, fresh start with --checkpoint, state_dict()/parameters compared with the snapshot at save "
        "time, then the resumed trajectory compared with the uninterrupted one; or one value pushed through the real "
        "encoder/decoder and the Lean codec; or one (class, condition set) whose written/read keys are compared with "
        "the generated table. distinct = distinct configuration x interruption point / value / class; non-trivial = "
        "a restart that was really executed, a value with at least one container"
    )
    ck.assumptions += [
        "a 'deterministic run' receives its random stream from outside: the harness hands the torch RNG position of the "
        "checkpoint to the restarted run (the RNG state is not listed by the property as part of a checkpoint)",
        "tensor data are identified with what .tolist() returns (a (0,k)-shaped tensor and a (0,)-shaped one coincide); "
        "float32/float16 -> Python float -> JSON text -> float -> dtype is exact (checked by the correspondence, not proved)",
        "dtypes restricted to float16/32/64, int32/64, bool; dictionary keys to int and str",
        "runs whose UNINTERRUPTED form already fails (e.g. SparseAdam on dense gradients, ReduceLROnPlateau without a metric, "
        "nn.Parameter under MCMC operators that write in place) are outside the property and only counted",
    ]
    ck.trusted += ["json (dump/load), torch.tensor / Tensor.tolist, torch.optim optimisers and lr_scheduler classes "
                   "(their state_dict/load_state_dict are modelled only as far as key re-attachment goes)",
                   "Python int <-> str for dictionary keys (Lean: Int.repr / String.toInt?, proved inverse in Std)"]
    lean_src, tr_ok, note, table = tr_statedict.translate(REPO)
    if not tr_ok:
        ck.notes.append("translator: " + note)
    if table["abstract"]:
        ck.notes.append("registered classes that cannot be instantiated (abstract state methods unimplemented, excluded): "
                        + ", ".join(n for n, _ in table["abstract"]))
    ok, broken = ck.lean_side({GEN: lean_src}, ["TTGen.C17_StateKeys", "TTProofs.Props.C17", "drv_c17"], PROPS)
    ck.extra["translator_recognised_source"] = tr_ok
    ck.extra["generated_table"] = {"classes": [c["name"] for c in table["classes"]], "loops": table["loops"]}
    drv = None
    try:
        drv = ck.driver("drv_c17")
        if drv.ask("tables").startswith("bad-op"):
            drv = None
    except Exception as e:
        ck.notes.append(f"driver unavailable: {e}")

    root = Path(tempfile.mkdtemp(prefix="c17-"))
    runner = Runner(ck, drv, table, root)
    try:
        T()
        # ---- corpus of past failures first
        for f in sorted((VERIF / "corpus" / "C17").glob("*.json")):
            obj = json.loads(f.read_text())
            if "config" in obj:
                run_cfg(runner, obj["kind"], obj["config"], "all")
        if drv:
            part_codec(ck, drv, 400 if ck.thorough() else 150, runner.fail)
        part_reinject(ck, drv, 200 if ck.thorough() else 60, runner.fail)
        points = "all" if ck.thorough() else "some"
        ocfgs = opt_configs(ck)
        for cfg in ocfgs:
            run_cfg(runner, "Optimizer", cfg, points)
        for cfg in mcmc_configs(ck):
            run_cfg(runner, "MCMC", cfg, cfg.get("points") or ("all" if cfg["iters"] <= 36 else points))
        for _ in range(1 if not ck.thorough() else 4):
            run_cfg(runner, "HMC", {"iters": ck.rng.choice([6, 9]), "freq": ck.rng.choice([2, 3]), "dtype": ck.rng.choice(["float32", "float64"]),
                                    "seed": ck.rng.randrange(1, 1000)}, "all")
        runnable = [c for c in ocfgs if c["algo"] in ("Adam", "SGD", "RMSprop", "Adagrad")]
        for cfg in ck.rng.sample(runnable, min(len(runnable), 6 if ck.thorough() else 1)):
            subprocess_restart(ck, runner, cfg)
        part_stages(ck, runner)
        failure_paths(ck, runner)
        ck.extra["tensor_constructors_without_dtype_or_device"] = constructor_scan()
        # every generated class met on a live object?
        seen = {c if isinstance(c, str) else c[0] for c in runner.checked_classes}
        missing = [c["name"] for c in table["classes"] if c["name"] not in seen]
        if missing:
            ck.mismatch("generated classes never met on a live object", {"classes": missing})
    finally:
        shutil.rmtree(root, ignore_errors=True)
        if drv:
            drv.close()
    ck.extra["skipped"] = dict(runner.skipped)

    # ---- verdict
    seen = set()
    for sig, what, replay in runner.fail:
        if sig in seen:
            continue
        seen.add(sig)
        ck.violation(sig, what, dict(replay, broken_obligations=broken, replay_cmd="./check C17 --replay <this file>"))
    if not runner.fail and (not ok or ck.mismatches):
        ck.violation("C17:unproved", "C17 theorems or the model/implementation correspondence no longer check",
                     {"broken_obligations": broken, "mismatches": ck.mismatches[:5], "translator_note": note}, found_input=False)


def replay(path: str) -> int:
    """re-execute a recorded (configuration, interruption point) against the real code"""
    obj = json.loads(Path(path).read_text())
    if "value_tokens" in obj:
        t = T()
        torch = t["torch"]
        torch.set_default_dtype(getattr(torch, obj["default_dtype"]))
        v = from_toks(obj["value_tokens"].split())
        text = json.dumps(v, cls=t["Enc"])
        try:
            back = "ok " + " ".join(toks(json.loads(text, cls=t["Dec"])))
        except Exception as e:
            back = "raise " + repr(e)
        bad = back != "ok " + obj["value_tokens"]
        print("value   :", v, "\nwritten :", text[:300], "\nread    :", back[:300], "\n" + ("VIOLATES" if bad else "ok"))
        return 1 if bad else 0
    if "spec" in obj and "default_dtype" in obj:
        t = T()
        torch, Parameter = t["torch"], t["Parameter"]
        from torchtree.core.utils import update_parameters

        torch.set_default_dtype(getattr(torch, obj["default_dtype"]))
        saved_param = from_toks(obj["saved"].split()) if "saved" in obj else Parameter("p", torch.tensor([0.5, -1.25]))
        saved = json.loads(json.dumps(saved_param, cls=t["Enc"]), cls=t["Dec"])
        spec = json.loads(json.dumps(obj["spec"]))
        try:
            update_parameters(spec, {"p": saved})
            rebuilt = Parameter.from_json(spec, {})
            back = " ".join(toks(rebuilt)) if rebuilt.tensor.device.type != "meta" else "(on the meta device)"
        except Exception as e:
            rebuilt = None
            back = "raise " + repr(e)
        want = " ".join(toks(saved_param))
        print("spec after update_parameters:", spec, "\nrebuilt:", back, "\nsaved  :", want)
        sig = obj.get("signature", "")
        if rebuilt is not None and sig == "reinject-device":
            print("declared device:", obj["spec"].get("device", "cpu"), " device after the restart:", rebuilt.tensor.device)
            bad = rebuilt.tensor.device.type != obj["spec"].get("device", "cpu")
        elif rebuilt is not None and sig == "reinject-requires_grad":
            print("declared requires_grad:", obj["spec"].get("requires_grad"), " after the restart:", rebuilt.tensor.requires_grad)
            bad = bool(rebuilt.tensor.requires_grad) != bool(obj["spec"].get("requires_grad", False) or obj["spec"].get("nn", False))
        else:
            bad = back != want
        print("VIOLATES" if bad else "ok")
        return 1 if bad else 0
    if obj.get("kind") == "stages":
        ck = Check("C17", "quick", 0)
        root = Path(tempfile.mkdtemp(prefix="c17r-"))
        try:
            T()
            _lean, _ok, _note, table = tr_statedict.translate(REPO)
            runner = Runner(ck, None, table, root)
            part_stages(ck, runner, only=obj["layout"], args=obj["args"])
            hits = [f for f in runner.fail if f[0] == obj.get("signature")]
            for sig, what, _r in runner.fail:
                print(("* " if sig == obj.get("signature") else "  ") + sig + " — " + what[:300])
            print("VIOLATES" if hits else ("other failures only" if runner.fail else "ok"))
            return 1 if hits else 0
        finally:
            shutil.rmtree(root, ignore_errors=True)
    if "config" not in obj:
        print("replay names broken obligations only:", obj.get("broken_obligations"))
        return 1
    ck = Check("C17", "quick", 0)
    root = Path(tempfile.mkdtemp(prefix="c17r-"))
    try:
        T()
        _lean, _ok, _note, table = tr_statedict.translate(REPO)
        runner = Runner(ck, None, table, root)
        if obj.get("subprocess"):
            subprocess_restart(ck, runner, obj["config"])
        else:
            run_cfg(runner, obj["kind"], obj["config"], "all")
        hits = [f for f in runner.fail if f[0] == obj.get("signature")]
        for sig, what, _r in runner.fail:
            print(("* " if sig == obj.get("signature") else "  ") + sig + " — " + what)
        print("VIOLATES" if hits else ("other failures only" if runner.fail else "ok"))
        return 1 if hits else 0
    finally:
        shutil.rmtree(root, ignore_errors=True)
