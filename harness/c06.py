"""C06 — node-height parameterisations yield a valid time tree and are invertible; device/dtype
moves keep the parameterisation.

Lean side : TTModel/C06_Heights.lean (model of update_traversals / update_leaf_heights /
            update_bounds / the ratio and difference transforms / branch_lengths, as coded),
            TTGen/C06_Devices.lean regenerated from the cuda/cpu/to bodies, theorems in
            TTProofs/Props/C06.lean.
Tie       : exact correspondence of every discrete output (preorder, postorder, indices_sorted,
            _forward_indices, _det_indices) and of bounds / leaf heights; forward maps and branch
            lengths bit-exact on dyadic inputs against the Rat run of the model; inverses against
            the Float run at 1e-12; batched inputs row by row. The generated device table is
            compared with what the real methods do to `transform`.
Search    : the property's own oracle on the implementation (tips at sampling times, parent >=
            child on every dendropy edge, branch = parent - child, inverse returns the
            parameters, single and batched; kind unchanged by cpu()/to()) over all labelled
            topologies <= 5 taxa (6 in thorough) x date schemes, random trees beyond.
"""
from __future__ import annotations

import json
import sys
from fractions import Fraction
from pathlib import Path

from common import REPO, VERIF, Check, f2h, h2f, use_repo

sys.path.insert(0, str(VERIF / "harness" / "translators"))
use_repo()
import torch  # noqa: E402

import c06_gen as G  # noqa: E402
import c06_extra as X  # noqa: E402
import tr_devices  # noqa: E402

torch.set_num_threads(2)
DT = torch.float64
KIND_OF = {"GeneralNodeHeightTransform": "ratio", "DifferenceNodeHeightTransform": "difference"}


# ----------------------------------------------------------------------------- parameters
def draw_params(kind, t, dates, rng, rows, coarse=True, boundary=0.0):
    """parameter rows in the open domain: ratios in (0,1) + root height above the oldest tip, or
    positive increments; dyadic so that float64 evaluation of the forward map is exact.
    `boundary`: probability that a ROW is drawn near the boundary of the open domain instead (ratios like
    1e-6, 1e-8, 1e-9, 1-1e-9 on some nodes, root just above the oldest tip, increments like 1e-9)."""
    n = G.ntips(t)
    leaf = G.expected_leaf_heights(dates)
    out = []
    for _ in range(rows):
        near = rng.random() < boundary
        if kind == "ratio":
            den = 4 if coarse else 8
            r = [rng.randrange(1, den) / den for _ in range(n - 2)]
            root = max(leaf) + rng.randrange(1, 33) / 4.0
            if near:
                for j in range(n - 2):
                    if rng.random() < 0.6:
                        r[j] = rng.choice([1e-6, 1e-8, 1e-9, 1 - 1e-9, 1 - 1e-6, 3e-7, 1e-4])
                if rng.random() < 0.5:
                    root = max(leaf) + rng.choice([1e-6, 1e-4, 1e-3, 0.015625])
                # several extreme values on one root-to-node path multiply: keep every node at least 1e-10
                # (relative) above its bound, otherwise float64 cannot tell it from the bound at all
                for _try in range(60):
                    if G.ratio_margin(t, leaf, r + [root]) >= 1e-10:
                        break
                    j = rng.randrange(n - 1)
                    if j == n - 2:
                        root = max(leaf) + rng.randrange(1, 33) / 4.0
                    elif r[j] < 0.01:
                        r[j] = rng.randrange(1, den) / den
                else:  # deep trees: give up the tiny ratios, keep the almost-1 ones
                    r = [v if v > 0.01 else rng.randrange(1, den) / den for v in r]
                    root = max(leaf) + rng.randrange(1, 33) / 4.0
            out.append(r + [root])
        else:
            x = [rng.randrange(1, 33) / 8.0 for _ in range(n - 1)]
            if near:
                for j in range(n - 1):
                    if rng.random() < 0.6:
                        x[j] = rng.choice([1e-9, 1e-8, 1e-6, 3e-7, 1e-4])
            out.append(x)
    return out


# ----------------------------------------------------------------------------- one case
def grad_ctx(case):
    """evaluation context: torch.no_grad() (as MCMC.run and the optimiser's logging evaluate) or autograd enabled"""
    import contextlib

    return torch.no_grad() if case.get("mode") == "no_grad" else contextlib.nullcontext()


def same_bits(a, b):
    return a.shape == b.shape and a.dtype == b.dtype and torch.equal(a, b)


def run_impl(case):
    """everything observed on the implementation for one case; exceptions are caught per step.
    case["mode"]: "no_grad" | "grad" | "requires_grad" (the parameter tensor is a leaf that requires grad)."""
    t = G.parse_paren(case["tree"])
    n = G.ntips(t)
    x0 = torch.tensor(case["x"] if case["batched"] else case["x"][0], dtype=DT)  # pristine copy: never handed in
    x = x0.clone()
    if case.get("mode") == "requires_grad":
        x.requires_grad_(True)
    obs = {"n": n}
    try:
        m = G.make_reparam(t, case["dates"], x, case["kind"])
        if case.get("k"):
            from torchtree.evolution.tree_height_transform import DifferenceNodeHeightTransform

            m.transform = DifferenceNodeHeightTransform(m, k=case["k"])
    except Exception as e:
        obs["build_error"] = f"{type(e).__name__}: {e}"
        return obs
    obs["model"] = m
    obs["x"] = x0

    def step(name, f):
        try:
            obs[name] = f()
        except Exception as e:
            obs[name + "_error"] = f"{type(e).__name__}: {str(e)[:160]}"

    mutated, unstable = [], []

    def untouched(what, handed, pristine):
        if not same_bits(handed.detach(), pristine):
            mutated.append(f"{what} changed the tensor it was given from {pristine.tolist()} to {handed.detach().tolist()}")

    step("preorder", lambda: [tuple(r) for r in m.preorder.tolist()])
    step("postorder", lambda: [tuple(int(v) for v in r) for r in m.postorder])
    step("sorted", lambda: [tuple(r) for r in m.indices_sorted.t().tolist()])
    step("sampling", lambda: m.sampling_times.tolist())
    if case["kind"] == "ratio":
        step("fwdidx", lambda: [tuple(r) for r in m.transform._forward_indices.tolist()])
        step("detidx", lambda: m.transform._det_indices.tolist())
        step("bounds", lambda: m.transform._bounds.tolist())
    with grad_ctx(case):
        step("H", lambda: m.node_heights.detach().clone())
        untouched("node_heights", G.heights_param(m).tensor, x0)
        step("bl", lambda: m.branch_lengths().detach().clone())
        untouched("branch_lengths()", G.heights_param(m).tensor, x0)
        try:
            _ = m()
            untouched("model()", G.heights_param(m).tensor, x0)
        except Exception:
            pass
        if "H" in obs:
            yin = obs["H"][..., n:].clone()
            y0 = yin.clone()
            step("inv", lambda: m.transform.inv(yin).detach().clone())
            untouched("transform.inv", yin, y0)
        # the same question asked again must get the same answer (fresh evaluation after a notification)
        if "H" in obs and "bl" in obs:
            try:
                G.heights_param(m).fire_parameter_changed()
                H2 = m.node_heights.detach().clone()
                bl2 = m.branch_lengths().detach().clone()
                if not (same_bits(H2, obs["H"]) and same_bits(bl2, obs["bl"])):
                    unstable.append(f"node_heights first {obs['H'].tolist()} then {H2.tolist()} for unchanged parameters")
                untouched("second node_heights", G.heights_param(m).tensor, x0)
            except Exception as e:
                unstable.append(f"second evaluation raises {type(e).__name__}: {str(e)[:100]}")
        # the transform called directly on ONE tensor holding ratios and root height / increments
        try:
            tr = m.transform
            xin = x0.clone()
            if case.get("mode") == "requires_grad":
                xin.requires_grad_(True)
            y1 = tr(xin)
            untouched("transform(x)", xin, x0)
            y2 = tr(xin)
            if not same_bits(y1.detach(), y2.detach()):
                unstable.append(f"transform(x) first {y1.tolist()} then {y2.tolist()}")
            if "H" in obs and not same_bits(y1.detach(), obs["H"][..., n:]):
                unstable.append(f"transform(x) = {y1.tolist()} but node_heights has {obs['H'][..., n:].tolist()}")
            yk = y1.detach().clone()
            ld1 = tr.log_abs_det_jacobian(xin, y1)
            untouched("log_abs_det_jacobian (x)", xin, x0)
            untouched("log_abs_det_jacobian (y)", y1, yk)
            ld2 = tr.log_abs_det_jacobian(xin, y1)
            if not same_bits(ld1.detach(), ld2.detach()):
                unstable.append(f"log_abs_det_jacobian first {ld1.tolist()} then {ld2.tolist()}")
            # the three evaluation modes must agree bit for bit
            for other in ("no_grad", "grad", "requires_grad"):
                if other == case.get("mode"):
                    continue
                xo = x0.clone()
                if other == "requires_grad":
                    xo.requires_grad_(True)
                with grad_ctx({"mode": other}):
                    yo = tr(xo)
                    lo_ = tr.log_abs_det_jacobian(xo, yo)
                if not (same_bits(yo.detach(), y1.detach()) and same_bits(lo_.detach(), ld1.detach())):
                    unstable.append(f"transform(x) under {other} gives {yo.tolist()} but {y1.tolist()} under {case.get('mode')}")
                    break
        except Exception as e:
            obs["direct_error"] = f"{type(e).__name__}: {str(e)[:160]}"
    obs["mutated"], obs["unstable"] = mutated, unstable
    step("edges", lambda: G.dendropy_edges(m))
    return obs


def rows_of(tensor, batched):
    return tensor.tolist() if batched else [tensor.tolist()]


def oracle(case, obs):
    """the property evaluated on what the implementation returned -> [(clause, what)]"""
    bad = []
    kind, batched = case["kind"], case["batched"]
    if "build_error" in obs:
        return [("build", "constructing the model raises " + obs["build_error"])]
    n = obs["n"]
    for k in ("H", "bl", "edges"):
        if k + "_error" in obs:
            bad.append(("forward", f"{k} raises {obs[k + '_error']}"))
    if bad:
        return bad
    H, bl = obs["H"], obs["bl"]
    want_shape = tuple(obs["x"].shape[:-1])
    if tuple(H.shape) != want_shape + (2 * n - 1,) or tuple(bl.shape) != want_shape + (2 * n - 2,):
        return [("shape", f"node_heights {tuple(H.shape)} / branch_lengths {tuple(bl.shape)} for parameter shape {tuple(obs['x'].shape)}")]
    leaf = G.expected_leaf_heights(case["dates"])
    Hr, blr = rows_of(H, batched), rows_of(bl, batched)
    xr = rows_of(obs["x"], batched)
    t = G.parse_paren(case["tree"])
    for b, (h, br) in enumerate(zip(Hr, blr)):
        S = max(1.0, max(abs(v) for v in h))
        slack = 8 * EPS * S
        for i in range(n):
            if abs(h[i] - leaf[i]) > leaf_tol(leaf[i], H.dtype):
                bad.append(("tips", f"tip {i} at height {h[i]!r} but sampled at {leaf[i]!r} ({H.dtype}; row {b})"))
                break
        for p, c in obs["edges"]:
            if not (h[p] >= h[c] - slack):
                bad.append(("order", f"node {p} (height {h[p]}) is younger than its child {c} (height {h[c]}) (row {b})"))
                break
        for p, c in obs["edges"]:
            if br[c] != h[p] - h[c] or not (br[c] >= -slack):
                bad.append(("branch", f"branch {c}: length {br[c]} but parent-child = {h[p] - h[c]} (row {b})"))
                break
    mode = case.get("mode", "grad")
    for w in obs.get("mutated", [])[:1]:
        bad.append((f"input-mutated:{mode}", w + f" ({mode})"))
    for w in obs.get("unstable", [])[:1]:
        bad.append((f"not-repeatable:{mode}", w + f" ({mode})"))
    if "direct_error" in obs:
        bad.append((f"direct-call:{mode}", f"transform(x) / log_abs_det_jacobian raises {obs['direct_error']} ({mode})"))
    if "inv_error" in obs:
        bad.append(("inverse", f"inverse raises {obs['inv_error']}"))
    else:
        inv = obs["inv"]
        if tuple(inv.shape) != tuple(obs["x"].shape):
            bad.append(("inverse", f"inverse has shape {tuple(inv.shape)} for parameters of shape {tuple(obs['x'].shape)}"))
        else:
            ir = rows_of(inv, batched)
            for b, (h, xrow, irow) in enumerate(zip(Hr, xr, ir)):
                tols = inverse_tolerances(kind, t, n, obs["edges"], h, xrow)
                worst = [(j, irow[j], xrow[j]) for j in range(n - 1)
                         if not (abs(irow[j] - xrow[j]) <= tols[j])]
                if worst:
                    j, got, want = worst[0]
                    bad.append(("inverse", f"inverse returns {got!r} for parameter {j} = {want!r} "
                                           f"(relative error {abs(got - want) / abs(want) if want else float('inf'):.3g}; row {b}, "
                                           f"parameters {xrow})"))
                    break
    return bad


EPS = 2.220446049250313e-16


def leaf_tol(h, dtype=torch.float64):
    """TimeTreeModel gives sampling_times the dtype of the internal heights: with float64 heights a tip must equal
    max(date) − date (or the age) computed in double EXACTLY; with float32 heights it is that double rounded to float32
    (half an ulp of float32)."""
    if dtype == torch.float64:
        return 0.0
    if float(torch.tensor(h, dtype=torch.float32).item()) == h:
        return 0.0
    return 2.0 ** -24 * abs(h) + 1e-45


def inverse_tolerances(kind, t, n, edges, h, xrow):
    """how far inverse(forward(x)) may be from x in float64: relative 1e-9 plus the rounding of the heights
    amplified by the division (ratio transform) — so a ratio of 1e-9 must come back as 1e-9, not as 0 or 1e-6"""
    S = max(1.0, max(abs(v) for v in h))
    if kind != "ratio":
        return [1e-9 * abs(x) + 32 * EPS * S for x in xrow]
    _e, _root, below = G.independent_index(t, n)
    parent = {c: p for p, c in edges}
    tol = [0.0] * (n - 1)
    for c in range(n, 2 * n - 2):
        bc = max(h[i] for i in below[c])
        d = h[parent[c]] - bc
        tol[c - n] = 1e-9 * abs(xrow[c - n]) + 64 * EPS * S / d if d > 0 else float("inf")
    tol[n - 2] = 1e-12 * abs(xrow[n - 2]) + 4 * EPS * S
    return tol


def rel_close(a, b, tol=1e-12):
    return a == b or (a != a and b != b) or abs(a - b) <= tol * max(1.0, abs(a), abs(b))


def correspond(ck: Check, drv, case, obs):
    """Lean model vs implementation for one case"""
    if drv is None or "build_error" in obs:
        return
    t = G.parse_paren(case["tree"])
    n = obs["n"]
    tr = case["tree"]
    kind = case["kind"]
    ident = {"tree": tr, "dates": case["dates"], "kind": kind}

    def mm(what, impl, model):
        ck.mismatch(what, dict(ident, impl=impl, model=model))

    # ---- discrete
    rep = drv.ask(f"trav {n} {tr}")
    if rep == "bad-op":
        mm("model rejects tree", tr, rep)
        return
    parts = dict(p.strip().split(" ", 1) if " " in p.strip() else (p.strip(), "") for p in rep.split("|"))

    def tup(s):
        return [tuple(int(v) for v in e.split(",")) for e in s.split(";")] if s else []

    for key, mkey in (("preorder", "pre"), ("postorder", "post"), ("sorted", "srt")):
        if key in obs and obs[key] != tup(parts[mkey]):
            mm(key, obs[key], tup(parts[mkey]))
    if kind == "ratio":
        if "fwdidx" in obs and obs["fwdidx"] != tup(parts["fwd"]):
            mm("_forward_indices", obs["fwdidx"], tup(parts["fwd"]))
        det = [int(v) for v in parts["det"].split(",")] if parts["det"] else []
        if "detidx" in obs and obs["detidx"] != det:
            mm("_det_indices", obs["detidx"], det)
    # ---- leaf heights, bounds (exact)
    dates_s = " ".join(G.rat_str(d) for d in case["dates"])
    leaf_m = [Fraction(v) for v in drv.ask(f"leaf R | {dates_s}").split()]
    if "sampling" in obs:
        # the model subtracts exactly; the implementation's double subtraction max − date may round: half an ulp
        if len(obs["sampling"]) != len(leaf_m) or any(
                abs(a - float(m_)) > 2.0 ** -53 * abs(float(m_)) * 1.0000001 for a, m_ in zip(obs["sampling"], leaf_m)):
            mm("sampling_times", obs["sampling"], [float(v) for v in leaf_m])
        elif [Fraction(v) for v in obs["sampling"]] != leaf_m:
            # decimal dates whose difference is not a double: from here on the model is fed the (correctly rounded)
            # sampling times the implementation carries
            leaf_m = [Fraction(v) for v in obs["sampling"]]
            ck.bucket("dates/double-rounded-difference")
    s_s = " ".join(G.rat_str(v) for v in leaf_m)
    if kind == "ratio" and "bounds" in obs:
        b_m = [Fraction(v) for v in drv.ask(f"bounds R {n} {tr} | {s_s}").split()]
        if [Fraction(v) for v in obs["bounds"]] != b_m:
            mm("_bounds", obs["bounds"], [str(v) for v in b_m])
    if "H" not in obs:
        return
    # ---- forward map and branch lengths (bit-exact on dyadic inputs), inverse (Float, 1e-12)
    Hrows = rows_of(obs["H"], case["batched"])
    blrows = rows_of(obs["bl"], case["batched"]) if "bl" in obs else [None] * len(Hrows)
    invrows = None
    if "inv" in obs and tuple(obs["inv"].shape) == tuple(obs["x"].shape):
        invrows = rows_of(obs["inv"], case["batched"])
    smooth = case.get("k")
    for b, xrow in enumerate(case["x"]):
        h_impl = Hrows[b][n:]
        if smooth:
            kbits = f2h(smooth)
            x_f = " ".join(f2h(v) for v in xrow)
            s_f = " ".join(f2h(float(v)) for v in leaf_m)
            h_m = [h2f(v) for v in drv.ask(f"dfwd F {n} {tr} {kbits} | {s_f} | {x_f}").split()]
            # sampling_times carry the dtype of the heights (float64 here): logsumexp over tips is double too
            tol32 = 1e-10 * max(1.0, max(abs(v) for v in h_impl))
            if not all(abs(a - c) <= tol32 for a, c in zip(h_impl, h_m)) or len(h_m) != n - 1:
                mm("difference forward (smooth max)", h_impl, h_m)
            if invrows:
                y_f = " ".join(f2h(v) for v in h_impl)
                i_m = [h2f(v) for v in drv.ask(f"dinv F {n} {tr} {kbits} | {s_f} | {y_f}").split()]
                if not all(abs(a - c) <= tol32 for a, c in zip(invrows[b], i_m)):
                    mm("difference inverse (smooth max)", invrows[b], i_m)
            continue
        x_s = " ".join(G.rat_str(v) for v in xrow)
        op = "rfwd" if kind == "ratio" else "dfwd"
        k0 = "" if kind == "ratio" else " 0"
        h_m = [Fraction(v) for v in drv.ask(f"{op} R {n} {tr}{k0} | {s_s} | {x_s}").split()]
        # exact only when the sampling times themselves are short dyadics: since sampling_times are kept in the
        # dtype of the heights (float64) a decimal date makes the float64 subtractions round
        exact = G.exact_ok(h_m) and G.exact_ok(leaf_m)
        ck.bucket("forward/exact" if exact else "forward/tolerance")
        if len(h_m) != n - 1:
            mm("forward length", len(h_impl), len(h_m))
            continue
        if exact:
            if [Fraction(v) for v in h_impl] != h_m:
                mm(f"{kind} forward (exact)", h_impl, [str(v) for v in h_m])
        elif not all(rel_close(a, float(c)) for a, c in zip(h_impl, h_m)):
            mm(f"{kind} forward", h_impl, [float(v) for v in h_m])
        if blrows[b] is not None:
            hm_s = " ".join(G.rat_str(v) for v in h_m)
            bl_m = [Fraction(v) for v in drv.ask(f"bl R {n} {tr} | {s_s} | {hm_s}").split()]
            if exact:
                if [Fraction(v) for v in blrows[b]] != bl_m:
                    mm("branch_lengths (exact)", blrows[b], [str(v) for v in bl_m])
            elif not all(rel_close(a, float(c)) for a, c in zip(blrows[b], bl_m)):
                mm("branch_lengths", blrows[b], [float(v) for v in bl_m])
        if invrows:
            if kind == "ratio":
                y_f = " ".join(f2h(v) for v in h_impl)
                s_f = " ".join(f2h(float(v)) for v in leaf_m)
                i_m = [h2f(v) for v in drv.ask(f"rinv F {n} {tr} | {s_f} | {y_f}").split()]
                if not all(rel_close(a, c) for a, c in zip(invrows[b], i_m)) or len(i_m) != n - 1:
                    mm("ratio inverse", invrows[b], i_m)
            else:
                y_s = " ".join(G.rat_str(v) for v in h_impl)
                i_m = [Fraction(v) for v in drv.ask(f"dinv R {n} {tr} 0 | {s_s} | {y_s}").split()]
                if exact:
                    if [Fraction(v) for v in invrows[b]] != i_m:
                        mm("difference inverse (exact)", invrows[b], [str(v) for v in i_m])
                elif not all(abs(a - float(c)) <= 32 * EPS * max(1.0, max(abs(v) for v in h_impl))
                             for a, c in zip(invrows[b], i_m)):
                    mm("difference inverse", invrows[b], [float(v) for v in i_m])


# ----------------------------------------------------------------------------- device moves
MOVES = {
    "cpu": lambda m: m.cpu(),
    "to": lambda m: m.to(torch.float64),
    "to-device": lambda m: m.to("cpu"),
}
if torch.cuda.is_available():  # pragma: no cover
    MOVES["cuda"] = lambda m: m.cuda()


def device_case(kind, move, t, dates, x):
    """build, move, then read: -> dict(before, after, failures of the validity oracle after the move)"""
    case = {"tree": G.paren(t), "dates": dates, "kind": kind, "x": [x], "batched": False}
    res = {"case": case, "move": move}
    try:
        m = G.make_reparam(t, dates, torch.tensor(x, dtype=DT), kind)
        res["before"] = KIND_OF.get(type(m.transform).__name__, type(m.transform).__name__)
        MOVES[move](m)
        res["after"] = KIND_OF.get(type(m.transform).__name__, type(m.transform).__name__)
        obs = {"n": G.ntips(t), "model": m, "x": torch.tensor(x, dtype=DT)}
        obs["H"] = m.node_heights.detach().clone()
        obs["bl"] = m.branch_lengths().detach().clone()
        obs["edges"] = G.dendropy_edges(m)
        obs["inv"] = m.transform.inv(obs["H"][..., obs["n"]:]).detach().clone()
        res["oracle"] = oracle(case, obs)
    except Exception as e:
        res["error"] = f"{type(e).__name__}: {str(e)[:160]}"
    return res



# ----------------------------------------------------------------------------- live models, update histories
STYLES = {"ratio": ("plain", "cat", "transformed", "flexible"), "difference": ("plain", "json", "transformed", "flexible")}


def taxa_json(dates):
    return {"id": "taxa", "type": "Taxa",
            "taxa": [{"id": f"T{i}", "type": "Taxon", "attributes": {"date": d}} for i, d in enumerate(dates)]}


def pjson(id_, values):
    return {"id": id_, "type": "Parameter", "tensor": values, "dtype": "torch.float64"}


def tjson(id_, transform, x):
    return {"id": id_, "type": "TransformedParameter", "transform": transform, "x": x}


def build_live(kind, style, t, dates, rows, batched):
    """a LIVE ReparameterizedTimeTreeModel. Returns (model, leaves) where leaves is a list of
    (Parameter that an optimiser would own, function values->list giving the constrained slice it stands for,
     column slice of the tree's parameter vector)."""
    from torchtree import Parameter
    from torchtree.evolution.tree_model import ReparameterizedTimeTreeModel

    n = G.ntips(t)
    val = rows if batched else rows[0]
    cols = lambda a, b: ([r[a:b] for r in rows] if batched else rows[0][a:b])  # noqa: E731
    if style == "flexible":
        # a time tree whose internal heights are a TransformedParameter over a node-height transform of that
        # same tree (the configuration test/test_tree_height_transform.py builds)
        from torchtree.evolution.tree_model_flexible import FlexibleTimeTreeModel

        dic = {}
        cls_, arg = (("GeneralNodeHeightTransform", "tree") if kind == "ratio"
                     else ("DifferenceNodeHeightTransform", "tree_model"))
        js = {"id": "tree", "type": "FlexibleTimeTreeModel", "newick": G.newick(t), "taxa": taxa_json(dates),
              "internal_heights": dict(tjson("heights", "torchtree.evolution.tree_height_transform." + cls_,
                                             pjson("heights.x", val)), parameters={arg: "tree"})}
        m = FlexibleTimeTreeModel.from_json(js, dic)
        m.transform = dic["heights"].transform  # handle for the harness only
        return m, [(dic["heights.x"], "id", (0, n - 1))]
    if style == "plain":
        m = G.make_reparam(t, dates, torch.tensor(val, dtype=DT), kind)
        p = G.heights_param(m)
        return m, [(p, "id", (0, n - 1))]
    dic = {}
    js = {"id": "tree", "type": "ReparameterizedTimeTreeModel", "newick": G.newick(t), "taxa": taxa_json(dates)}
    if kind == "ratio":
        if style == "cat":
            js["ratios"] = pjson("ratios", cols(0, n - 2))
            js["root_height"] = pjson("root_height", cols(n - 2, n - 1))
            kinds = ("id", "id")
        else:
            u = torch.logit(torch.tensor(cols(0, n - 2), dtype=DT)).tolist()
            v = torch.log(torch.tensor(cols(n - 2, n - 1), dtype=DT)).tolist()
            js["ratios"] = tjson("ratios", "torch.distributions.SigmoidTransform", pjson("ratios.unres", u))
            js["root_height"] = tjson("root_height", "torch.distributions.ExpTransform", pjson("root_height.unres", v))
            kinds = ("sigmoid", "exp")
        m = ReparameterizedTimeTreeModel.from_json(js, dic)
        names = ("ratios", "root_height") if style == "cat" else ("ratios.unres", "root_height.unres")
        return m, [(dic[names[0]], kinds[0], (0, n - 2)), (dic[names[1]], kinds[1], (n - 2, n - 1))]
    if style == "json":
        js["shifts"] = pjson("shifts", cols(0, n - 1))
        m = ReparameterizedTimeTreeModel.from_json(js, dic)
        return m, [(dic["shifts"], "id", (0, n - 1))]
    u = torch.log(torch.tensor(cols(0, n - 1), dtype=DT)).tolist()
    js["shifts"] = tjson("shifts", "torch.distributions.ExpTransform", pjson("shifts.unres", u))
    m = ReparameterizedTimeTreeModel.from_json(js, dic)
    return m, [(dic["shifts.unres"], "exp", (0, n - 1))]


def to_unconstrained(kind, values):
    v = torch.tensor(values, dtype=DT)
    return {"id": v, "sigmoid": torch.logit(v), "exp": torch.log(v)}[kind]


def from_unconstrained(kind, u):
    return {"id": u, "sigmoid": torch.sigmoid(u), "exp": torch.exp(u)}[kind]


def live_history(ck: Check, drv, kind, style, t, dates, batched, n_updates, rng):
    """-> list of (clause, what, replay-steps) failures; also runs the Lean correspondence per step"""
    n = G.ntips(t)
    tr = G.paren(t)
    B = rng.randrange(2, 4) if batched else 1
    rows = draw_params(kind, t, dates, rng, B)
    steps = []
    fails = []
    try:
        m, leaves = build_live(kind, style, t, dates, rows, batched)
        # what an observer reads before any update (fills every cache)
        _ = m.node_heights, m.branch_lengths()
    except Exception as e:
        return [("build", f"building the live model raises {type(e).__name__}: {str(e)[:120]}", steps)], steps
    cur = [list(r) for r in rows]
    eval_mode = rng.choice(["no_grad", "no_grad", "grad"])  # how the observer reads the model
    pristine = {i: lf[0].tensor.detach().clone() for i, lf in enumerate(leaves)}
    for k in range(n_updates):
        leaf_i = rng.randrange(len(leaves))
        p, pk, (a, b) = leaves[leaf_i]
        new_rows = draw_params(kind, t, dates, rng, B, boundary=0.25 if len(leaves) == 1 else 0.0)
        mode = rng.choice(["assign", "inplace", "inplace"])
        step = {"leaf": leaf_i, "mode": mode, "values": [r[a:b] for r in new_rows]}
        steps.append(step)
        vals = [r[a:b] for r in new_rows] if batched else new_rows[0][a:b]
        u = to_unconstrained(pk, vals)
        try:
            if mode == "assign":
                p.tensor = u
            else:  # what torchtree.optim.Optimizer does after optimizer.step()
                with torch.no_grad():
                    p.tensor.copy_(u)
                p.fire_parameter_changed()
            expect = from_unconstrained(pk, u)
            exp_rows = expect.tolist() if batched else [expect.tolist()]
            for r, e in zip(cur, exp_rows):
                r[a:b] = e
            pristine[leaf_i] = u.detach().clone()
            with grad_ctx({"mode": eval_mode}):
                H = m.node_heights.detach().clone()
                bl = m.branch_lengths().detach().clone()
                inv = m.transform.inv(H[..., n:]).detach().clone()
                # every Parameter still holds what was put into it; asking again gives the same answer
                for li, lf in enumerate(leaves):
                    if not same_bits(lf[0].tensor.detach(), pristine[li]):
                        fails.append((f"input-mutated:{eval_mode}",
                                      f"after update {k} ({mode}) reading node_heights/branch_lengths ({eval_mode}) changed "
                                      f"parameter leaf {li} from {pristine[li].tolist()} to {lf[0].tensor.tolist()}", list(steps)))
                        break
                p.fire_parameter_changed()
                H2 = m.node_heights.detach().clone()
                if not same_bits(H2, H):
                    fails.append((f"not-repeatable:{eval_mode}",
                                  f"after update {k} ({mode}) node_heights is {H.tolist()} and, asked again ({eval_mode}), "
                                  f"{H2.tolist()}", list(steps)))
            edges = G.dendropy_edges(m)
        except RecursionError:
            fails.append(("update-recursion", f"update {k} ({mode}) recurses without end", list(steps)))
            break
        except Exception as e:
            fails.append(("update-raises", f"update {k} ({mode}) raises {type(e).__name__}: {str(e)[:120]}", list(steps)))
            break
        case = {"tree": tr, "dates": dates, "kind": kind, "x": [list(r) for r in cur], "batched": batched}
        xt = torch.tensor(cur if batched else cur[0], dtype=DT)
        obs = {"n": n, "x": xt, "H": H, "bl": bl, "inv": inv, "edges": edges}
        for clause, what in oracle(case, obs):
            fails.append((clause, f"after update {k} ({mode} of leaf {leaf_i}): {what}", list(steps)))
        # fresh rebuild at the current values: a live model must agree with it
        try:
            fresh = G.make_reparam(t, dates, xt, kind)
            Hf, blf = fresh.node_heights, fresh.branch_lengths()
            tol = 0 if pk == "id" and style != "transformed" else 1e-12
            if not (torch.allclose(H, Hf, rtol=tol, atol=tol) and torch.allclose(bl, blf, rtol=tol, atol=tol)):
                fails.append(("stale", f"after update {k} ({mode} of leaf {leaf_i}) node_heights/branch_lengths are "
                              f"{H.tolist()} / {bl.tolist()} but a model built at the current values has "
                              f"{Hf.tolist()} / {blf.tolist()}", list(steps)))
        except Exception as e:
            fails.append(("fresh", f"fresh model raises {type(e).__name__}: {e}", list(steps)))
        # Lean model at the current values
        if drv is not None:
            try:
                s_f = " ".join(f2h(float(v)) for v in m.sampling_times.tolist())
                Hr = rows_of(H, batched)
                blr = rows_of(bl, batched)
                for bi, xrow in enumerate(cur):
                    x_f = " ".join(f2h(v) for v in xrow)
                    op = f"rfwd F {n} {tr}" if kind == "ratio" else f"dfwd F {n} {tr} 0"
                    h_m = [h2f(v) for v in drv.ask(f"{op} | {s_f} | {x_f}").split()]
                    h_s = " ".join(f2h(v) for v in h_m)
                    bl_m = [h2f(v) for v in drv.ask(f"bl F {n} {tr} | {s_f} | {h_s}").split()]
                    if not all(rel_close(a_, c_) for a_, c_ in zip(Hr[bi][n:], h_m)) or len(h_m) != n - 1:
                        ck.mismatch("live model: heights after update differ from the Lean model",
                                    {"case": case, "steps": list(steps), "impl": Hr[bi][n:], "model": h_m})
                    elif not all(rel_close(a_, c_) for a_, c_ in zip(blr[bi], bl_m)):
                        ck.mismatch("live model: branch lengths after update differ from the Lean model",
                                    {"case": case, "steps": list(steps), "impl": blr[bi], "model": bl_m})
            except Exception as e:
                ck.mismatch("correspondence step failed", {"error": f"{type(e).__name__}: {e}"})
    return fails, {"tree": tr, "dates": dates, "kind": kind, "style": style, "batched": batched,
                   "x": rows, "steps": steps, "eval": eval_mode}


def replay_live(obj):
    """re-execute a recorded update history on a live model"""
    t = G.parse_paren(obj["tree"])
    n = G.ntips(t)
    kind, style, batched, dates = obj["kind"], obj["style"], obj["batched"], obj["dates"]
    rows = obj["x"]
    bad = []
    try:
        m, leaves = build_live(kind, style, t, dates, rows, batched)
        _ = m.node_heights, m.branch_lengths()
    except Exception as e:
        print("building the live model raises", type(e).__name__, e)
        return 1
    cur = [list(r) for r in rows]
    for k, st in enumerate(obj["steps"]):
        p, pk, (a, b) = leaves[st["leaf"]]
        vals = st["values"] if batched else st["values"][0]
        u = to_unconstrained(pk, vals)
        try:
            if st["mode"] == "assign":
                p.tensor = u
            else:
                with torch.no_grad():
                    p.tensor.copy_(u)
                p.fire_parameter_changed()
            e_rows = from_unconstrained(pk, u).tolist() if batched else [from_unconstrained(pk, u).tolist()]
            for r, e in zip(cur, e_rows):
                r[a:b] = e
            u0 = u.detach().clone()
            with grad_ctx({"mode": obj.get("eval", "grad")}):
                H = m.node_heights.detach().clone()
                bl = m.branch_lengths().detach().clone()
                inv = m.transform.inv(H[..., n:]).detach().clone()
                if not same_bits(p.tensor.detach(), u0):
                    bad.append("input-mutated")
                    print(f"  VIOLATES [input-mutated]: reading the model ({obj.get('eval', 'grad')}) changed the parameter "
                          f"from {u0.tolist()} to {p.tensor.tolist()}")
                p.fire_parameter_changed()
                H2 = m.node_heights.detach().clone()
                if not same_bits(H, H2):
                    bad.append("not-repeatable")
                    print(f"  VIOLATES [not-repeatable]: node_heights {H.tolist()} then {H2.tolist()}")
        except RecursionError:
            print(f"update {k} ({st['mode']}): RecursionError")
            return 1
        except Exception as e:
            print(f"update {k} ({st['mode']}): raises {type(e).__name__}: {e}")
            return 1
        xt = torch.tensor(cur if batched else cur[0], dtype=DT)
        case = {"tree": obj["tree"], "dates": dates, "kind": kind, "x": cur, "batched": batched}
        obs = {"n": n, "x": xt, "H": H, "bl": bl, "inv": inv, "edges": G.dendropy_edges(m)}
        fresh = G.make_reparam(t, dates, xt, kind)
        print(f"update {k} ({st['mode']} leaf {st['leaf']}): parameters {cur}\n  live  node_heights {H.tolist()}\n"
              f"  fresh node_heights {fresh.node_heights.tolist()}")
        for clause, what in oracle(case, obs):
            bad.append(clause)
            print(f"  VIOLATES [{clause}]: {what}")
        if not torch.allclose(H, fresh.node_heights, rtol=1e-12, atol=1e-12) or not torch.allclose(
                bl, fresh.branch_lengths(), rtol=1e-12, atol=1e-12):
            bad.append("stale")
            print("  VIOLATES [stale]: the live model does not reflect its current parameters")
    print("VIOLATES" if bad else "property holds on this history")
    return 1 if bad else 0



# ----------------------------------------------------------------------------- keep_branch_lengths
def kbl_newick(t, n, lengths):
    """Newick with branch lengths; lengths[idx] for the post-order numbering of independent_index"""
    counter = [n]

    def go(u):
        if not isinstance(u, tuple):
            return f"T{u}:{lengths[u]!r}", u
        a, ia = go(u[0])
        b, ib = go(u[1])
        me = counter[0]
        counter[0] += 1
        return f"({a},{b})" + (f":{lengths[me]!r}" if me in lengths else ""), me

    return go(t)[0] + ";"


def kbl_case(rng):
    """a consistently dated time tree: valid heights -> branch lengths -> Newick; the models are then built
    with keep_branch_lengths and must reproduce it"""
    n = rng.randrange(3, 8)
    t = G.random_flip(G.random_topology(n, rng), rng)
    schemes = G.date_schemes(n, rng)
    sname = rng.choice(["calendar-decimal", "ages-decimal", "calendar", "ages", "forward-max0", "mixed-signs",
                        "negative-only", "forward-max0"])
    dates = schemes[sname]
    leaf = G.expected_leaf_heights(dates)
    edges, root, below = G.independent_index(t, n)
    parent = {c: p for p, c in edges}
    for _try in range(200):
        H = {i: leaf[i] for i in range(n)}
        H[root] = max(leaf) + rng.uniform(0.5, 5.0)
        for v in range(2 * n - 3, n - 1, -1):  # parents have larger indices
            b = max(leaf[i] for i in below[v])
            H[v] = b + rng.uniform(0.15, 0.85) * (H[parent[v]] - b)
        lengths = {c: H[p] - H[c] for p, c in edges}
        if min(lengths.values()) >= 0.02:
            break
    return {"type": "kbl", "tree": G.paren(t), "dates": dates, "scheme": sname, "n": n,
            "heights": [H[i] for i in range(2 * n - 1)], "newick": kbl_newick(t, n, lengths)}


def run_kbl(case):
    """-> [(clause, what)] for the two model classes built from the dated Newick with keep_branch_lengths"""
    from torchtree.evolution.tree_model import ReparameterizedTimeTreeModel, TimeTreeModel

    n, dates, Hexp = case["n"], case["dates"], case["heights"]
    leaf = G.expected_leaf_heights(dates)
    t = G.parse_paren(case["tree"])
    edges, _root, _below = G.independent_index(t, n)
    bad = []
    builds = {
        "ReparameterizedTimeTreeModel": lambda dic: ReparameterizedTimeTreeModel.from_json(
            {"id": "tree", "type": "ReparameterizedTimeTreeModel", "newick": case["newick"], "taxa": taxa_json(dates),
             "keep_branch_lengths": True, "ratios": pjson("ratios", [0.5] * (n - 2)),
             "root_height": pjson("root_height", [max(leaf) + 1.0])}, dic),
        "TimeTreeModel": lambda dic: TimeTreeModel.from_json(
            {"id": "tree", "type": "TimeTreeModel", "newick": case["newick"], "taxa": taxa_json(dates),
             "keep_branch_lengths": True, "internal_heights": pjson("heights", [max(leaf) + 1.0] * (n - 1))}, dic),
    }
    for cls, build in builds.items():
        try:
            m = build({})
            h = m.node_heights.tolist()
            br = m.branch_lengths().tolist()
        except Exception as e:
            bad.append((f"{cls}:raises", f"{type(e).__name__}: {str(e)[:140]}"))
            continue
        S = max(1.0, max(abs(v) for v in Hexp))
        for i in range(n):
            if abs(h[i] - leaf[i]) > leaf_tol(leaf[i], m.node_heights.dtype):
                bad.append((f"{cls}:tips", f"tip {i} at height {h[i]!r} but sampled at {leaf[i]!r}"))
                break
        for i in range(n, 2 * n - 1):
            if abs(h[i] - Hexp[i]) > 1e-10 * S:  # heights_from_branch_lengths works in double (floor 1e-6 not reached here)
                bad.append((f"{cls}:heights", f"node {i} at height {h[i]!r}; the dated tree has it at {Hexp[i]!r}"))
                break
        for p, c in edges:
            if not (br[c] >= -1e-12 * S) or abs(br[c] - (Hexp[p] - Hexp[c])) > 2e-10 * S:
                bad.append((f"{cls}:branch", f"branch {c} has length {br[c]!r}; the dated tree has {Hexp[p] - Hexp[c]!r}"))
                break
    return bad


# ----------------------------------------------------------------------------- case streams
def corpus_cases():
    d = VERIF / "corpus" / "C06"
    out = []
    if d.exists():
        for f in sorted(d.glob("*.json")):
            try:
                out.append(json.loads(f.read_text()))
            except ValueError:
                pass
    return out


def generated_cases(ck: Check):
    rng = ck.rng
    max_exh = 6 if ck.thorough() else 5
    for n in range(2, max_exh + 1):
        topos = G.all_topologies(n)
        if n == 6 and not ck.thorough():
            continue
        for ti, t0 in enumerate(topos):
            variants = list(G.flips(t0)) if (n <= 3 or (n == 4 and ck.thorough())) else [G.random_flip(t0, rng)]
            for t in variants:
                schemes = G.date_schemes(n, rng)
                names = list(schemes)
                if n >= 5 and not ck.thorough():
                    names = ["isochronous"] + rng.sample(names[1:], 2)
                elif n == 6:
                    names = rng.sample(names, 2)
                for sname in names:
                    for kind in ("ratio", "difference"):
                        batched = rng.random() < (0.5 if n <= 4 else 0.34)
                        rows = rng.randrange(1, 4) if batched else 1
                        yield {
                            "tree": G.paren(t), "dates": schemes[sname], "scheme": sname, "kind": kind,
                            "x": draw_params(kind, t, schemes[sname], rng, rows), "batched": batched,
                            "origin": f"exhaustive-{n}",
                        }
    # near the boundary of the open domain: tiny / almost-1 ratios on non-root internal nodes (nodes with an
    # internal child from 4 taxa on), root just above the oldest tip, tiny increments; in a batch only some rows
    for n in range(3, max_exh + 1):
        topos = G.all_topologies(n)
        if n >= 5:
            topos = rng.sample(topos, min(len(topos), 120 if ck.thorough() else 40))
        for t0 in topos:
            t = G.random_flip(t0, rng)
            schemes = G.date_schemes(n, rng)
            sname = rng.choice(list(schemes))
            for kind in ("ratio", "difference"):
                batched = rng.random() < 0.4
                rows = rng.randrange(2, 5) if batched else 1
                yield {
                    "tree": G.paren(t), "dates": schemes[sname], "scheme": sname, "kind": kind,
                    "x": draw_params(kind, t, schemes[sname], rng, rows, boundary=0.5 if batched else 1.0),
                    "batched": batched, "origin": "boundary",
                }
    # random larger trees (incl. caterpillars: deepest recursion through the pre-order loop)
    n_rand = 120 if ck.thorough() else 30
    for i in range(n_rand):
        n = rng.randrange(6 if not ck.thorough() else 7, 13 if not ck.thorough() else 33)
        t = G.caterpillar(n) if i % 10 == 0 else G.random_topology(n, rng)
        t = G.random_flip(t, rng)
        schemes = G.date_schemes(n, rng)
        sname = rng.choice(list(schemes))
        for kind in ("ratio", "difference"):
            batched = rng.random() < 0.5
            rows = rng.randrange(2, 5) if batched else 1
            yield {
                "tree": G.paren(t), "dates": schemes[sname], "scheme": sname, "kind": kind,
                "x": draw_params(kind, t, schemes[sname], rng, rows, coarse=(n > 8), boundary=0.3),
                "batched": batched, "origin": "random",
            }
    # smooth-max variant of the difference transform (k > 0)
    for i in range(40 if ck.thorough() else 12):
        n = rng.randrange(2, 9)
        t = G.random_flip(G.random_topology(n, rng), rng)
        schemes = G.date_schemes(n, rng)
        sname = rng.choice(list(schemes))
        batched = i % 2 == 1
        yield {
            "tree": G.paren(t), "dates": schemes[sname], "scheme": sname, "kind": "difference",
            "x": draw_params("difference", t, schemes[sname], rng, 2 if batched else 1), "batched": batched,
            "k": float(rng.choice([1, 2, 4, 8])), "origin": "smooth",
        }


def case_size(case):
    return (len(case["dates"]), len(case["x"]), sum(abs(d) for d in case["dates"]))


# ----------------------------------------------------------------------------- run
def run(ck: Check):
    ck.rule = (
        "one case = one (topology with child order, sampling-date vector, parameterisation, parameter rows, "
        "batched or not) evaluated by the REAL ReparameterizedTimeTreeModel; distinct = distinct (tree, dates, kind, "
        "batched); non-trivial = at least 3 taxa (so at least one ratio / two increments)"
    )
    ck.assumptions += [
        "theorems are over the reals; float64 evaluation is tied by bit-exact agreement on dyadic inputs (forward "
        "maps, bounds, branch lengths) and by 1e-12 agreement for the ratio inverse (one division)",
        "sampling_times carry the dtype of the internal heights: with float64 heights a tip equals max(date) − date (or "
        "the age) computed in double exactly, with float32 heights that value rounded to float32; dates with min 0 are "
        "ages, any other vector is read as calendar dates",
        "dendropy's Newick parser and traversal order are trusted: the model takes the tree as a binary tree whose "
        "child order is the order written",
        "cuda() cannot be executed here (no GPU): its body is covered by the generated table and theorem only",
    ]
    ck.trusted += ["dendropy Newick parsing / traversal order", "torch indexing, argsort, cat, max semantics"]
    lean_src, tr_ok, note, table = tr_devices.translate(REPO)
    if not tr_ok:
        ck.notes.append("translator: " + note)
    ok, broken = ck.lean_side(
        {"TTGen/C06_Devices.lean": lean_src},
        ["TTModel.C06_Heights", "TTGen.C06_Devices", "TTProofs.Props.C06", "drv_c06"],
        "TTProofs/Props/C06.lean",
    )
    ck.extra["translator_recognised_source"] = tr_ok
    ck.extra["device_table"] = [(c, m, list(a)) for c, m, a in table]
    drv = None
    try:
        drv = ck.driver("drv_c06")
    except Exception as e:
        ck.notes.append(f"driver unavailable: {e}")

    failures = {}  # sig -> (size, what, replay)

    def record(sig, what, replay, size):
        if sig not in failures or size < failures[sig][0]:
            failures[sig] = (size, what, replay)

    try:
        # ---- transforms: corpus first, then generated
        stream = [(c, True) for c in corpus_cases() if c.get("type", "transform") == "transform"]
        stream += [(c, False) for c in generated_cases(ck)]
        for case, from_corpus in stream:
            if "mode" not in case:
                case["mode"] = ck.rng.choice(["no_grad", "no_grad", "grad", "requires_grad"])
            ck.bucket("mode/" + case["mode"])
            obs = run_impl(case)
            n = obs["n"]
            key = (case["tree"], tuple(case["dates"]), case["kind"], case["batched"], case.get("k"))
            ck.case(
                key=key, nontrivial=n >= 3,
                sample={k: case[k] for k in ("tree", "dates", "kind", "x", "batched")} if n >= 4 else None,
                bucket=f"{case['kind']}/{'batched' if case['batched'] else 'single'}/n={n if n <= 6 else '7+'}",
            )
            ck.bucket("dates/" + case.get("scheme", "corpus"))
            if case.get("origin") == "boundary":
                ck.bucket("parameters/near-boundary")
            if case.get("k"):
                ck.bucket("difference/smooth-max")
            try:
                correspond(ck, drv, case, obs)
            except Exception as e:  # a malformed reply is a correspondence break, not a harness crash
                ck.mismatch("correspondence step failed", {"case": case, "error": f"{type(e).__name__}: {e}"})
            for clause, what in oracle(case, obs):
                sig = f"{case['kind']}:{clause}:{'batched' if case['batched'] else 'single'}"
                rep = {k: case[k] for k in ("tree", "dates", "kind", "x", "batched", "mode")}
                rep.update({"type": "transform", "k": case.get("k"), "newick": G.newick(G.parse_paren(case["tree"]))})
                record(sig, what, rep, case_size(case))
        # ---- consistently dated trees read with keep_branch_lengths (decimal calendar dates and ages)
        for c in [c for c in corpus_cases() if c.get("type") == "kbl"] + [kbl_case(ck.rng) for _ in range(120 if ck.thorough() else 40)]:
            ck.case(key=("kbl", c["newick"]), bucket=f"keep_branch_lengths/{c.get('scheme', 'corpus')}",
                    sample=c if len(ck.samples) < 5 and c["n"] == 4 else None)
            for clause, what in run_kbl(c):
                record(f"keep_branch_lengths:{clause}", what, c, (c["n"], 1, 0))
        rng = ck.rng
        # ---- how the object under test is reached (fourth-wave checklist): construction routes, dtype regimes,
        #      second instances / deepcopy / moves, batch sizes equal to a dimension + one special row, failure paths
        X.section_routes(ck, rng, record)
        X.section_dtypes(ck, rng, record)
        X.section_instances(ck, rng, record)
        X.section_batches(ck, rng, record, oracle, run_impl)
        X.section_failures(ck, rng, record)

        def kbl_for(t_, dates_, heights_):
            n_ = len(dates_)
            edges_, _r, _b = G.independent_index(t_, n_)
            lengths_ = {c_: heights_[p_] - heights_[c_] for p_, c_ in edges_}
            return run_kbl({"type": "kbl", "tree": G.paren(t_), "dates": dates_, "n": n_, "heights": heights_,
                            "newick": kbl_newick(t_, n_, lengths_)})

        X.section_translation(ck, rng, record, kbl_for)
        X.section_kbl_nonclock(ck, rng, record, kbl_newick)
        X.section_smooth_extreme(ck, rng, record)
        X.section_date_updates(ck, rng, record)
        # dated trees in other time units: above the documented floor of heights_from_branch_lengths (eps = 1e-6 per
        # branch) the tree must come back unchanged; below it the floor acts by design (measured and recorded, not a
        # clause of C06, whose statement is about parameters <-> heights and dates -> tips)
        floor_obs = {}
        for unit in (1e3, 1e-3, 1e-9):
            t_ = G.random_flip(G.random_topology(5, rng), rng)
            dates_ = [v * unit for v in (0.0, 1.5, 0.25, 3.0, 2.0)]
            leaf_ = G.expected_leaf_heights(dates_)
            hts_ = [v for v in X.valid_heights(t_, [d / unit for d in dates_], rng)]
            res_ = kbl_for(t_, dates_, leaf_ + [h * unit for h in hts_])
            ck.case(key=("kbl-unit", unit, G.paren(t_)), bucket=f"keep_branch_lengths/unit={unit:g}")
            floor_obs[f"unit={unit:g}"] = "reproduced" if not res_ else "changed: " + res_[0][1][:120]
            if res_ and unit >= 1e-3:
                record(f"keep_branch_lengths:unit={unit:g}", f"dated tree in time unit {unit:g}: {res_[0][1]}",
                       {"type": "kbl-unit", "unit": unit}, (5, 1, 0))
        ck.extra["keep_branch_lengths_in_other_time_units"] = floor_obs
        ck.extra["tensor_constructors_without_dtype_or_device"] = X.scan_constructors(REPO)
        # ---- live models: update histories (assignment and in-place + notification)
        n_hist = 240 if ck.thorough() else 60
        live_corpus = [c for c in corpus_cases() if c.get("type") == "live"]
        for c in live_corpus:
            rc_fail = []
            try:
                import io, contextlib
                with contextlib.redirect_stdout(io.StringIO()) as buf:
                    rc = replay_live(c)
                if rc:
                    rc_fail = [ln for ln in buf.getvalue().splitlines() if "VIOLATES [" in ln or "Error" in ln][:1]
            except Exception as e:
                rc, rc_fail = 1, [f"{type(e).__name__}: {e}"]
            ck.case(key=("live-corpus", json.dumps(c, sort_keys=True)), bucket="live/corpus")
            if rc:
                record(f"live:{c['kind']}:{c['style']}:corpus", "corpus history fails: " + "; ".join(rc_fail),
                       dict(c, type="live"), (len(c["dates"]), len(c["steps"]), 0))
        for i in range(n_hist):
            kind = ("ratio", "difference")[i % 2]
            style = STYLES[kind][(i // 2) % 4]
            n = rng.randrange(3, 8)
            t = G.random_flip(G.random_topology(n, rng), rng)
            schemes = G.date_schemes(n, rng)
            sname = rng.choice(list(schemes))
            batched = rng.random() < 0.4
            fails, hist = live_history(ck, drv, kind, style, t, schemes[sname], batched, rng.randrange(2, 5), rng)
            ck.case(key=("live", kind, style, hist["tree"] if isinstance(hist, dict) else "", batched, i),
                    bucket=f"live/{kind}/{style}/{'batched' if batched else 'single'}")
            for clause, what, steps in fails:
                rep = dict(hist, steps=steps, type="live") if isinstance(hist, dict) else {"type": "live", "steps": steps}
                record(f"live:{kind}:{style}:{clause}", what, rep, (n, len(steps), 0))
        # ---- device / dtype moves
        dev_stream = [(c["kind"], c["move"], G.parse_paren(c["tree"]), c["dates"], c["x"][0])
                      for c in corpus_cases() if c.get("type") == "device" and c.get("move") in MOVES]
        for kind in ("ratio", "difference"):
            for move in MOVES:
                for rep_i in range(6 if ck.thorough() else 3):
                    n = rng.randrange(3, 7)
                    t = G.random_flip(G.random_topology(n, rng), rng)
                    schemes = G.date_schemes(n, rng)
                    sname = "ages" if rep_i == 0 else rng.choice(list(schemes))
                    dev_stream.append((kind, move, t, schemes[sname], draw_params(kind, t, schemes[sname], rng, 1)[0]))
        for _once in (0,):
            for _once2 in (0,):
                for kind, move, t, dates_, x in dev_stream:
                    res = device_case(kind, move, t, dates_, x)
                    ck.case(key=("device", kind, move, G.paren(t), tuple(dates_)), bucket=f"device/{kind}/{move}")
                    tname = "to" if move.startswith("to") else move
                    if drv is not None:
                        pred = drv.ask(f"dev ReparameterizedTimeTreeModel {tname} {kind}")
                        if "after" in res and pred != res["after"]:
                            ck.mismatch("device table differs from what the method does",
                                        {"move": move, "kind": kind, "impl_after": res["after"], "table": pred})
                        arg = "ratios_root_height" if kind == "ratio" else "shifts"
                        pred0 = drv.ask(f"init ReparameterizedTimeTreeModel {arg}")
                        if "before" in res and pred0 != res["before"]:
                            ck.mismatch("constructor table differs", {"kind": kind, "impl": res["before"], "table": pred0})
                    replay = dict(res["case"], type="device", move=move)
                    size = case_size(res["case"])
                    if "error" in res:
                        record(f"ReparameterizedTimeTreeModel.{tname}:{kind}:raises", f"after {move}() the model raises {res['error']}", replay, size)
                    elif res["after"] != res["before"]:
                        cons = "; ".join(w for _c, w in res.get("oracle", [])[:2])
                        record(
                            f"ReparameterizedTimeTreeModel.{tname}:{kind}:kind-changed",
                            f"{move}() turns a {res['before']}-parameterised model into a {res['after']} one"
                            + (f" ({cons})" if cons else ""), replay, size)
                    elif res.get("oracle"):
                        record(f"ReparameterizedTimeTreeModel.{tname}:{kind}:invalid-after-move",
                               f"after {move}(): " + res["oracle"][0][1], replay, size)
    finally:
        if drv:
            drv.close()

    # ---- verdict
    ranked = sorted(failures.items(), key=lambda kv: (kv[1][0], kv[0]))
    for sig, (_size, what, replay) in ranked[:6]:  # the smallest failing inputs; the rest is listed in the evidence
        replay = dict(replay, broken_obligations=broken, replay_cmd="./check C06 --replay <this file>")
        ck.violation(sig, what, replay)
    if len(ranked) > 6:
        ck.extra["further_failing_signatures"] = [f"{sig}: {v[1][:160]}" for sig, v in ranked[6:40]]
    if not failures and (not ok or ck.mismatches):
        ck.violation(
            "C06:unproved",
            "C06 theorems or the model/implementation correspondence no longer check",
            {"broken_obligations": broken, "mismatches": ck.mismatches[:5], "translator_note": note},
            found_input=False,
        )


# ----------------------------------------------------------------------------- replay
def replay(path: str) -> int:
    obj = json.loads(Path(path).read_text())
    typ = obj.get("type")
    if typ == "transform":
        case = {k: obj[k] for k in ("tree", "dates", "kind", "x", "batched")}
        case["k"] = obj.get("k")
        case["mode"] = obj.get("mode", "grad")
        obs = run_impl(case)
        bad = oracle(case, obs)
        print(f"tree {obj.get('newick', case['tree'])} dates {case['dates']} {case['kind']} parameters {case['x']}"
              f" batched={case['batched']}")
        if "H" in obs:
            print("node_heights:", obs["H"].tolist())
        for clause, what in bad:
            print(f"VIOLATES [{clause}]: {what}")
        if not bad:
            print("property holds on this input")
        return 1 if bad else 0
    if typ in ("route", "route-tt"):
        rc = X.replay_route(obj)
        print("VIOLATES" if rc else "property holds on this input")
        return rc
    if typ == "date-update":
        rc = X.replay_date_update(obj)
        print("VIOLATES" if rc else "property holds on this history")
        return rc
    if typ == "kbl-nonclock":
        bad, newick = X.run_nonclock(obj, kbl_newick)
        print(f"{newick} dates {obj['dates']} ({obj['mode']} branch lengths) read with keep_branch_lengths")
        for name, w in bad:
            print(f"VIOLATES [{name}]: {w}")
        print("VIOLATES" if bad else "property holds on this input")
        return 1 if bad else 0
    if typ == "smooth-extreme":
        found = []

        class _C:
            samples = []

            def thorough(self):
                return False

            def case(self, *a, **k):
                pass

        X.section_smooth_extreme(_C(), __import__("random").Random(0), lambda sig, what, rep, size: found.append(what))
        for w in found[:4]:
            print("VIOLATES:", w)
        print("VIOLATES" if found else "property holds on the smooth-maximum sweep")
        return 1 if found else 0
    if typ == "translation":
        t = G.parse_paren(obj["tree"])
        base, dates, kind, x = obj["base"], obj["dates"], obj["kind"], obj["x"]
        ref = X.observables(G.make_reparam(t, base, torch.tensor(x, dtype=DT), kind))
        got = X.observables(G.make_reparam(t, dates, torch.tensor(x, dtype=DT), kind))
        print(f"tree {obj['tree']} {kind} parameters {x}\n dates {base} -> heights {ref['H'].tolist()}\n dates {dates} -> heights {got['H'].tolist()}")
        bad = X.same_as_reference(ref, got, 0.0) if min(dates) != 0.0 else []
        bad += [w for _c, w in X.property_on(G.make_reparam(t, dates, torch.tensor(x, dtype=DT), kind), dates)]
        edges, _r, _b = G.independent_index(t, len(dates))
        for w in bad:
            print("VIOLATES:", w)
        print("VIOLATES" if bad else "property holds on this input (constructor route; ./check C06 re-runs every route)")
        return 1 if bad else 0
    if typ in ("dtype", "instances", "failure"):
        class _Ck:  # minimal stand-in: re-run the section and report what it records
            def __init__(self):
                self.extra, self.rng, self.samples = {}, __import__("random").Random(0), []

            def thorough(self):
                return False

            def case(self, *a, **k):
                pass

        found = []
        sec = {"dtype": X.section_dtypes, "instances": X.section_instances, "failure": X.section_failures}[typ]
        sec(_Ck(), __import__("random").Random(obj.get("seed", 0)), lambda sig, what, rep, size: found.append((sig, what)))
        print("recorded input:", {k: v for k, v in obj.items() if k not in ("broken_obligations",)})
        for sig, what in found[:5]:
            print(f"VIOLATES [{sig}]: {what}")
        print("VIOLATES" if found else "property holds on the re-drawn inputs of this section")
        return 1 if found else 0
    if typ in ("route", "route-tt"):
        rc = X.replay_route(obj)
        print("VIOLATES" if rc else "property holds on this input")
        return rc
    if typ in ("dtype", "instances", "failure"):
        class _Ck:  # minimal stand-in: re-run the section and report what it records
            def __init__(self):
                self.extra, self.rng, self.samples = {}, __import__("random").Random(0), []

            def thorough(self):
                return False

            def case(self, *a, **k):
                pass

        found = []
        sec = {"dtype": X.section_dtypes, "instances": X.section_instances, "failure": X.section_failures}[typ]
        sec(_Ck(), __import__("random").Random(obj.get("seed", 0)), lambda sig, what, rep, size: found.append((sig, what)))
        print("recorded input:", {k: v for k, v in obj.items() if k not in ("broken_obligations",)})
        for sig, what in found[:5]:
            print(f"VIOLATES [{sig}]: {what}")
        print("VIOLATES" if found else "property holds on the re-drawn inputs of this section")
        return 1 if found else 0
    if typ == "live":
        return replay_live(obj)
    if typ == "kbl":
        bad = run_kbl(obj)
        print(f"dated tree {obj['newick']} dates {obj['dates']} read with keep_branch_lengths")
        for clause, what in bad:
            print(f"VIOLATES [{clause}]: {what}")
        print("VIOLATES" if bad else "property holds on this input")
        return 1 if bad else 0
    if typ == "device":
        t = G.parse_paren(obj["tree"])
        res = device_case(obj["kind"], obj["move"], t, obj["dates"], obj["x"][0])
        print(f"tree {obj['tree']} dates {obj['dates']} {obj['kind']} parameters {obj['x'][0]} move {obj['move']}()")
        print("transform before:", res.get("before"), "after:", res.get("after"), res.get("error", ""))
        bad = "error" in res or res.get("before") != res.get("after") or bool(res.get("oracle"))
        for clause, what in res.get("oracle", []):
            print(f"  after the move [{clause}]: {what}")
        print("VIOLATES" if bad else "property holds on this input")
        return 1 if bad else 0
    print("replay names broken obligations only:", obj.get("broken_obligations"), obj.get("mismatches"))
    return 1
