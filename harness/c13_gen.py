"""Generators of model specifications for C13 (type-directed, mostly valid; one PRNG).

A specification is the top-level JSON list `torchtree.py:main` iterates over.  Objects are
generated in PROCESSING order (the order in which the class's from_json visits its child keys,
taken from the Lean class table), so a reference always points backwards in a well-formed spec;
the keys of each dict are then shuffled (JSON key order is not processing order).

`Spec.lits`  : the object-literal dicts standing at processed positions, in registration order
`Spec.refs`  : (container, key-or-index) of every reference string standing at a processed position
Mutations (malformed stream) edit these in place and return a tag saying what must happen.
"""
from __future__ import annotations

import copy


def parse_classes(reply: str):
    """reply of the driver's `classes` op -> ({type name: (cls name, [(kind, key, extra)])}, {sig})"""
    left, right = reply.split(" | ")
    classes = {}
    for ent in left.split(" "):
        name, rest = ent.split("=", 1)
        cname, slots_s = rest[:-1].split("[", 1)
        selfreg = None
        if "@" in cname:
            cname, k = cname.split("@")
            selfreg = int(k)
        SELFREG[name] = selfreg
        slots = []
        if slots_s:
            for s in slots_s.split(";"):
                p = s.split(":")
                if p[0] == "firstOf":
                    alts = [(a[:-1], a[-1] == "+") for a in p[1].split(",")]
                    slots.append(("firstOf", "firstOf", alts))
                elif p[0] == "sub":
                    slots.append(("sub", p[1], (p[2], p[3])))
                else:
                    slots.append((p[0], p[1], None))
        classes[name] = (cname, slots)
    sigs = {}
    for ent in right.split(" "):
        n, a = ent.split("=")
        sigs[n] = a.split(",")
    return classes, sigs


GENERIC = ["VLeaf", "VOne", "VPair", "VRev", "VMany", "VMix", "VOpt", "pkg.mod.VLong", "VSelf", "VFalsy", "VEmpty"]
SELFREG = {}   # type name -> number of slots processed before the class registers the object itself (or None)
PARAMS = ["Parameter", "ViewParameter", "CatParameter", "TransformedParameter"]
DISTS = ["Distribution", "JointDistributionModel"]
TREES = ["UnRootedTreeModel", "TimeTreeModel", "ReparameterizedTimeTreeModel", "FlexibleTimeTreeModel"]
DIFF = "torchtree.evolution.tree_height_transform.DifferenceNodeHeightTransform"
DIST_CLASSES = {
    "torch.distributions.Normal": ["loc", "scale"],
    "torch.distributions.LogNormal": ["loc", "scale"],
    "torch.distributions.Exponential": ["rate"],
    "torch.distributions.Gamma": ["concentration", "rate"],
}


# taxon names (stems; a per-specification counter is appended) in the order of the leaf indices, and their dates
TAXON_STEMS = [("A", "B", "C"), ("zebra", "Mouse", "human"), ("t2", "10", "T1"), ("10", "9", "b"), ("C", "a", "B")]
TAXON_DATES = [(0.0, 0.5, 0.25), (0.25, 0.0, 0.5), (2000.5, 2000.0, 2000.25), (0.0, 0.0, 0.0)]


class Spec:
    def __init__(self):
        self.top = []
        self.lits = []      # dicts, registration (post-) order
        self.meta = {}      # id(dict) -> {"depth":…, "parent": dict|None}
        self.refs = []      # (container, key)
        self.defined = []   # (id, kind) in registration order
        self.features = set()


class SpecGen:
    def __init__(self, rng, classes, sigs, real=True, max_depth=4, size=12):
        self.rng, self.classes, self.sigs = rng, classes, sigs
        self.real = real
        self.max_depth = max_depth
        self.size = size
        self.n = 0

    # ------------------------------------------------------------------ ids
    def fresh(self, sp, stem="o"):
        self.n += 1
        pool = ["a", "b", "x", "theta", "tree.ratios", "kappa", "p", "node", "GTR.rates", "Ne", "A"]
        s = self.rng.choice(pool) if self.rng.random() < 0.3 else stem
        return f"{s}{self.n}"

    def pick_ref(self, sp, kind):
        c = [i for i, k in sp.defined if kind is None or k == kind or (kind == "param" and k == "param1")]
        return self.rng.choice(c) if c else None

    # ------------------------------------------------------------------ values
    def value(self, sp, kind, depth, parent, where):
        """a child at a processed position: a reference to something defined, or a literal.
        `where` = (container, key) the value will be stored at (recorded for references)."""
        r = self.rng.random()
        ref = self.pick_ref(sp, kind)
        if ref is not None and (r < 0.4 or depth >= self.max_depth):
            sp.refs.append(where)
            sp.features.add("ref")
            return ref
        return self.literal(sp, kind, depth, parent)

    def literal(self, sp, kind, depth, parent):
        rng = self.rng
        if kind is None:
            kinds = ["gen"] * 5 + (["param", "dist", "tree", "falsy"] if self.real else [])
            kind = rng.choice(kinds)
        if kind == "tree":
            return self.tree_literal(sp, depth, parent)
        if kind == "falsy":
            return self.falsy_literal(sp, depth, parent)
        if kind == "gen":
            deep = depth < self.max_depth and len(sp.lits) < self.size
            ty = rng.choice(GENERIC if deep else ["VLeaf", "VLeaf", "pkg.mod.VLong", "VOpt", "VFalsy", "VEmpty"])
        elif kind == "param1":
            ty = "Parameter"
        elif kind == "param":
            deep = depth < self.max_depth and len(sp.lits) < self.size
            ty = rng.choice(PARAMS if deep else ["Parameter"])
            if ty == "Parameter" and rng.random() < 0.2:
                ty = rng.choice(["torchtree.core.parameter.Parameter", "torchtree.Parameter"])
        else:
            deep = depth < self.max_depth
            ty = rng.choice(DISTS if deep else ["Distribution"])
        d = {}
        items = [("type", ty)]
        cname, slots = self.classes[ty]
        my_id = self.fresh(sp)
        holder = {}  # children are generated into `holder`, in processing order
        early = SELFREG.get(ty)
        for n_slot, (kind_s, key, extra) in enumerate(slots):
            self._kind = kind
            if early is not None and n_slot == early:
                # from here on the object is registered: its own children may refer back to it
                sp.defined.append((my_id, kind))
                sp.features.add("self-registered")
            self.fill_slot(sp, ty, kind_s, key, extra, holder, depth, d)
        items += list(holder.items())
        items.append(("id", my_id))
        rng.shuffle(items)
        d.update(items)
        # references recorded against `holder` must point at the final dict
        sp.refs = [((d if c is holder else c), k) for c, k in sp.refs]
        sp.lits.append(d)
        sp.meta[id(d)] = {"depth": depth, "parent": parent}
        if early is None or early >= len(slots):
            sp.defined.append((my_id, kind))
        sp.features.add("depth%d" % min(depth, 4))
        return d

    # ------------------------------------------------------------------ real tree models with inline sub-objects
    def _register(self, sp, d, kind, depth, parent):
        sp.lits.append(d)
        sp.meta[id(d)] = {"depth": depth, "parent": parent}
        sp.defined.append((d["id"], kind))
        sp.features.add("depth%d" % min(depth, 4))

    def _shuffled(self, items):
        items = list(items)
        self.rng.shuffle(items)
        return dict(items)

    def _sized_param(self, sp, values, depth, parent, where):
        """a Parameter of exactly len(values) entries: a reference to one defined earlier, or a literal"""
        rng = self.rng
        pool = getattr(sp, "bylen", {}).get(len(values), [])
        if pool and rng.random() < 0.3:
            sp.refs.append(where)
            sp.features.add("ref")
            return rng.choice(pool)
        p = self._shuffled([("id", self.fresh(sp)), ("type", "Parameter"), ("tensor", list(values))])
        self._register(sp, p, "param", depth + 1, parent)
        sp.bylen = getattr(sp, "bylen", {})
        sp.bylen.setdefault(len(values), []).append(p["id"])
        return p

    def falsy_literal(self, sp, depth, parent):
        """objects of real classes that are FALSY once constructed: a Taxon without attributes (a UserDict), an empty Taxa
        or Alignment (UserLists)"""
        rng = self.rng
        which = rng.choice(["Taxon", "Taxa", "Alignment"])
        if which == "Taxon":
            d = self._shuffled([("id", self.fresh(sp, "tx")), ("type", "Taxon")])
            self._register(sp, d, "taxon0", depth, parent)
        elif which == "Taxa":
            d = self._shuffled([("id", self.fresh(sp, "taxa")), ("type", "Taxa"), ("taxa", [])])
            self._register(sp, d, "taxa0", depth, parent)
        else:
            # an Alignment cannot be empty (its constructor reads sequences[0]); one sequence over one bare (falsy) Taxon
            d, taxa = {}, {}
            self.n += 1
            t = self._shuffled([("id", f"s{self.n}A"), ("type", "Taxon")])
            self._register(sp, t, "taxon0", depth + 2, taxa)
            taxa.update(self._shuffled([("id", self.fresh(sp, "taxa")), ("type", "Taxa"), ("taxa", [t])]))
            self._register(sp, taxa, "taxa0", depth + 1, d)
            d.update(self._shuffled([("id", self.fresh(sp, "aln")), ("type", "Alignment"), ("taxa", taxa),
                                     ("datatype", "nucleotide"), ("sequences", [{"taxon": t["id"], "sequence": "ACGT"}])]))
            self._register(sp, d, "aln", depth, parent)
        sp.features.add("falsy-" + which)
        return d

    def tree_literal(self, sp, depth, parent, ty=None):
        """UnRootedTreeModel / TimeTreeModel / ReparameterizedTimeTreeModel / FlexibleTimeTreeModel over 3 taxa, with the
        Taxa (and its Taxon objects), the heights / branch-length parameters inline or by reference; generated in
        the order the class's from_json processes them"""
        rng = self.rng
        ty = ty or rng.choice(TREES)
        d = {}
        my_id = self.fresh(sp, "tree")
        sp.taxa_names = getattr(sp, "taxa_names", {})
        holder = {}
        # --- taxa
        tref = self.pick_ref(sp, "taxa")
        if ty == "UnRootedTreeModel" and rng.random() < 0.5:
            tref = self.pick_ref(sp, "taxa_bare") or tref
        if tref is not None and rng.random() < 0.35:
            holder["taxa"] = tref
            names = sp.taxa_names[tref]
            sp.refs.append((holder, "taxa"))
            sp.features.add("ref")
        else:
            self.n += 1
            # the ORDER of the Taxon list is the order of the leaf indices: names whose list order is not their sorted /
            # reverse-sorted / case-folded / numeric order, and a different date for every taxon
            stems = rng.choice(TAXON_STEMS)
            names = [f"{c}x{self.n}" for c in stems]
            dates = rng.choice(TAXON_DATES)
            taxa = {}
            taxon_list = []
            any_bare = False
            for nm, date in zip(names, dates):
                bare = ty == "UnRootedTreeModel" and rng.random() < 0.6   # what UnRootedTreeModel.json_factory emits
                any_bare = any_bare or bare
                t = self._shuffled([("id", nm), ("type", rng.choice(["Taxon", "Taxon", "torchtree.evolution.taxa.Taxon"]))]
                                   + ([] if bare else [("attributes", {"date": date})]))
                self._register(sp, t, "taxon", depth + 2, taxa)
                taxon_list.append(t)
            taxa.update(self._shuffled([("id", self.fresh(sp, "taxa")),
                                        ("type", rng.choice(["Taxa", "torchtree.evolution.taxa.Taxa"])), ("taxa", taxon_list)]))
            self._register(sp, taxa, "taxa_bare" if any_bare else "taxa", depth + 1, d)
            sp.taxa_names[taxa["id"]] = names
            holder["taxa"] = taxa
        a, b, c = names
        holder["newick"] = f"(({a}:1,{b}:1):1,{c}:2);"
        # --- parameters, in processing order
        if ty == "UnRootedTreeModel":
            holder["branch_lengths"] = self._sized_param(sp, [0.5, 0.25, 1.0], depth, d, (holder, "branch_lengths"))
        elif ty == "TimeTreeModel":
            holder["internal_heights"] = self._sized_param(sp, [1.0, 2.0], depth, d, (holder, "internal_heights"))
        elif ty == "ReparameterizedTimeTreeModel":
            if rng.random() < 0.5:
                holder["shifts"] = self._sized_param(sp, [1.0, 1.0], depth, d, (holder, "shifts"))
            else:
                holder["root_height"] = self._sized_param(sp, [2.0], depth, d, (holder, "root_height"))
                holder["ratios"] = self._sized_param(sp, [0.5], depth, d, (holder, "ratios"))
        else:  # FlexibleTimeTreeModel: registered from here on
            sp.defined.append((my_id, "tree"))
            sp.features.add("self-registered-real")
            if rng.random() < 0.4:
                # heights computed from shifts by a transform that refers BACK to the tree (a cycle)
                tp = {}
                sub = {"tree_model": my_id}
                sp.refs.append((sub, "tree_model"))
                x = self._sized_param(sp, [1.0, 1.0], depth + 1, tp, (tp, "x"))
                tp.update(self._shuffled([("id", self.fresh(sp)), ("type", "TransformedParameter"), ("transform", DIFF),
                                          ("parameters", sub), ("x", x)]))
                sp.refs = [((tp if c_ is None else c_), k_) for c_, k_ in sp.refs]
                self._register(sp, tp, "param", depth + 1, d)
                holder["internal_heights"] = tp
                sp.features.add("tree-cycle")
            else:
                holder["internal_heights"] = self._sized_param(sp, [1.0, 2.0], depth, d, (holder, "internal_heights"))
        d.update(self._shuffled([("id", my_id), ("type", ty)] + list(holder.items())))
        sp.refs = [((d if c_ is holder else c_), k_) for c_, k_ in sp.refs]
        sp.lits.append(d)
        sp.meta[id(d)] = {"depth": depth, "parent": parent}
        if ty != "FlexibleTimeTreeModel":
            sp.defined.append((my_id, "tree"))
        sp.features.add("tree-" + ty)
        return d

    def child_list(self, sp, kind, depth, parent, lo=0, hi=3, allow_plate=False):
        n = self.rng.randint(lo, hi)
        xs = []
        for _ in range(n):
            after_empty = bool(xs) and isinstance(xs[-1], dict) and xs[-1].get("range", "x").split(":")[0] == xs[-1].get("range", "x:y").split(":")[-1]
            if allow_plate and not after_empty and self.rng.random() < 0.15:
                xs.append(self.plate(sp, depth, parent))
                continue
            xs.append(None)
            xs[-1] = self.value(sp, kind, depth + 1, parent, (xs, len(xs) - 1))
        return xs

    def fill_slot(self, sp, ty, kind_s, key, extra, holder, depth, parent):
        rng = self.rng
        generic = ty in GENERIC
        ck = None if generic else "param"
        if ty == "JointDistributionModel":
            ck = "dist"
        if kind_s == "one":
            holder[key] = self.value(sp, ck, depth + 1, parent, (holder, key))
        elif kind_s in ("many", "optMany"):
            if kind_s == "optMany" and rng.random() < 0.3:
                return
            if rng.random() < 0.6 or ty == "CatParameter":
                lo = 1 if not generic else 0
                holder[key] = self.child_list(sp, ck, depth, parent, lo=lo, allow_plate=generic and self.plates)
            else:
                holder[key] = self.value(sp, ck, depth + 1, parent, (holder, key))
        elif kind_s == "optOne":
            if rng.random() < 0.6:
                holder[key] = self.value(sp, ck, depth + 1, parent, (holder, key))
        elif kind_s == "each":
            lo = 1 if not generic else 0
            holder[key] = self.child_list(sp, ck, depth, parent, lo=lo, allow_plate=generic and self.plates)
        elif kind_s == "need":
            if key == "indices":
                holder[key] = rng.choice(["0:1", ":"])
            elif key == "transform":
                holder[key] = rng.choice(
                    ["torch.distributions.ExpTransform", "torch.distributions.AffineTransform",
                     "torch.distributions.SigmoidTransform"])
            elif key == "distribution":
                holder[key] = rng.choice(sorted(DIST_CLASSES))
        elif kind_s == "firstOf":
            r = rng.random()
            if self._kind == "param1":
                holder["tensor"] = [rng.choice([0.5, 1.0, 2.0, 3.0])]
            elif r < 0.55:
                holder["tensor"] = [rng.choice([0.5, 1.0, 2.0, 3.0]) for _ in range(rng.randint(1, 3))]
                if rng.random() < 0.35:
                    holder["dtype"] = rng.choice(["torch.float64", "torch.float32"])
                    sp.features.add("dtype")
            elif r < 0.8:
                k = rng.choice(["full_like", "zeros_like", "ones_like"])
                holder[k] = self.value(sp, "param", depth + 1, parent, (holder, k))
                if k == "full_like":
                    holder["tensor"] = 0.5
                sp.features.add("param-" + k)
            else:
                k = rng.choice(["full", "zeros", "ones"])
                holder[k] = [2]
                if k == "full":
                    holder["tensor"] = 1.5
        elif kind_s == "sub":
            by, mode = extra
            cls = holder[by]
            if mode == "transform":
                if cls == "torch.distributions.AffineTransform":
                    sub = {}
                    # processed in signature order: loc, scale
                    for arg in ["loc", "scale"]:
                        r = rng.random()
                        if r < 0.6:
                            sub[arg] = rng.choice([1.0, 2.0, 0.5])
                        elif r < 0.75:
                            sub[arg] = [1.0]
                        else:
                            sub[arg] = self.value(sp, "param1", depth + 1, parent, (sub, arg))
                            sp.features.add("transform-arg-object")
                    items = list(sub.items())
                    rng.shuffle(items)
                    sub2 = dict(items)
                    sp.refs = [((sub2 if c is sub else c), k) for c, k in sp.refs]
                    holder[key] = sub2
            else:
                # Distribution: `x` has been processed already (slot order: distribution, x, parameters)
                x_is_list = isinstance(holder.get("x"), list)
                sub = {}
                for arg in DIST_CLASSES[cls]:
                    r = rng.random()
                    if r < 0.35 and not x_is_list:
                        sub[arg] = rng.choice([1.0, 2.0, 0.5])
                    elif r < 0.45 and not x_is_list:
                        sub[arg] = [1.0]
                    else:
                        sub[arg] = self.value(sp, "param", depth + 1, parent, (sub, arg))
                        sp.features.add("dist-arg-object")
                items = list(sub.items())
                rng.shuffle(items)
                sub2 = dict(items)
                sp.refs = [((sub2 if c is sub else c), k) for c, k in sp.refs]
                holder[key] = sub2

    plates = False

    def plate(self, sp, depth, parent):
        """a Plate (in a list position) over a small object whose ids all carry the wildcard"""
        rng = self.rng
        self.n += 1
        stem = f"pl{self.n}."
        var = rng.random() < 0.5
        lo = rng.randint(0, 2)
        k = rng.randint(0, 3)
        w = "${i}" if var else "*"

        def mk(s):
            return (s + w + "z") if var and rng.random() < 0.5 else (s + w)

        inner_ids = []
        if rng.random() < 0.5:
            obj = {"id": mk(stem + "n"), "type": "VLeaf"}
            inner_ids.append(obj["id"])
        else:
            ref = self.pick_ref(sp, None)
            if ref is not None and rng.random() < 0.5:
                child = ref
            else:
                child = {"id": mk(stem + "c"), "type": "VLeaf"}
                inner_ids.append(child["id"])
            obj = {"type": "VOne", "x": child, "id": mk(stem + "n")}
            inner_ids.append(obj["id"])
        p = {"type": rng.choice(["Plate", "torchtree.Plate", "MyPlate"]), "range": f"{lo}:{lo + k}", "object": obj}
        if var:
            p["var"] = "i"
        if rng.random() < 0.3:
            p["id"] = "plate%d" % self.n
        for i in range(lo, lo + k):
            for s in inner_ids:
                sp.defined.append(((s.replace("${i}", str(i)) if var else s[:-1] + str(i)), "gen"))
        sp.features.add("plate%d" % k)
        sp.plate_ids = getattr(sp, "plate_ids", [])
        if k > 0:
            sp.plate_ids.append((inner_ids[-1], var, lo, lo + k))
        return p

    # ------------------------------------------------------------------ whole specs
    def spec(self, plates=False):
        self.plates = plates
        sp = Spec()
        n_top = self.rng.randint(1, 4)
        for _ in range(n_top):
            r = self.rng.random()
            if r < 0.6:
                sp.top.append(self.literal(sp, None, 0, None))
            elif r < 0.8:
                sp.top.append(self.child_list(sp, None, 0, None, lo=0, hi=3, allow_plate=plates))
            elif r < 0.9 and plates:
                sp.top.append([self.plate(sp, 0, None)])
            else:
                ref = self.pick_ref(sp, None)
                if ref is not None:
                    sp.refs.append((sp.top, len(sp.top)))
                    sp.top.append(ref)
                else:
                    sp.top.append(self.literal(sp, None, 0, None))
        # range references to plate clones (`stem{a:b}`): resolve to the LAST clone
        if plates and getattr(sp, "plate_ids", None) and self.rng.random() < 0.7:
            s, var, lo, hi = self.rng.choice(sp.plate_ids)
            if not var or s.endswith("${i}"):
                stem = s[:-1] if not var else s[: -len("${i}")]
                a = self.rng.randint(lo, hi - 1)
                sp.top.append({"id": self.fresh(sp), "type": "VOne", "x": "%s{%d:%d}" % (stem, a, hi)})
                sp.features.add("range-ref")
                sp.range_refs = getattr(sp, "range_refs", []) + [(sp.top[-1], "x", stem, a, hi, lo, hi)]
        return sp


# ---------------------------------------------------------------------- mutations (malformed stream)
MUTATIONS = ["dup-ancestor", "dup-any", "dup-any", "dangling", "forward-top", "self-ref", "no-id", "no-type",
             "bad-type", "not-valid", "missing-key", "dup-top", "dangling-range"]


def ancestors(sp, d):
    out = []
    p = sp.meta[id(d)]["parent"]
    while p is not None:
        out.append(p)
        p = sp.meta.get(id(p), {}).get("parent")
    return out


def set_id(sp, d, new):
    """give the literal `d` another id; a Taxon's name also occurs in the newick strings of the trees using it and in the
    sequence records of the alignments over it"""
    old = d.get("id")
    d["id"] = new
    if str(d.get("type", "")).endswith("Taxon") and isinstance(old, str):
        for t in sp.lits:
            if isinstance(t.get("newick"), str):
                t["newick"] = t["newick"].replace(old + ":", new + ":")
            if isinstance(t.get("sequences"), list):
                for q in t["sequences"]:
                    if isinstance(q, dict) and q.get("taxon") == old:
                        q["taxon"] = new


def mutate(sp: Spec, rng, which=None):
    """apply one malformation in place; returns (tag, must_reject: bool, detail) or None if not applicable"""
    which = which or rng.choice(MUTATIONS)
    lits = sp.lits
    if not lits:
        which = "dangling"
    if which == "dup-ancestor":
        c = [d for d in lits if sp.meta[id(d)]["parent"] is not None]
        if not c:
            return None
        d = rng.choice(c)
        a = rng.choice(ancestors(sp, d))
        set_id(sp, d, a["id"])
        gap = sp.meta[id(d)]["depth"] - sp.meta[id(a)]["depth"]
        return ("dup-ancestor", True, {"id": a["id"], "levels_apart": gap})
    if which == "dup-any":
        if len(lits) < 2:
            return None
        d, e = rng.sample(lits, 2)
        set_id(sp, d, e["id"])
        return ("dup-any", True, {"id": e["id"]})
    if which == "dup-top":
        tops = [x for x in sp.top if isinstance(x, dict)]
        if not tops:
            return None
        sp.top.append(copy.deepcopy(rng.choice(tops)))
        return ("dup-top", True, {})
    if which == "dangling":
        if sp.refs and rng.random() < 0.7:
            c, k = rng.choice(sp.refs)
            c[k] = "nowhere.%d" % rng.randint(0, 99)
        else:
            sp.top.append("nowhere.%d" % rng.randint(0, 99))
        return ("dangling", True, {})
    if which == "dangling-range":
        # a range reference `stem{a:b}` widened beyond the clones that exist: its first or its last member is undefined
        rr = getattr(sp, "range_refs", [])
        if not rr:
            return mutate(sp, rng, "dangling")
        c, k, stem, a, b, lo, hi = rng.choice(rr)
        taken = {i for i, _ in sp.defined}
        if rng.random() < 0.5 and (stem + str(lo - 1)) not in taken:
            c[k] = "%s{%d:%d}" % (stem, lo - 1, b)
            return ("dangling-range:first", True, {"ref": c[k]})
        if (stem + str(hi)) not in taken:
            c[k] = "%s{%d:%d}" % (stem, a, hi + 1)
            return ("dangling-range:last", True, {"ref": c[k]})
        return mutate(sp, rng, "dangling")
    if which == "forward-top":
        # a reference to an object that is only defined LATER in the file
        tops = [i for i, x in enumerate(sp.top) if isinstance(x, dict)]
        if not tops:
            return None
        i = rng.choice(tops)
        sp.top.insert(i, {"id": "fwd", "type": "VOne", "x": sp.top[i]["id"]})
        return ("forward", True, {"id": sp.top[i + 1]["id"]})
    if which == "self-ref":
        c = [d for d in lits if d["type"] in ("VOne", "VPair", "VRev")]
        if not c:
            return None
        d = rng.choice(c)
        key = "x" if d["type"] == "VOne" else rng.choice(["a", "b"])
        tgt = rng.choice([d] + ancestors(sp, d))
        d[key] = tgt["id"]
        # an enclosing object whose class registers it early may legitimately be referred to from inside
        return ("ref-to-enclosing", tgt.get("type") != "VSelf", {"id": tgt["id"]})
    if which == "no-id":
        d = rng.choice(lits)
        del d["id"]
        return ("no-id", True, {})
    if which == "no-type":
        d = rng.choice(lits)
        del d["type"]
        return ("no-type", True, {})
    if which == "bad-type":
        d = rng.choice(lits)
        d["type"] = rng.choice(["Nope", "no.such.module.Klass", "torchtree.core.parameter.Nope"])
        return ("bad-type", True, {})
    if which == "not-valid":
        if sp.refs and rng.random() < 0.7:
            c, k = rng.choice(sp.refs)
            # a number where a Distribution/Transform argument is expected is legal there (and, for a
            # Distribution over a LIST x, crashes with AttributeError in x.dtype — not an id matter): use null
            c[k] = rng.choice([3, 1.5, None, True]) if (isinstance(c, list) or "type" in c) else None
            must = True
        else:
            sp.top.append(rng.choice([3, None, True]))
            must = True
        return ("not-valid", must, {})
    if which == "missing-key":
        c = [d for d in lits if d["type"] in ("VOne", "VPair", "VRev", "VMany", "VMix", "ViewParameter",
                                               "CatParameter", "JointDistributionModel")]
        if not c:
            return None
        d = rng.choice(c)
        key = {"VOne": "x", "VPair": "b", "VRev": "a", "VMany": "xs", "VMix": "q", "ViewParameter": "parameter",
               "CatParameter": "parameters", "JointDistributionModel": "distributions"}[d["type"]]
        d.pop(key, None)
        return ("missing-key", True, {"key": key})
    return None


# ---------------------------------------------------------------------- comments
def add_comments(j, rng, dup_ids, p=0.25, top=True):
    """return a copy of `j` with underscore keys and ignored objects inserted at random places;
    the comments deliberately contain object literals re-using ids of the specification"""
    def junk():
        r = rng.random()
        i = rng.choice(dup_ids) if dup_ids else "zz"
        if r < 0.1:
            # a plate under an underscore key (a list, so that it could be expanded)
            return [{"type": "Plate", "range": "0:2", "object": {"id": "us.*", "type": "VLeaf"}}]
        if r < 0.3:
            return "free text"
        if r < 0.6:
            return {"id": i, "type": "VLeaf"}
        if r < 0.8:
            return [{"id": i, "type": "VLeaf"}, 3]
        return rng.choice([0, 1.5, None, True, []])

    def ign():
        i = rng.choice(dup_ids) if dup_ids else "zz"
        d = {"id": i, "type": rng.choice(["VLeaf", "Nope"]), "ignore": rng.choice([True, 1, "yes", 2.5, [0]])}
        if rng.random() < 0.3:
            # an ignored PLATE whose clones would re-define ids of the specification (or exist at all): features interact
            d = {"type": rng.choice(["Plate", "torchtree.Plate"]), "range": rng.choice(["0:2", "1:2", "0:1"]),
                 "object": {"id": rng.choice([i[:-1] + "*" if i and i[-1].isdigit() else i + "*", "ig.*"]), "type": "VLeaf"},
                 "ignore": rng.choice([True, 1, "yes"])}
        items = list(d.items())
        rng.shuffle(items)
        return dict(items)

    if isinstance(j, list):
        out = []
        for x in j:
            if rng.random() < p:
                out.append(ign())
            out.append(add_comments(x, rng, dup_ids, p, False))
        if rng.random() < p:
            out.append(ign())
        return out
    if isinstance(j, dict):
        items = []
        for k, v in j.items():
            if rng.random() < p:
                items.append(("_" + rng.choice(["c", "comment", k]) + str(len(items)), junk()))
            items.append((k, add_comments(v, rng, dup_ids, p, False)))
        if rng.random() < p:
            items.append(("_end", junk()))
        if rng.random() < p * 0.6:
            # an ignored object as a dict VALUE (under a key no from_json reads)
            items.append(("note%d" % len(items), ign()))
        if rng.random() < p * 0.4:
            # a FALSY ignore is not a comment: the key simply stays
            items.append(("ignore", rng.choice([False, 0, "", None, [], 0.0])))
        return dict(items)
    return j
