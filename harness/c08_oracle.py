"""Declarative Kingman oracle for C08 / C20 (no sorting of events, no running counters).

    kingman(samp, coal, N) = - int C(k(t),2)/N(t) dt  -  sum_j log N(c_j)
    k(t) = #{s_i < t} - #{c_j < t}

The integral is evaluated piece by piece between consecutive *distinct* break points (event times and
the break points of N); on each piece k is read off at the midpoint by counting, and int 1/N is taken
from the demographic function's own closed form `N.int_inv(a, b)` (exact `Fraction`s for the
piece-wise constant functions, mpmath for the exponential / linear ones).  A Gauss-Legendre variant
(`kingman_gl`) needs only point evaluations of N and cross-checks the closed forms.
"""
from __future__ import annotations

import math
from fractions import Fraction

import mpmath as mp

mp.mp.dps = 40


def M(v):
    """exact conversion to mpf (Fractions, ints, floats)"""
    if isinstance(v, Fraction):
        return mp.mpf(v.numerator) / v.denominator
    return mp.mpf(v)


def k_at(samp, coal, t):
    return sum(1 for s in samp if s < t) - sum(1 for c in coal if c < t)


class ConstN:
    """N(t) = theta"""

    def __init__(self, theta):
        self.theta = theta
        self.breaks = []

    def at(self, t):
        return self.theta

    def int_inv(self, a, b):
        return (b - a) / self.theta


class StepN:
    """N(t) = thetas[#{b in breaks : b < t}]  (left-continuous step function; skygrid with breaks = grid,
    skyride with breaks = coalescent times)"""

    def __init__(self, thetas, breaks):
        self.thetas = list(thetas)
        self.breaks = list(breaks)

    def at(self, t):
        i = sum(1 for b in self.breaks if b < t)
        return self.thetas[min(i, len(self.thetas) - 1)]

    def int_inv(self, a, b):
        # a < b contain no break point in the open interval
        return (b - a) / self.at((a + b) / 2)


class ExpN:
    """N(t) = theta * exp(-g t)"""

    def __init__(self, theta, g):
        self.theta, self.g = M(theta), M(g)
        self.breaks = []

    def at(self, t):
        return self.theta * mp.exp(-self.g * M(t))

    def int_inv(self, a, b):
        a, b = M(a), M(b)
        if self.g == 0:
            return (b - a) / self.theta
        return (mp.exp(self.g * b) - mp.exp(self.g * a)) / (self.theta * self.g)


class LinearN:
    """N linear between (0, theta_0), (grid_1, theta_1), ..., (grid_G, theta_G); constant theta_G after"""

    def __init__(self, thetas, grid):
        self.x = [mp.mpf(0)] + [M(g) for g in grid]
        self.y = [M(t) for t in thetas]
        self.breaks = list(grid)

    def at(self, t):
        t = M(t)
        if t >= self.x[-1]:
            return self.y[-1]
        for i in range(len(self.x) - 1):
            if self.x[i] <= t <= self.x[i + 1]:
                return self.y[i] + (self.y[i + 1] - self.y[i]) * (t - self.x[i]) / (self.x[i + 1] - self.x[i])
        return self.y[0]

    def int_inv(self, a, b):
        na, nb = self.at(a), self.at(b)
        a, b = M(a), M(b)
        if na == nb:
            return (b - a) / na
        return (b - a) * (mp.log(nb) - mp.log(na)) / (nb - na)


class PwExpN:
    """N(t) = theta_i * exp(-g_i (t - grid_i)) on [grid_i, grid_{i+1}), grid_0 = 0: the population size
    restarts at theta_i at every grid point (piecewise exponential with free sizes), or, when
    `continuous`, theta_0 only is free and N is continuous."""

    def __init__(self, thetas, growth, grid, continuous):
        self.x = [mp.mpf(0)] + [M(g) for g in grid]
        self.g = [M(v) for v in growth]
        self.breaks = list(grid)
        if continuous:
            y = [M(thetas[0])]
            for i in range(1, len(self.x)):
                y.append(y[-1] * mp.exp(-self.g[i - 1] * (self.x[i] - self.x[i - 1])))
            self.y = y
        else:
            self.y = [M(t) for t in thetas]

    def piece(self, t):
        i = sum(1 for b in self.x[1:] if b <= t)
        return i

    def at(self, t):
        t = M(t)
        i = sum(1 for b in self.x[1:] if b < t)  # left-continuous at the grid points
        return self.y[i] * mp.exp(-self.g[i] * (t - self.x[i]))

    def int_inv(self, a, b):
        m = (M(a) + M(b)) / 2
        i = self.piece(m)
        a, b = M(a), M(b)
        if self.g[i] == 0:
            return (b - a) / self.y[i]
        return (mp.exp(self.g[i] * (b - self.x[i])) - mp.exp(self.g[i] * (a - self.x[i]))) / (self.y[i] * self.g[i])


def _pieces(samp, coal, N):
    pts = sorted(set(list(samp) + list(coal) + [b for b in N.breaks]))
    lo, hi = min(list(samp) + list(coal)), max(list(samp) + list(coal))
    pts = [p for p in pts if lo <= p <= hi]
    return list(zip(pts[:-1], pts[1:]))


def kingman(samp, coal, N, log=None):
    """closed form per piece. Returns (value, integral_part, log_part)."""
    log = log or (lambda v: mp.log(M(v)))
    integral = 0
    for a, b in _pieces(samp, coal, N):
        k = k_at(samp, coal, (a + b) / 2)
        if k >= 2:
            integral = integral + (k * (k - 1) // 2) * N.int_inv(a, b)
    logs = sum(log(N.at(c)) for c in coal)
    integ = integral
    integ = M(integ)
    return -integ - logs, integral, logs


_GL = {}


def _gl(n):
    if n not in _GL:
        import numpy as np

        _GL[n] = np.polynomial.legendre.leggauss(n)
    return _GL[n]


def kingman_gl(samp, coal, N, order=24):
    """Gauss-Legendre per piece: only point evaluations of N (float precision)."""
    xs, ws = _gl(order)
    integral = 0.0
    for a, b in _pieces(samp, coal, N):
        k = k_at(samp, coal, (a + b) / 2)
        if k < 2:
            continue
        a_, b_ = float(a), float(b)
        s = 0.0
        for x, w in zip(xs, ws):
            t = 0.5 * (b_ - a_) * x + 0.5 * (a_ + b_)
            s += w / float(N.at(t))
        integral += (k * (k - 1) / 2) * 0.5 * (b_ - a_) * s
    logs = sum(math.log(float(N.at(c))) for c in coal)
    return -integral - logs
