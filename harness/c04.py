"""C04 — transition probabilities are exp(Qt) of a properly normalised rate matrix.

Lean side : TTModel/C04_Subst.lean (q() builders, norm, closed forms, reconstruction with (e,V,V^-1) as
            parameters), TTGen/C04Tables.lean regenerated from amino_acid.py / datatype.py, theorems in
            TTProofs/Props/C04.lean.
Tie       : q() and norm bit-exact against the model at Rat on dyadic parameters (Float: off-diagonals
            bit-exact, torch.sum-ordered entries rel 1e-13); MG94 masks compared exactly for every genetic
            code; closed forms at rel 1e-10; eigen path: the (e, V, V^-1) torch produced inside the real p_t
            are handed to the Lean reconstruction (must reproduce p_t), the assumed eigh contract is checked
            numerically, and p_t is compared with Lean's independent Taylor scaling-and-squaring exp(tQ/norm).
Search    : the property's statements (rows of Q, sign, detailed balance, normalisation through
            P = exp(t Q / norm), row sums, P(0)=I, semigroup, stationarity, detailed balance of P) evaluated on
            the implementation's q()/frequencies/p_t for every case, on a wider sweep when something broke.
"""
from __future__ import annotations

import json
import sys
from fractions import Fraction
from pathlib import Path

import numpy as np

from common import REPO, VERIF, Check, use_repo

sys.path.insert(0, str(VERIF / "harness" / "translators"))
import c04_models as M  # noqa: E402
import tr_subst  # noqa: E402
import tr_options_c04c05 as tr_options  # noqa: E402

CLOSE = 1e-10


def relclose(a, b, rel):
    a, b = np.asarray(a, dtype=np.float64), np.asarray(b, dtype=np.float64)
    return bool(np.all(np.abs(a - b) <= rel * np.maximum(np.abs(a), np.abs(b))))


def compare_q(ck, drv, c, out):
    """q() and norm of the implementation vs the model. Rat (exact) when the case is dyadic."""
    lowp = M.low_precision(c)
    # float32 results (or the float32 literal 1/3 of JC69.q under default float32): relative to the largest entry
    loose = 1e-5 if lowp else (1e-6 if M.regime_of(c) == "f32default" and c["kind"] in ("JC69", "GeneralJC69") else None)
    mode = "r" if c["dyadic"] and not loose else "f"
    reqs = [M.q_request(c, s, mode) for s in range(c["S"])]  # parameter slices
    reps = drv.ask_many(reqs)
    n = c["n"]
    ordered = c["kind"] in ("HKY", "GTR", "JC69", "GeneralJC69")  # every entry is an explicit expression
    for s, rep in enumerate(reps):
        if rep == "bad-op":
            ck.mismatch("driver refused q request", {"case": c, "slice": s})
            return False
        mn, mq, mnorm = M.parse_q_reply(rep, mode)
        Q = out["Q"][s]
        if mn != n or Q.shape != (n, n):
            ck.mismatch("q() shape differs", {"case": c, "impl": list(Q.shape), "model": mn})
            return False
        for i in range(n):
            for j in range(n):
                x = float(Q[i, j])
                if loose:
                    same = abs(x - float(mq[i][j])) <= loose * max(1.0, float(np.abs(Q).max()))
                elif mode == "r":
                    same = M.frac(x) == mq[i][j]
                elif i != j or ordered:
                    same = x == mq[i][j]
                else:
                    same = abs(x - mq[i][j]) <= 1e-13 * abs(x)
                if not same:
                    ck.mismatch("q() entry differs", {"case": c, "slice": s, "i": i, "j": j, "impl": x,
                                                      "model": str(mq[i][j])})
                    return False
        if out["norm"] is not None:
            x = out["norm"][s]
            same = (M.frac(x) == mnorm) if mode == "r" else abs(x - float(mnorm)) <= (loose or 1e-13) * abs(x)
            if not same:
                ck.mismatch("norm differs", {"case": c, "slice": s, "impl": x, "model": str(mnorm)})
                return False
    return True


def compare_p(ck, drv, c, out, lean_taylor=True):
    """p_t of the implementation vs closed form / reconstruction / Lean Taylor oracle"""
    n = c["n"]
    ok = True
    for s in range(c["R"]):
        Q, fr, P, ts = out["Q"][s], out["freqs"][s], out["P"][s], c["ts"][s]
        nrm = -float((np.diag(Q) * fr).sum())
        if c["kind"] in ("JC69", "GeneralJC69"):
            reqs = [(f"jcpt {M.f2h(t)}" if c["kind"] == "JC69" else f"gjcpt {n} {M.f2h(t)}") for t in ts]
            for b, rep in enumerate(drv.ask_many(reqs)):
                # float32 results: absolute (0.25 - 0.25 exp(..) cancels for short branches)
                if rep == "bad-op" or not (np.abs(P[b] - M.parse_mat(rep, n)).max() <= 1e-6 if M.low_precision(c)
                                           else relclose(P[b], M.parse_mat(rep, n), CLOSE)):
                    ck.mismatch("closed form differs", {"case": c, "slice": s, "t": ts[b]})
                    ok = False
        if c["kind"] in M.EIGEN_PATH and not M.low_precision(c):
            eig = out.get("eig")
            if not eig:
                ck.mismatch("could not observe eigen decomposition", {"case": c})
                ok = False
            else:
                g = eig[s if len(eig) > 1 else 0]
                rep = drv.ask(f"symm {n} {M.mat_words(fr)} {M.mat_words(Q)}")
                Sl = M.parse_mat(rep, n) if rep != "bad-op" else None
                if Sl is None:
                    ck.mismatch("driver refused symm", {"case": c})
                    return False
                sscale = max(1.0, float(np.abs(Sl).max()))
                if g["S"] is not None and np.abs(g["S"] - Sl).max() > 1e-12 * sscale:
                    ck.mismatch("symmetrised matrix handed to eigh differs", {"case": c, "slice": s,
                                "max_dev": float(np.abs(g["S"] - Sl).max())})
                    ok = False
                # assumed contract of eigh (hypotheses of recon_eq_exp), spot-checked
                kap = float(np.sqrt(fr.max() / fr.min()))
                res = np.abs(g["v"] @ np.diag(g["e"]) @ g["vinv"] - Sl).max()
                orth = np.abs(g["v"] @ g["vinv"] - np.eye(n)).max()
                ck.extra["max_eigh_residual"] = max(ck.extra.get("max_eigh_residual", 0.0), float(res / sscale))
                ck.extra["max_eigh_inverse_defect"] = max(ck.extra.get("max_eigh_inverse_defect", 0.0), float(orth))
                if res > 1e-9 * sscale * n or orth > 1e-9 * n:
                    ck.mismatch("eigh contract (S = V diag(e) V^-1, V V^-1 = I) not met numerically",
                                {"case": c, "slice": s, "residual": float(res), "inverse_defect": float(orth)})
                    ok = False
                reqs = [f"recon {n} {M.f2h(t)} {M.mat_words(fr)} {M.mat_words(g['e'])} {M.mat_words(g['v'])} "
                        f"{M.mat_words(g['vinv'])}" for t in ts]
                for b, rep in enumerate(drv.ask_many(reqs)):
                    R = M.parse_mat(rep, n) if rep != "bad-op" else None
                    # same (e, V, V^-1), same formula: only the summation order of the products differs
                    if R is None or np.abs(R - P[b]).max() > 1e-10 + 1e3 * M.EPS * kap * n:
                        ck.mismatch("reconstruction from torch's (e,V) differs from p_t",
                                    {"case": c, "slice": s, "t": ts[b],
                                     "max_dev": None if R is None else float(np.abs(R - P[b]).max())})
                        ok = False
        if lean_taylor and nrm > 0 and not M.unnormalised_requested(c):
            reqs = [f"taylor {n} {M.f2h(t)} {M.mat_words(fr)} {M.mat_words(Q)}" for t in ts[1:3]]
            for b, rep in zip((1, 2), drv.ask_many(reqs)):
                T = M.parse_mat(rep, n) if rep != "bad-op" else None
                tol = M.tol_for(Q / nrm * ts[b], fr, "f32in" if M.reference_low_precision(c) else "f64")
                if T is None or np.abs(T - P[b]).max() > tol:
                    ck.mismatch("p_t differs from Lean Taylor exp(t Q / norm)",
                                {"case": c, "slice": s, "t": ts[b], "tol": tol,
                                 "max_dev": None if T is None else float(np.abs(T - P[b]).max())})
                    ok = False
                # the numpy oracle used by the search agrees with the Lean one
                if T is not None and np.abs(T - M.expm_taylor(Q / nrm * ts[b])).max() > tol:
                    ck.mismatch("numpy Taylor oracle differs from Lean Taylor oracle", {"case": c, "slice": s})
                    ok = False
    return ok


def key_of(c):
    def q(v):
        return tuple(tuple(round(np.log10(x) * 3) if x > 0 else -99 for x in row[:6]) for row in v)

    return (c["kind"], c["n"], c.get("code"), c["dyadic"], tuple(sorted(c["batch"].items())),
            tuple(c.get("mapping", [])[:8]), tuple((k, q(v)) for k, v in sorted(c["params"].items())))


def bucket_of(c):
    b = "+".join(k for k, v in sorted(c["batch"].items()) if v) or "none"
    extra = f"/code{c['code']}" if c["kind"] == "MG94" else (f"/n{c['n']}" if c["kind"].startswith("General") or c["kind"] == "Empirical" else "")
    return f"{c['kind']}{extra}/{'dyadic' if c['dyadic'] else 'float'}/batched={b}"


def plan(ck):
    """the list of cases: corpus, systematic part, random part"""
    rng = ck.rng
    th = ck.thorough()
    cases = []
    d = VERIF / "corpus" / "C04"
    if d.is_dir():
        for f in sorted(d.glob("*.json")):
            try:
                cases.append(json.loads(f.read_text())["case"])
            except Exception:
                pass
    rep = 3 if th else 1
    for _ in range(rep):
        for kind in ("JC69", "LG", "WAG"):
            for _ in range(3):
                cases.append(M.gen_case(rng, kind))
        for n in (2, 3, 4, 5, 20, 61):
            cases.append(M.gen_case(rng, "GeneralJC69", n=n))
        codes = list(range(15))
        rng.shuffle(codes)  # the order in which the genetic codes are built in this process varies with the seed
        for code in codes:
            cases.append(M.gen_case(rng, "MG94", dyadic=True, code=code))
            if th or code % 5 == rng.randrange(5):
                cases.append(M.gen_case(rng, "MG94", dyadic=False, code=code,
                                        batch=rng.choice(["none", "all"])))
    # live objects: every class with parameters, unbatched and batched: after p_t() assign each parameter alone,
    # then all of them, reading q()/p_t() again after each assignment
    for kind in ("HKY", "GTR", "GeneralSymmetric", "GeneralNonSymmetric", "MG94"):
        for batch in ("none", "all"):
            for _ in range(rep):
                c = M.gen_case(rng, kind, dyadic=False, batch=batch, code=rng.randrange(15) if kind == "MG94" else None,
                               n=rng.choice([3, 4, 6]) if kind.startswith("General") else None)
                c.pop("updates", None)
                names = M.PARAM_NAMES[kind]
                ups = []
                for nm in names + [None]:
                    M.add_updates(rng, c, 1, which=[nm] if nm else names)
                    ups += c.pop("updates")
                rng.shuffle(ups)
                c["updates"] = ups if (th or kind != "MG94") else ups[:3]
                cases.append(c)
    # special but valid values: kappa = 1, all exchangeabilities equal, uniform frequencies (degenerate spectrum),
    # alpha = beta = kappa = 1, a mapping that sends everything to one rate; and batches whose sample count equals
    # the state count with ONE row holding the special value
    def special(kind, **kw):
        c = M.gen_case(rng, kind, dyadic=False, route={"kind": "ctor"}, **kw)
        for key in ("updates", "deepcopy", "move"):
            c.pop(key, None)
        c["regime"] = "f64"
        c["ts"] = [[r[0], r[1], r[2], r[1] + r[2]] for r in c["ts"]]
        return c

    for batch in ("none", "all"):
        c = special("HKY", batch=batch)
        if batch == "all":
            c = special("HKY", batch="all")
            while c["S"] != 3:
                c = special("HKY", batch="all")
        c["params"]["kappa"][0] = [1.0]
        cases.append(c)
        c = special("HKY", batch=batch)
        c["params"]["frequencies"][0] = [0.25] * 4
        c["params"]["kappa"][-1] = [1.0]
        cases.append(c)
        c = special("GTR", batch=batch)
        c["params"]["rates"][0] = [1.0] * 6
        c["params"]["frequencies"][-1] = [0.25] * 4
        cases.append(c)
        c = special("GeneralSymmetric", batch=batch, n=4)
        c["mapping"] = [0] * 6
        c["params"]["rates"] = [[r[0]] for r in c["params"]["rates"]]
        c["params"]["frequencies"][0] = [0.25] * 4
        cases.append(c)
        c = special("GeneralNonSymmetric", batch=batch, n=3)
        c["mapping"] = [0] * 6
        c["route"] = {"kind": "ctor", "mapping": "list"}
        c["params"]["rates"] = [[2.0] for _ in c["params"]["rates"]]
        c["params"]["frequencies"][0] = [1 / 3] * 3
        cases.append(c)
    c = special("MG94", code=rng.randrange(15))
    for nm in ("alpha", "beta", "kappa"):
        c["params"][nm] = [[1.0]]
    c["params"]["frequencies"] = [[1.0 / c["n"]] * c["n"]]
    cases.append(c)
    # a second MG94 instance with the SAME sense codons but another genetic code built later in the same process
    # (Yeast, Mold, Mycoplasma, Invertebrate, Echinoderm, Euplotid, Ascidian, Blepharisma all have 62 sense codons)
    for code in rng.sample([2, 3, 5, 7, 8, 11, 13], 2):
        cases.append(special("MG94", code=code))
    # EXTREME but admissible simplex points: one or two frequencies at 1e-7, 1e-9, 1e-12, in every position (float64);
    # judged with the usual conditioning-scaled tolerance (on the unchanged code the worst observed deviation in this
    # regime is 0.5 % of it)
    def extreme(kind, tiny, positions, **kw):
        c = special(kind, **kw)
        n_ = c["n"]
        rows = []
        for _ in c["params"]["frequencies"]:
            f = M.gen_freqs(rng, n_, False)
            for p_ in positions:
                f[p_ % n_] = tiny
            tot = sum(f)
            rows.append([x / tot for x in f])
        c["params"]["frequencies"] = rows
        return c

    for tiny in (1e-7, 1e-9, 1e-12):
        for pos in range(4):
            cases.append(extreme("HKY", tiny, [pos]))
            cases.append(extreme("GTR", tiny, [pos]))
        for pos in range(5):
            cases.append(extreme("GeneralSymmetric", tiny, [pos], n=5))
        cases.append(extreme("GeneralSymmetric", tiny, [0, 2], n=3))
        cases.append(extreme("HKY", tiny, [0, 3]))
        cases.append(extreme("GTR", tiny, [rng.randrange(4)], batch="all"))
        cases.append(extreme("GeneralNonSymmetric", tiny, [rng.randrange(4)], n=4))
        if th or tiny == 1e-9:
            cases.append(extreme("MG94", tiny, [0], code=rng.randrange(15)))
            cases.append(extreme("MG94", tiny, [rng.randrange(60)], code=rng.randrange(15)))
    # TWO sample dimensions [S1,S2,d] with the frequencies shared / with fewer batch dimensions / full, every model
    for kind in ("HKY", "GTR", "GeneralSymmetric", "GeneralNonSymmetric") + (("MG94",) if th else ()):
        for fflag in (False, "inner", True):
            c = M.gen_case(rng, kind, dyadic=False, batch="two", route={"kind": "ctor", "mapping": "list"},
                           n=4 if kind.startswith("General") else None)
            for key in ("updates", "deepcopy", "move"):
                c.pop(key, None)
            c["regime"], c["holder"] = "f64", {}
            c["ts"] = [[r[0], r[1], r[2], r[1] + r[2]] for r in c["ts"]]
            rows = {False: 1, "inner": c["S2"], True: c["S"]}[fflag]
            c["batch"]["frequencies"] = fflag
            c["params"]["frequencies"] = [M.gen_freqs(rng, c["n"], False) for _ in range(rows)]
            cases.append(c)
    # models without inputs: construct -> a device/dtype move (incl. a conversion to the dtype they already have) -> p_t
    for kind in ("LG", "WAG", "JC69", "GeneralJC69"):
        for mv in ("cpu", "to", "to_dtype"):
            c = special(kind)
            c["move"] = mv
            cases.append(c)
        for reg in ("f64", "f32default"):  # built in one precision, converted to the other, used there
            c = special(kind)
            c["regime"], c["move"] = reg, "to_other"
            c["ts"] = [[M.f32(min(x, 10.0)) for x in r[:3]] for r in c["ts"]]
            c["ts"] = [[r[0], r[1], r[2], M.f32(r[1] + r[2])] for r in c["ts"]]
            cases.append(c)
    # SIZE OF THE CALL x STRUCTURED rate matrices: many branch lengths in one p_t call (1, 2, 32, 33, 64, 500) must equal the
    # one-at-a-time evaluation and exp(tQ); nearly defective / banded / nearly reducible / stiff generators
    for kind in ("GeneralNonSymmetric", "GeneralSymmetric"):
        for structure in ("ordered", "banded", "block", "stiff"):
            for count in ((1, 2, 32, 33, 64, 500) if (th or structure == "ordered") else (33, 64)):
                cases.append(M.structured_case(rng, kind, 8 if structure != "stiff" else 5, structure, count,
                                               layout=rng.choice(["B1", "B1", "vec", "1K"]),
                                               batch="all" if count == 64 else "none"))
    for kind in ("HKY", "GTR", "JC69", "GeneralJC69", "LG"):
        c = special(kind)
        c["many"] = {"ts": [0.0] + [round(10 ** rng.uniform(-3, 1), 6) for _ in range(rng.choice([32, 63, 99]))], "layout": "B1"}
        cases.append(c)
    # live update of the STRUCTURAL parameter: the GTR layout of the general symmetric model re-mapped to the documented
    # HKY layout [0,1,0,0,1,0], then a rate update read through the new layout (and the non-symmetric analogue)
    c = special("GeneralSymmetric", n=4)
    c["route"] = {"kind": "ctor", "mapping": "list"}
    c["mapping"] = list(range(6))
    c["params"]["rates"] = [[M.gen_rate(rng, False) for _ in range(6)]]
    c["holder"] = {}
    c["updates"] = [{"set": {"mapping": [0, 1, 0, 0, 1, 0]}},
                    {"set": {"rates": [[M.gen_rate(rng, False) for _ in range(6)]]}},
                    {"set": {"mapping": [rng.randrange(6) for _ in range(6)]}}]
    cases.append(c)
    for route_kind in ("ctor", "json"):
        c = special("GeneralNonSymmetric", n=3)
        c["route"] = {"kind": route_kind, "mapping": "list", "order": 3, "form": "inline", "fulltype": False}
        c["mapping"] = list(range(6))
        c["params"]["rates"] = [[M.gen_rate(rng, False) for _ in range(6)]]
        c["holder"] = {}
        c["updates"] = [{"set": {"mapping": [rng.randrange(6) for _ in range(6)]}},
                        {"set": {"rates": [[M.gen_rate(rng, False) for _ in range(6)]]}}]
        cases.append(c)
    # every parameter argument as every AbstractParameter subclass (view of a shared vector, transformed, cat), as
    # python objects and as JSON, with one reassignment through the holder
    import c04c05_holders as H

    for kind in ("HKY", "GTR", "GeneralSymmetric", "GeneralNonSymmetric") + (("MG94",) if th else ()):
        for target in M.PARAM_NAMES[kind]:
            for hk in H.KINDS[1:]:
                for rk in ("ctor", "json"):
                    r = {"kind": rk, "order": rng.randrange(1000), "form": "inline", "fulltype": False}
                    if kind.startswith("General"):
                        r["mapping"] = "list"
                    c = special(kind, batch=rng.choice(["none", "all"]), n=4 if kind.startswith("General") else None)
                    c["route"] = r
                    c["holder"] = {nm: (hk if nm == target else "plain") for nm in M.PARAM_NAMES[kind]}
                    M.add_updates(rng, c, 1, which=[target])
                    cases.append(c)
    # construction routes: every class x every route x every subset of the optional keys
    for kind in ("JC69", "GeneralJC69", "LG", "WAG", "HKY", "GTR", "GeneralSymmetric", "GeneralNonSymmetric", "MG94"):
        for rk in ("kw", "json", "cli"):
            mappings = ("absent", "list", "object") if kind.startswith("GeneralS") or kind == "GeneralNonSymmetric" else (None,)
            norms = ("absent", True, False) if kind == "GeneralNonSymmetric" else (None,)
            if rk != "json":
                mappings, norms = mappings[:1] if rk == "cli" else mappings[1:2], norms if rk == "kw" else norms[:1]
            if kind in ("GeneralJC69",) and rk == "cli":
                continue
            for mp in mappings:
                for nz in norms:
                    for form in (("inline", "ref") if rk == "json" else ("inline",)):
                        r = {"kind": rk, "order": rng.randrange(1000), "form": form, "fulltype": form == "ref"}
                        if mp is not None:
                            r["mapping"] = mp
                        if nz is not None:
                            r["normalize"] = nz
                        c = M.gen_case(rng, kind, dyadic=False, batch="none", route=r,
                                       n=rng.choice([3, 4, 5]) if kind.startswith("General") else None,
                                       code=rng.randrange(15) if kind == "MG94" else None)
                        if kind == "MG94":
                            c.pop("updates", None)
                        cases.append(c)
    weights = [("HKY", 40), ("GTR", 40), ("GeneralSymmetric", 40), ("GeneralNonSymmetric", 35), ("Empirical", 15)]
    mult = 6 if th else 1
    for kind, w in weights:
        for i in range(w * mult):
            dy = i % 3 == 0
            batch = ("none", "all", "subset", "none", "two")[i % 5]
            cases.append(M.gen_case(rng, kind, dyadic=dy, batch=batch))
    return cases


def run(ck: Check):
    use_repo()
    import torch

    torch.set_num_threads(2)
    torch.set_default_dtype(torch.float64)
    ck.rule = (
        "one case = one substitution model instance (class, state count / genetic code, mapping, parameter values, "
        "which parameters carry a sample dimension) of the REAL classes with branch lengths (0, s, t, s+t) per slice: "
        "q(), norm, frequencies and p_t compared with the Lean model / reconstruction / Taylor oracle and checked "
        "against the property's statements; distinct = distinct (class, n, code, mapping prefix, batching pattern, "
        "quantised parameter values); non-trivial = every case except parameter-free JC69/LG/WAG repeats"
    )
    ck.assumptions += [
        "torch.linalg.eigh returns (e, V) with S = V diag(e) V^-1 and Tensor.inverse returns V^-1 (hypotheses of "
        "recon_eq_exp; residuals spot-checked numerically on every eigen-path case)",
        "torch.matrix_exp (GeneralNonSymmetric) is trusted base; its output is compared with the Taylor oracle only",
        "float64 with torch default dtype float64 (as the torchtree CLI sets it)",
        "theorems are over the reals / exact fields; the tolerance on transition probabilities is 1e-10 + "
        "100 eps ||tQ||_inf sqrt(pi_max/pi_min) (rounding-error scale of any double-precision evaluation of exp(tQ))",
        "frequencies are floored at 1e-4 (ratio up to 1e4) and rates span 1e-4..1e4 in the generated cases",
        "parameter-batching patterns other than none/all may raise inside a builder (no value returned)",
    ]
    ck.trusted += ["torch.linalg.eigh, Tensor.inverse, torch.matrix_exp, torch.exp, matmul, broadcasting, indexing "
                   "(modelled as parameters / not verified)",
                   "libm exp/sqrt behind Lean Float (used to run the model only)"]
    lean_src, tr_ok, note = tr_subst.translate(REPO)
    if not tr_ok:
        ck.notes.append("translator: " + note)
    ck.extra["translator_recognised_source"] = tr_ok
    opt_src, opt_ok, opt_note, _ = tr_options.translate(REPO, "C04")
    if not opt_ok:
        ck.notes.append("options translator: " + opt_note)
    ck.extra["options_translator_recognised_source"] = opt_ok
    ok, broken = ck.lean_side({"TTGen/C04Tables.lean": lean_src, "TTGen/C04Options.lean": opt_src},
                              ["TTModel.C04_Subst", "TTGen.C04Tables", "TTGen.C04Options", "TTProofs.Props.C04", "drv_c04"],
                              "TTProofs/Props/C04.lean")
    import c05 as _c05

    ck.extra["tensor_constructors_without_dtype"] = _c05.scan_constructors(
        ["torchtree/evolution/substitution_model/" + f for f in
         ("abstract.py", "nucleotide.py", "general.py", "codon.py", "amino_acid.py")])
    drv = None
    try:
        drv = ck.driver("drv_c04")
    except Exception as e:
        ck.notes.append(f"driver unavailable: {e}")

    failures = []

    counter = [0]

    def explore(c, with_model=True):
        # anything unexpected read from the implementation is a recorded mismatch, never a harness crash
        try:
            _explore(c, with_model)
        except Exception as e:
            ck.mismatch("harness could not interpret the implementation's output", {"case": c, "error": repr(e)[:300]})

    def _explore(c, with_model=True):
        outs = M.impl_eval(c)
        counter[0] += 1
        if outs[0]["status"] == "ok" and counter[0] % 4 == 0 and c["kind"] != "MG94":
            # evaluation under no_grad / with leaves requiring grad must agree bitwise with the plain one
            for mode in ("no_grad", "requires_grad"):
                cc, want = dict(c, grad=mode, deepcopy=False), outs
                if mode == "requires_grad" and c.get("updates"):
                    # in-place update spellings are forbidden by torch on leaves that require grad: plain assignment
                    cc["updates"] = [dict(u, mode="assign") for u in c["updates"]]
                if mode == "requires_grad" and "view" in (c.get("holder") or {}).values():
                    # assigning through a view writes in place into a leaf that requires grad (torch forbids it;
                    # ViewParameter's business): first evaluation only
                    cc["updates"], want = [], outs[:1]
                alt = M.impl_eval(cc)
                same = len(alt) == len(want) and all(
                    a["status"] == b["status"] and (a["status"] != "ok" or (
                        all(np.array_equal(x, y) for x, y in zip(a["Q"], b["Q"]))
                        # p_t: torch's eigh/inverse/matmul kernels may differ by an ulp when a graph is recorded
                        and np.abs(a["P"] - b["P"]).max() <= (1e-6 if M.low_precision(c) else 1e-13 * max(
                            1.0, float(np.sqrt(max(f.max() / f.min() for f in a["freqs"]))) if all(f.min() > 0 for f in a["freqs"]) else 1.0))))
                    for a, b in zip(alt, want))
                if not same:
                    ck.mismatch("evaluation differs under grad mode " + mode, {"case": c})
                    failures.append((dict(c, grad=mode, deepcopy=False), "grad_mode_changes_values", {"mode": mode}))
        ck.bucket("regime=" + M.regime_of(c) + ("/deepcopy" if c.get("deepcopy") else "") + ("/move" if c.get("move") else ""))
        trivial = c["kind"] in ("JC69", "LG", "WAG")
        route = c.get("route") or {"kind": "ctor"}
        ck.bucket("route=" + route["kind"] + "".join(f"/{x}={route[x]}" for x in ("mapping", "normalize") if x in route))
        if M.OBSERVED and outs[0]["status"] == "ok":
            ck.mismatch("object built through this route does not hold the options it was given",
                        {"case": c, "observed": list(M.OBSERVED)})
        if route["kind"] != "ctor" and outs[0]["status"] == "ok":
            base = dict(c, route=dict({x: route[x] for x in ("normalize",) if x in route}, kind="ctor"), holder={})
            base.pop("updates", None)
            ref = M.impl_eval(base)[0]
            if ref["status"] != "ok" or any(not np.array_equal(a, b) for a, b in zip(ref["Q"], outs[0]["Q"])) \
                    or np.abs(ref["P"] - outs[0]["P"]).max() > 1e-13:
                ck.mismatch("object built through this route evaluates differently from the constructor-built one",
                            {"case": c, "constructor_status": ref["status"]})
        for k, out in enumerate(outs):
            ck_ = M.state_for(c, k, out) if out["status"] == "ok" else M.state_at(c, k)
            if ck_.pop("_holder_mismatch", None):
                ck.mismatch("a parameter object does not hold the values it was given", {"case": c, "step": k})
            st = out["status"]
            hist = "/update:" + "+".join(sorted(c["updates"][k - 1]["set"])) if k else ""
            ck.case(key=key_of(ck_) + (k, c.get("layout")) + ((tuple(c["ts"][0]),) if trivial else ()),
                    bucket=bucket_of(c) + hist + ("" if st == "ok" else "/" + st),
                    sample=None if c["n"] > 4 else {"case": c, "step": k, "impl_q_row0": [float(x) for x in out["Q"][0][0]] if st == "ok" else out["error"]})
            ck.bucket("layout=" + c.get("layout", "BK") + ("/batched-branch-lengths" if c["R"] > 1 else ""))
            if st != "ok":
                if c.get("move") == "to_other" and st == "raise":
                    return  # converting an input-free model to another dtype may be refused; it must not be wrong
                if M.supported_batching(c) or st == "shape":
                    ck.mismatch("implementation raised / returned a wrong shape", {"case": c, "step": k, "error": out["error"]})
                    failures.append((c, "raises", {"step": k, "error": out["error"]}))
                return
            for name, detail in M.oracle(ck_, out):
                failures.append((c, name, dict(detail, step=k)))
            if with_model and drv is not None:
                if c["kind"] == "MG94" and k == 0:
                    rep = drv.ask(f"masks {c['code']}")
                    w = rep.split()
                    if rep == "bad-op" or int(w[0]) != c["n"] or tuple(w[1:]) != out["masks"]:
                        ck.mismatch("MG94 masks differ from the model computed from the generated tables", {"case": c})
                n0 = len(ck.mismatches)
                compare_q(ck, drv, ck_, out)
                # quick tier: the per-genetic-code dyadic MG94 cases skip the (61..64)^3 Lean Taylor run; the
                # float MG94 cases and every other model keep it
                compare_p(ck, drv, ck_, out, lean_taylor=ck.thorough() or not (c["kind"] == "MG94" and c["dyadic"]))
                if k:
                    for mm in ck.mismatches[n0:]:
                        mm["detail"]["after_assignments"] = c["updates"][:k]

    for c in plan(ck):
        explore(c)

    if ck.mismatches and not failures:
        # an object built late in this process must behave like one built in a fresh process (module-level caches,
        # memo tables): re-evaluate the mismatching cases in a fresh interpreter
        seen_kinds = set()
        for mm in ck.mismatches:
            cc = mm["detail"].get("case")
            if not cc or cc["kind"] in seen_kinds or len(seen_kinds) >= 3:
                continue
            seen_kinds.add(cc["kind"])
            here = M.impl_eval(cc)[0]
            fresh = fresh_process_q(cc)
            if here["status"] == "ok" and fresh is not None and any(
                    np.abs(a - b).max() > 1e-12 * max(1.0, np.abs(b).max()) for a, b in zip(here["Q"], fresh)):
                failures.append((cc, "differs_from_fresh_process", {"max_dev": float(max(
                    np.abs(a - b).max() for a, b in zip(here["Q"], fresh)))}))
    if (not ok or ck.mismatches) and not failures:
        kinds = ["HKY", "GTR", "GeneralSymmetric", "GeneralNonSymmetric", "Empirical", "MG94", "JC69", "GeneralJC69",
                 "LG", "WAG"]
        for i in range(1500 if ck.thorough() else 400):
            explore(M.gen_case(ck.rng, kinds[i % len(kinds)] if i % 3 else ck.rng.choice(kinds[:4]),
                               dyadic=False, batch=("none", "all", "subset")[i % 3]), with_model=False)
            if failures:
                break
    if drv:
        drv.close()
    if M.CLI_NOTES:
        ck.notes += sorted(set(M.CLI_NOTES))
        ck.extra["cli_json_not_loadable"] = sorted(set(M.CLI_NOTES))

    if failures:
        seen = set()
        for c, name, detail in failures:
            sig = f"{c['kind']}:{name}"
            if sig in seen:
                continue
            seen.add(sig)
            small = shrink(c, name)
            outs = M.impl_eval(small)
            k = len(outs) - 1
            out = outs[k]
            det = M.oracle(M.state_for(small, k, out), out) if out["status"] == "ok" else [("raises", out["error"])]
            det = [d for d in det if d[0] == name] or det
            if name == "differs_from_fresh_process":
                det = [(name, dict(detail, note="q() of this object, built after the other objects of this run, differs "
                                   "from q() of the same case evaluated in a fresh interpreter"))]
            after = f" after {len(small.get('updates', []))} parameter assignment(s) on a live object" if small.get("updates") else ""
            ck.violation(sig, f"{c['kind']} violates {name}{after}: {json.dumps(det[:1], default=str)[:300]}",
                         {"case": small, "detail": det[:3], "broken_obligations": broken,
                          "replay_cmd": "./check C04 --replay <this file>"})
    elif not ok or ck.mismatches:
        ck.violation("substitution_model:unproved",
                     "C04 theorems or the model/implementation correspondence no longer check",
                     {"broken_obligations": broken, "mismatches": ck.mismatches[:5], "translator_note": note},
                     found_input=False)


def fresh_process_q(c):
    """q() of the same case evaluated in a fresh interpreter (no history in the process)"""
    import os
    import subprocess
    import tempfile

    with tempfile.NamedTemporaryFile("w", suffix=".json", delete=False) as f:
        json.dump(c, f)
        path = f.name
    code = ("import sys, json; sys.path.insert(0, %r); sys.path.insert(0, %r); from common import use_repo; use_repo();"
            "import torch; torch.set_num_threads(1); torch.set_default_dtype(torch.float64); import c04_models as M;"
            "o = M.impl_eval(json.load(open(%r)))[0];"
            "print(json.dumps([q.tolist() for q in o['Q']]) if o['status'] == 'ok' else 'null')"
            % (str(VERIF / "harness"), str(VERIF / "harness" / "translators"), path))
    try:
        r = subprocess.run([sys.executable, "-c", code], capture_output=True, text=True, timeout=120,
                           env=dict(os.environ))
        val = json.loads(r.stdout.strip().splitlines()[-1]) if r.returncode == 0 and r.stdout.strip() else None
        return None if val is None else [np.array(q) for q in val]
    except Exception:
        return None
    finally:
        os.unlink(path)


def failing_steps(c, name):
    bad = []
    if name == "differs_from_fresh_process":
        return [0]
    for k, out in enumerate(M.impl_eval(c)):
        if out["status"] != "ok":
            if name == "raises":
                bad.append(k)
        elif any(nm == name for nm, _ in M.oracle(M.state_for(c, k, out), out)):
            bad.append(k)
    return bad


def shrink(c, name):
    """cut the history after the first failing step, drop assignments that are not needed; without a history:
    single slice, unbatched, if that still fails"""
    if c.get("updates"):
        k = min(failing_steps(c, name) or [0])
        if k == 0:
            c = M.state_at(c, 0)
        else:
            best = dict(c, updates=c["updates"][:k])
            for i in range(k - 2, -1, -1):
                cc = dict(best, updates=best["updates"][:i] + best["updates"][i + 1:])
                if failing_steps(cc, name):
                    best = cc
            return best
    if c["R"] > 1:
        for s in range(c["R"]):
            cc = dict({x: y for x, y in c.items() if x not in ("S1", "S2")}, S=1, R=1, batch={k: False for k in c["batch"]},
                      params={k: [M.slice_param(c, k, s if c["S"] > 1 else 0)] for k in c["params"]}, ts=[c["ts"][s]])
            if failing_steps(cc, name):
                return cc
    return c


def replay(path: str) -> int:
    use_repo()
    import torch

    torch.set_num_threads(2)
    torch.set_default_dtype(torch.float64)
    obj = json.loads(Path(path).read_text())
    c = obj.get("case")
    if not c:
        print("replay names broken obligations only:", obj.get("broken_obligations"), obj.get("mismatches"))
        return 1
    outs = M.impl_eval(c)
    print("case:", json.dumps(c)[:2000])
    rc = 0
    for k, out in enumerate(outs):
        print(f"-- step {k}" + (f": after assigning {json.dumps(c['updates'][k - 1]['set'])[:300]}" if k else ": as constructed"))
        if out["status"] != "ok":
            print("implementation raises / wrong shape:", out["error"])
            return 1
        bad = M.oracle(M.state_for(c, k, out), out)
        for name, detail in bad:
            print("VIOLATES", name, detail)
            rc = 1
        if not bad:
            print("all statements of the property hold on this input")
    return rc
