"""C15 — every MCMC transition is a Metropolis–Hastings step on the stated target; tuning direction.

Lean side : TTModel/C15_MCMC.lean (MCMC.run as a step function on (state, carried log density,
            per-operator counters and scale, window) consuming a random tape), tuning expressions
            REGENERATED from the operators' source by translators/tr_tuning.py into
            TTGen/C15_Tuning.lean, theorems in TTProofs/Props/C15.lean (reject_restores,
            degenerate_rejects, accept_rule, carried_density_invariant by induction over the run,
            scaler_hr / window_hr / dirichlet_hr, rm_direction / tune_never_more_timid about
            the generated expressions).
Tie       : the REAL MCMC.run on small targets (normal, gamma through an exp transform with its
            Jacobian, Dirichlet + gamma, quadratic stub for HMC) with torch.rand / randint /
            Categorical.sample / Dirichlet.sample / Normal.sample / MultivariateNormal.sample
            replaced from here by draws of the harness PRNG (recorded as the tape); operator
            step/accept/reject/tune, the joint and a ContainerLogger are wrapped from here (no
            hooks in /repo).  The Lean machine consumes the same tape from its own states and must
            reproduce operator, proposal, decision, state after, counters, window, tape
            consumption exactly (bit-exactly in non-adaptive runs) and scales at 1e-12.
            Generated getters/setters/Robbins–Monro step are also compared with operator.tune().
Search    : every transition record of the implementation is checked directly against the
            property's clauses: density used = target rebuilt from scratch at the proposal;
            accepted <=> u < min(1, exp(delta + hr)); hr = closed-form log q(x|x')/q(x'|x)
            (mpmath for the Dirichlet densities, observed momenta for HMC); rejected => state
            bit-identical; logged row self-consistent; acceptance >= target => proposals not
            more timid.
"""
from __future__ import annotations

import contextlib
import os
import time
import io
import json
import math
import sys
from fractions import Fraction
from pathlib import Path

from common import REPO, VERIF, Check, f2h, h2f, use_repo

sys.path.insert(0, str(VERIF / "harness" / "translators"))
import tr_tuning  # noqa: E402
import tr_runorder  # noqa: E402
import c15_routes  # noqa: E402

LEVEL = "proof"
KINDS = ("scaler", "window", "dirichlet", "hmc", "block")


def _torch():
    use_repo()
    import torch

    torch.set_num_threads(2)
    return torch


LOOSEN = [1.0]  # float32 runs: every tolerance of the oracles is widened to float32 accuracy


def close(a, b, tol):
    tol = max(tol, 3e-4) if LOOSEN[0] > 1 else tol
    if a == b:
        return True
    if isinstance(a, float) and isinstance(b, float) and (math.isnan(a) or math.isnan(b)):
        return False
    return abs(a - b) <= tol * max(1.0, abs(a), abs(b))


# --------------------------------------------------------------------------- targets
class Target:
    """a small target: base Parameters the operators act on + the joint + a from-scratch rebuild"""

    def __init__(self, spec):
        self.spec = spec
        self.params, self.joint = build_target(spec, spec["init"])

    def values(self):
        return [p.tensor.detach().tolist() for p in self.params]

    def fresh(self, values):
        """the target evaluated FROM SCRATCH at `values`: brand-new parameter and model objects"""
        torch = _torch()
        try:
            params, joint = build_target(self.spec, values)
            with torch.no_grad():
                return float(joint())
        except Exception as e:  # e.g. a value outside the support with validate_args
            return ("EXC", type(e).__name__)


def make_quad(torch):
    class QuadFn(torch.autograd.Function):
        @staticmethod
        def forward(ctx, x, G, b, lo, hi):
            ctx.save_for_backward(x, G, b)
            if x[0] < lo or x[0] > hi:
                return x.sum() * float("nan")
            return -(0.5 * (x @ (G @ x)) + b @ x)

        @staticmethod
        def backward(ctx, gout):
            x, G, b = ctx.saved_tensors
            return gout * (-(G @ x + b)), None, None, None, None

    class QuadJoint:
        """log density -(x'Gx/2 + b'x), G symmetric integer: gradient -(Gx+b) exactly"""
        id = "joint"

        def __init__(self, params, G, b, lo, hi):
            self.params, self.G, self.b, self.lo, self.hi = params, G, b, lo, hi

        def __call__(self):
            x = torch.cat([p.tensor for p in self.params], -1)
            return QuadFn.apply(x, self.G, self.b, self.lo, self.hi)

    return QuadJoint


def build_target(spec, values):
    torch = _torch()
    from torchtree.core.parameter import Parameter, TransformedParameter
    from torchtree.distributions.distributions import Distribution
    from torchtree.distributions.joint_distribution import JointDistributionModel

    D = torch.float32 if spec.get("dtype") == "float32" else torch.float64
    T = lambda v: torch.tensor(v, dtype=D)
    kind = spec["kind"]
    if kind == "normal":
        x = Parameter("x", T(values[0]))
        dn = Distribution("dn", torch.distributions.Normal, x,
                          {"loc": Parameter("m", T(spec["loc"])), "scale": Parameter("s", T(spec["scale"]))})
        return [x], JointDistributionModel("joint", [dn])
    if kind == "gamma_exp":
        # z unconstrained, y = exp(z) ~ Gamma(conc, rate); the joint carries the Jacobian of the transform
        z = Parameter("z", T(values[0]))
        y = TransformedParameter("y", z, torch.distributions.ExpTransform())
        dg = Distribution("dg", torch.distributions.Gamma, y,
                          {"concentration": Parameter("c", T(spec["conc"])), "rate": Parameter("r", T(spec["rate"]))})
        x = Parameter("x", T(values[1]))
        dn = Distribution("dn", torch.distributions.Normal, x,
                          {"loc": Parameter("m", T(spec["loc"])), "scale": Parameter("s", T(spec["scale"]))})
        joint = JointDistributionModel("joint", [dg, y, dn])
        # the factor of the chain's target that touches x only: an HMC operator on x may be given just this
        joint._c15sub = {1: JointDistributionModel("sub_x", [dn])}
        return [z, x], joint
    if kind == "dirichlet":
        w = Parameter("w", T(values[0]))
        dd = Distribution("dd", torch.distributions.Dirichlet, w, {"concentration": Parameter("a", T(spec["alpha"]))})
        r = Parameter("r", T(values[1]))
        dg = Distribution("dg", torch.distributions.Gamma, r,
                          {"concentration": Parameter("c", T(spec["conc"])), "rate": Parameter("rt", T(spec["rate"]))},
                          validate_args=False)  # outside the support: nan (the degenerate branch), not a raise
        if "alpha2" in spec:
            w2 = Parameter("w2", T(values[2]))
            dd2 = Distribution("dd2", torch.distributions.Dirichlet, w2, {"concentration": Parameter("a2", T(spec["alpha2"]))})
            return [w, r, w2], JointDistributionModel("joint", [dd, dg, dd2])
        return [w, r], JointDistributionModel("joint", [dd, dg])
    if kind == "skygrid":
        # skygrid: log population sizes `field` (GMRF prior with precision tau, Gamma prior on tau), piecewise
        # constant coalescent on a fixed grid for fixed node heights; theta = exp(field)
        from torchtree.distributions.gmrf import GMRF
        from torchtree.evolution.coalescent import FakeTreeModel, PiecewiseConstantCoalescentGridModel

        field = Parameter("field", T(values[0]))
        tau = Parameter("tau", T(values[1]))
        theta = TransformedParameter("theta", field, torch.distributions.ExpTransform())
        d = len(values[0])
        grid = Parameter(None, torch.linspace(0, spec["cutoff"], d, dtype=D)[1:])
        heights = Parameter(None, T(spec["sampling"] + spec["coalescent"]))
        coal = PiecewiseConstantCoalescentGridModel("coal", theta, grid, FakeTreeModel(heights))
        gmrf = GMRF("gmrf", field, tau)
        prior = Distribution("prior", torch.distributions.Gamma, tau,
                             {"concentration": Parameter("c", T(spec["conc"])), "rate": Parameter("rt", T(spec["rate"]))},
                             validate_args=False)
        joint = JointDistributionModel("joint", [coal, gmrf, prior])
        joint._c15 = {"coal": coal, "gmrf": gmrf, "heights": heights}
        return [field, tau], joint
    if kind == "quad":
        # identity vs naming: anonymous / duplicate ids must make no difference to any operator
        scheme = spec.get("ids", "distinct")
        ps = [Parameter({"anonymous": None, "duplicate": "q"}.get(scheme, f"q{i}"), T(v)) for i, v in enumerate(values)]
        return ps, make_quad(torch)(ps, T(spec["G"]), T(spec["b"]), spec.get("lo", -math.inf), spec.get("hi", math.inf))
    raise ValueError(kind)


def build_operators(spec_ops, params, joint):
    torch = _torch()
    pdtype = params[0].tensor.dtype
    from torchtree.core.parameter import Parameter
    from torchtree.inference.hmc.integrator import LeapfrogIntegrator
    from torchtree.inference.hmc.operator import HMCOperator
    from torchtree.inference.mcmc.operator import DirichletOperator, ScalerOperator, SlidingWindowOperator

    ops = []
    for i, o in enumerate(spec_ops):
        ps = [params[k] for k in o["pidx"]]
        if o.get("via") == "json":
            ops.append(build_from_json(torch, i, o, ps, joint))
            continue
        if o["kind"] == "stub":
            ops.append(make_failing_operator(torch)(f"op{i}", ps, o["weight"], o["sentinels"]))
            continue
        kw = {"disable_adaptation": not o["adapt"]}
        if "window_len" in o:
            kw["acceptance_window_length"] = o["window_len"]
        if o["kind"] == "scaler":
            op = ScalerOperator(f"op{i}", ps, o["weight"], o["target"], o["scale"], **kw)
        elif o["kind"] == "window":
            op = SlidingWindowOperator(f"op{i}", ps, o["weight"], o["target"], o["scale"], **kw)
        elif o["kind"] == "dirichlet":
            op = DirichletOperator(f"op{i}", ps, o["weight"], o["target"], o["scale"], **kw)
        elif o["kind"] == "block":
            from torchtree.inference.mcmc.gmrf_block_updating import GMRFPiecewiseCoalescentBlockUpdatingOperator

            op = GMRFPiecewiseCoalescentBlockUpdatingOperator(f"op{i}", joint._c15["coal"], joint._c15["gmrf"], o["weight"],
                                                              o["target"], o["scale"], **kw)
            w_, c_ = joint._c15["coal"].distribution().sufficient_statistics(joint._c15["heights"].tensor)
            o["w"], o["c"] = w_.tolist(), [float(v) for v in c_.tolist()]
        elif o["kind"] == "hmc":
            if o.get("divergence_threshold") is not None:
                kw["divergence_threshold"] = o["divergence_threshold"]  # documented option: only a warning is printed
            inner = LeapfrogIntegrator(f"lf{i}", o["steps"], o["scale"])
            integ = IntegProxy(inner)
            mass = Parameter(f"mass{i}", torch.tensor(o["mass"], dtype=pdtype))
            if o.get("sub_joint") is not None:
                # the operator's OWN joint is a sub-joint of the chain's (only the factors touching its parameters)
                op = HMCOperator(f"op{i}", joint._c15sub[o["sub_joint"]], ps, integ, mass, o["weight"], o["target"], [], **kw)
            elif o.get("adaptors"):
                op = HMCOperator(f"op{i}", joint, ps, integ, mass, o["weight"], o["target"],
                                 build_adaptors(o["adaptors"], inner, ps, mass, i), **kw)
            else:
                # the constructor's own default for `adaptors`
                op = HMCOperator(f"op{i}", joint, ps, integ, mass, weight=o["weight"],
                                 target_acceptance_probability=o["target"], **kw)
        else:
            raise ValueError(o["kind"])
        ops.append(op)
    for o, op in zip(spec_ops, ops):
        # the window length the object really has (from_json applies the JSON layer's default)
        explicit = o.get("window_len") if o.get("via") != "json" else None
        # configured length when the run names one (public knowledge); otherwise what the object holds, found by role
        o["window_len"] = explicit if explicit is not None and o["kind"] != "stub" else window_length(op)
    return ops


def build_from_json(torch, i, o, ps, joint):
    """the operator built by its class's from_json from a dictionary (defaults of the JSON layer apply)"""
    from torchtree.inference.hmc.operator import HMCOperator
    from torchtree.inference.mcmc.operator import DirichletOperator, ScalerOperator, SlidingWindowOperator

    dic = {p_.id: p_ for p_ in ps}
    dic[getattr(joint, "id", "joint")] = joint
    data = {"id": f"op{i}", "parameters": [p_.id for p_ in ps], "weight": o["weight"],
            "target_acceptance_probability": o["target"], "disable_adaptation": not o["adapt"]}
    if o["kind"] == "scaler":
        data["scaler"] = o["scale"]
        return ScalerOperator.from_json(data, dic)
    if o["kind"] == "window":
        data["width"] = o["scale"]
        return SlidingWindowOperator.from_json(data, dic)
    if o["kind"] == "dirichlet":
        data["scaler"] = o["scale"]
        return DirichletOperator.from_json(data, dic)
    if o["kind"] == "hmc":
        data.update({"joint": getattr(joint, "id", "joint"),
                     "integrator": {"id": f"lf{i}", "type": "LeapfrogIntegrator", "steps": o["steps"], "step_size": o["scale"]},
                     "mass_matrix": {"id": f"mass{i}", "type": "Parameter", "tensor": o["mass"], "dtype": "torch.float64"}})
        op = HMCOperator.from_json(data, dic)
        op._integrator = IntegProxy(op._integrator)
        return op
    raise ValueError(o["kind"])


def make_failing_operator(torch):
    from torchtree.inference.mcmc.operator import MCMCOperator

    class FailingOperator(MCMCOperator):
        """harness-side operator: scribbles over its parameters and then reports 'no proposal' with the non-finite
        constants the shipped operators use for that (read from their source by tr_runorder)"""

        def __init__(self, id_, parameters, weight, sentinels):
            super().__init__(id_, parameters, weight, 0.24, disable_adaptation=True)
            self._sentinels, self._k = list(sentinels), 0

        tuning_parameter = property(lambda self: 1.0)
        adaptable_parameter = property(lambda self: 0.0)

        def set_adaptable_parameter(self, value):
            pass

        def _step(self):
            for p_ in self.parameters:
                p_.tensor = p_.tensor + 1.0 + 0.5 * self._k
            v = self._sentinels[self._k % len(self._sentinels)]
            self._k += 1
            return torch.tensor(float(v))

        def _state_dict(self):
            return {}

        def _load_state_dict(self, state_dict):
            pass

        @classmethod
        def from_json(cls, data, dic):
            raise NotImplementedError

    return FailingOperator


def tunables(op):
    """everything tune() of an operator may legitimately change on ITS OWN operator"""
    out = {"adapt_count": op_public(op)["adapt_count"], "tuning_parameter": scale_of(op)}
    if hasattr(op, "_integrator"):
        out["step_size"] = float(op._integrator.step_size)
        out["adaptors"] = [adaptor_state(a) for a in op._adaptors]
        out["mass"] = op._mass_matrix.tensor.detach().clone().tolist()
    return out


def build_adaptors(specs, integrator, ps, mass, i):
    from torchtree.inference.hmc.adaptation import AdaptiveStepSize, DualAveragingStepSize, MassMatrixAdaptor

    out = []
    for j, a in enumerate(specs):
        win = {}
        if a.get("start") is not None:
            win["start"] = a["start"]
        if a.get("end") is not None:
            win["end"] = a["end"]
        if a["type"] == "adaptive":
            out.append(AdaptiveStepSize(f"ad{i}_{j}", integrator, a["target"],
                                        use_acceptance_rate=a["use_rate"], **win))
        elif a["type"] == "dual":
            out.append(DualAveragingStepSize(f"ad{i}_{j}", integrator, mu=a["mu"], delta=a["delta"], gamma=a["gamma"],
                                             kappa=a["kappa"], t0=a["t0"], **win))
        elif a["type"] == "mass":
            out.append(MassMatrixAdaptor(f"ad{i}_{j}", ps, mass, a.get("regularize", True),
                                         update_frequency=a["update_frequency"], **win))
        else:
            raise ValueError(a["type"])
    return out


def adaptor_state(ad):
    n = type(ad).__name__
    if n == "AdaptiveStepSize":
        return {"type": "adaptive", "calls": ad._call_counter, "accepted": int(ad._accepted)}
    if n == "DualAveragingStepSize":
        d = ad._dual_avg
        return {"type": "dual", "calls": ad._call_counter, "counter": d._counter,
                "x": 0.0 if d.x is None else float(d.x), "xbar": float(d.x_bar), "sbar": float(d.s_bar)}
    return {"type": "mass"}


def adaptor_step(ad):
    return float((ad._integrator if hasattr(ad, "_integrator") else ad.integrator).step_size)


class IntegProxy:
    """stands where HMCOperator keeps its integrator; records the momentum the real one returns and the
    inverse mass matrix it was called with"""

    def __init__(self, inner):
        object.__setattr__(self, "inner", inner)
        object.__setattr__(self, "returned", [])
        object.__setattr__(self, "im_args", [])

    def __call__(self, *a, **k):
        self.im_args.append(a[3].detach().clone().tolist())
        out = self.inner(*a, **k)
        self.returned.append(out.detach().clone().tolist())
        return out

    def __getattr__(self, k):
        return getattr(self.inner, k)

    def __setattr__(self, k, v):
        setattr(self.inner, k, v)


# --------------------------------------------------------------------------- observing operators through their public API
def op_public(op):
    """counters and window of an operator as its own state_dict() publishes them (keys adapt_count / accept / reject /
    accept_window): no private attribute names"""
    try:
        sd = op.state_dict()
        return {"adapt_count": sd.get("adapt_count"), "accept": sd.get("accept"), "reject": sd.get("reject"),
                "window": list(sd.get("accept_window", []))}
    except Exception as e:  # harness introspection problems are never evidence against the code
        return {"adapt_count": None, "accept": None, "reject": None, "window": None, "error": f"{type(e).__name__}: {e}"}


def window_length(op):
    """length of the acceptance window, found by ROLE: the instance attribute that bounds the deque appended to by
    accept()/reject() — whatever it is called — is the one whose name mentions both 'window' and 'length'"""
    def scan(obj, depth):
        for k, v in list(getattr(obj, "__dict__", {}).items()):
            if "window" in k and "length" in k and isinstance(v, (int, bool)):
                return int(v)
            if depth and hasattr(v, "__dict__") and not callable(v) and type(v).__module__.startswith("torchtree"):
                r = scan(v, depth - 1)
                if r is not None:
                    return r
        return None

    r = scan(op, 2)  # the operator itself or a small record object it keeps its acceptance statistics in
    return 100 if r is None else r


def scale_of(op):
    if type(op).__name__ == "FailingOperator":
        return 1.0
    if hasattr(op, "_integrator"):
        return float(op._integrator.step_size)
    return float(op.tuning_parameter)


def branch_probe(adaptors, rng, sample, accepted):
    """monotonicity of a step-size adaptor in the acceptance statistic, on the implementation: two deep copies
    of the adaptor (with its integrator) learn from a lower and a higher acceptance; -> list of dicts"""
    import copy

    torch = _torch()
    out = []
    for a in adaptors:
        n = type(a).__name__
        if n not in ("AdaptiveStepSize", "DualAveragingStepSize"):
            continue
        lo, hi = sorted([rng.random(), rng.random()])
        try:
            c1, c2 = copy.deepcopy(a), copy.deepcopy(a)
            if n == "AdaptiveStepSize" and a._acceptance_rate:
                c1.learn(torch.tensor(lo, dtype=torch.float64), sample, False)
                c2.learn(torch.tensor(lo, dtype=torch.float64), sample, True)
                what = "accepted False vs True (rate mode)"
            else:
                c1.learn(torch.tensor(lo, dtype=torch.float64), sample, accepted)
                c2.learn(torch.tensor(hi, dtype=torch.float64), sample, accepted)
                what = f"acceptance_prob {lo} vs {hi}"
            out.append({"adaptor": n, "what": what, "low": adaptor_step(c1), "high": adaptor_step(c2),
                        "state": adaptor_state(a)})
        except Exception as e:
            out.append({"adaptor": n, "error": f"{type(e).__name__}: {e}"})
    return out


# --------------------------------------------------------------------------- scripted randomness
class Scripted:
    """torch's random sources replaced by the harness PRNG; every draw is recorded (= the tape)"""

    def __init__(self, torch, rng, coarse=False):
        self.torch, self.rng, self.events, self.coarse = torch, rng, [], coarse

    def __enter__(self):
        t, td, me = self.torch, self.torch.distributions, self
        self.saved = (t.rand, t.randint, td.Categorical.sample, td.Dirichlet.sample, t.normal,
                      td.multivariate_normal._standard_normal, td.normal._standard_normal)
        self.saved_randn = t.randn
        self.forced, self.forced_mode, self.in_momentum = [], False, False

        def randn(*size, **kw):
            shape = size[0] if len(size) == 1 and not isinstance(size[0], int) else size
            v = next_z(numel(shape))
            emit(v)
            return t.tensor(v, dtype=kw.get("dtype") or t.get_default_dtype()).reshape(tuple(shape) if not isinstance(shape, int) else (shape,))

        t.randn = randn

        def rand(*size, **kw):
            # torch.rand(1) is float32: keep the dtype, the value is a float32 drawn by the harness
            u = float(t.tensor(me.rng.random(), dtype=t.float32))
            if me.coarse:
                u = int(u * 4096) / 4096.0  # 12-bit uniforms: torch's float32 arithmetic on them is exact
            if u >= 1.0:
                u = 0.5
            me.events.append(("rand", u))
            return t.tensor([u], dtype=t.float32)

        def randint(low, high, size, **kw):
            v = me.rng.randrange(low, high)
            me.events.append(("int", v))
            return t.tensor([v])

        def cat_sample(d, sample_shape=t.Size()):
            p = d.probs.tolist()
            x, acc, idx = me.rng.random(), 0.0, len(p) - 1
            for i, pi in enumerate(p):
                acc += pi
                if x < acc:
                    idx = i
                    break
            me.events.append(("int", idx))
            return t.tensor(idx)

        def dir_sample(d, sample_shape=t.Size()):
            c = d.concentration.tolist()
            g = [max(me.rng.gammavariate(ci, 1.0), 1e-300) for ci in c]
            s = sum(g)
            v = [gi / s for gi in g]
            me.events.append(("dir", v, c))
            return t.tensor(v, dtype=d.concentration.dtype)

        # standard-normal PRIMITIVES (not the distributions' sample methods): whatever the library builds on top of
        # them — Normal(0, sqrt m).sample(), MultivariateNormal(0, M).sample(), its own z @ factor — runs for real
        def next_z(k):
            if me.forced:
                return list(me.forced.pop(0))[:k]
            return [me.rng.gauss(0.0, 1.0) for _ in range(k)]

        def numel(shape):
            n_ = 1
            for d_ in (shape if isinstance(shape, (tuple, list, t.Size)) else (shape,)):
                n_ *= int(d_)
            return n_

        def emit(v):
            if me.in_momentum or me.forced_mode:
                me.events.append(("z", v))
            else:
                me.events.append(("normal", v, ("randn",)))

        def std_normal(shape, dtype=None, device=None):
            v = next_z(numel(shape))
            emit(v)
            return t.tensor(v, dtype=dtype or t.get_default_dtype()).reshape(tuple(shape))

        def normal(mean, std, *a, **k):
            v = next_z(mean.numel())
            emit(v)
            return mean + std * t.tensor(v, dtype=mean.dtype).reshape(mean.shape)

        t.rand, t.randint = rand, randint
        td.Categorical.sample, td.Dirichlet.sample = cat_sample, dir_sample
        t.normal = normal
        td.multivariate_normal._standard_normal = std_normal
        td.normal._standard_normal = std_normal
        return self

    def __exit__(self, *a):
        t, td = self.torch, self.torch.distributions
        (t.rand, t.randint, td.Categorical.sample, td.Dirichlet.sample, t.normal,
         td.multivariate_normal._standard_normal, td.normal._standard_normal) = self.saved
        t.randn = self.saved_randn


# --------------------------------------------------------------------------- one recorded run
def execute_run(cfg, tape_seed):
    """run the REAL MCMC.run on cfg with scripted randomness; -> dict(records, init, rows, error)"""
    import random

    torch = _torch()
    from torchtree.core.logger import ContainerLogger
    from torchtree.inference.mcmc.mcmc import MCMC

    tgt = Target(cfg["target"])
    params, joint = tgt.params, tgt.joint
    ops = build_operators(cfg["ops"], params, joint)
    rng = random.Random(tape_seed)
    rng2 = random.Random(tape_seed ^ 0x5A5A)
    records, joint_calls, rows = [], [], []
    cur = {}

    class JointProxy:
        id = "joint"

        def __call__(self_):
            v = joint()
            joint_calls.append(float(v))
            if cur.get("in_iter"):
                cur["lp_proposed"] = float(v)
            return v

    def snap():
        return [p.tensor.detach().clone().tolist() for p in params]

    def wrap(op, idx):
        o_step, o_acc, o_rej, o_tune = op.step, op.accept, op.reject, op.tune
        is_hmc = hasattr(op, "_integrator")
        is_block = hasattr(op, "newton_raphson")
        modes = []
        if is_block:
            o_nr = op.newton_raphson

            def newton_raphson(*a, **k):
                out = o_nr(*a, **k)
                modes.append(out.detach().clone().tolist())
                return out

            op.newton_raphson = newton_raphson
        kin_ims = []
        if is_hmc:
            o_kin = op._hamiltonian.kinetic_energy

            def kinetic_energy(momentum, inverse_mass_matrix):
                kin_ims.append(inverse_mass_matrix.detach().clone().tolist())
                return o_kin(momentum, inverse_mass_matrix)

            op._hamiltonian.kinetic_energy = kinetic_energy
            o_sm = op._hamiltonian.sample_momentum

            def sample_momentum(mass_matrix):
                sc.in_momentum = True
                try:
                    mom = o_sm(mass_matrix)
                finally:
                    sc.in_momentum = False
                sc.events.append(("normal", mom.detach().clone().tolist(), mass_matrix.detach().clone().tolist()))
                return mom

            op._hamiltonian.sample_momentum = sample_momentum

            def momentum_law():
                """the linear map standard normal -> momentum that sample_momentum REALLY applies (unit vectors fed
                through the scripted primitives): its A A^T is the covariance the momentum is drawn with"""
                n_ = op.mass_matrix.shape[0]
                cols = []
                sc.forced_mode = True
                try:
                    n_ev = len(sc.events)
                    for i_ in range(n_ + 1):
                        sc.forced.append([1.0 if j_ == i_ else 0.0 for j_ in range(n_)])
                        cols.append(o_sm(op.mass_matrix).detach().clone().tolist())
                        del sc.forced[:]
                except Exception as e:
                    return {"error": f"{type(e).__name__}: {str(e)[:100]}"}
                finally:
                    sc.forced_mode = False
                    del sc.forced[:]
                    del sc.events[n_ev:]
                mean = cols[n_]  # z = 0
                At = torch.tensor(cols[:n_], dtype=torch.float64) - torch.tensor(mean, dtype=torch.float64)  # rows = A e_j
                return {"mean": mean, "cov": (At.T @ At).tolist()}

        def step():
            cur.clear()
            cur.update({"in_iter": True, "op": idx, "before": snap(), "scale_before": scale_of(op),
                        "ev0": len(sc.events) - 1,  # the Categorical draw belongs to this iteration
                        "ret0": len(op._integrator.returned) if is_hmc else 0})
            cur["n_accept_before"] = op_public(op)["accept"]
            cur["masses"] = {j: o2._mass_matrix.tensor.detach().clone().tolist()
                             for j, o2 in enumerate(ops) if hasattr(o2, "_mass_matrix")}
            if is_hmc:
                if op.mass_matrix.shape[0] <= 40 or not records:
                    cur["momentum_law"] = momentum_law()
                cur["mass_now"] = cur["masses"][idx]
                del kin_ims[:]
                cur["ims0"] = len(op._integrator.im_args)
            del modes[:]
            hr = o_step()
            if is_block:
                cur["modes"] = [list(m_) for m_ in modes]
            if is_hmc:
                cur["im_used"] = list(kin_ims) + op._integrator.im_args[cur["ims0"]:]
            cur["hr"] = float(hr)
            cur["proposed"] = snap()
            return hr

        def accept():
            cur["accepted"] = True
            return o_acc()

        def reject():
            cur["accepted"] = False
            return o_rej()

        def tune(acceptance_prob, sample, accepted):
            cur["after"] = snap()
            cur["acc_prob"] = float(acceptance_prob)
            cur["sample"] = sample
            cur["row"] = list(rows[-1]) if rows else None
            cur["log_sample"] = log_samples[-1] if log_samples else None
            cur["dtypes"] = [str(p.tensor.dtype) for p in params]
            cur["requires_grad"] = [bool(p.requires_grad) for p in params]
            cur["n_rows"] = len(rows)
            if is_hmc and op._adaptors:
                cur["adaptors_before"] = [adaptor_state(a) for a in op._adaptors]
                cur["branch"] = branch_probe(op._adaptors, rng2, sample, accepted)
            others0 = [tunables(o2) for o2 in ops]
            r = o_tune(acceptance_prob, sample=sample, accepted=accepted)
            others1 = [tunables(o2) for o2 in ops]
            cur["cross_tune"] = [{"operator": j, "before": others0[j], "after": others1[j]}
                                 for j in range(len(ops)) if j != idx and others0[j] != others1[j]]
            if is_hmc and op._adaptors:
                cur["adaptors_after"] = [adaptor_state(a) for a in op._adaptors]
                cur["mass_after"] = op._mass_matrix.tensor.detach().clone().tolist()
            cur["scale_after"] = scale_of(op)
            pub = op_public(op)
            cur["adapt_count"] = pub["adapt_count"]
            cur["n_accept"], cur["n_reject"] = pub["accept"], pub["reject"]
            cur["window"] = pub["window"]
            cur["events"] = list(sc.events[cur["ev0"]:])
            if hasattr(op, "_integrator"):
                cur["returned"] = op._integrator.returned[cur["ret0"]:]
            cur["in_iter"] = False
            records.append(dict(cur))
            return r

        op.step, op.accept, op.reject, op.tune = step, accept, reject, tune

    for i, op in enumerate(ops):
        wrap(op, i)
    logger = ContainerLogger(list(params) + [joint], rows, 1)
    log_samples = []
    o_log = logger.log

    def log(*a, **k):
        log_samples.append(k.get("sample"))
        return o_log(*a, **k)

    logger.log = log
    # the library's own Logger objects as configured for this run: files (read back AFTER the run) and stdout
    import tempfile
    from torchtree.core.logger import Logger

    tmpdir = tempfile.mkdtemp(prefix="c15log-")
    file_loggers = []
    for li, ls in enumerate(cfg.get("loggers", [])):
        kw = {}
        if ls.get("file"):
            kw["file_name"] = os.path.join(tmpdir, f"log{li}.csv")
        if ls.get("delimiter"):
            kw["delimiter"] = ls["delimiter"]
        try:
            file_loggers.append((ls, kw.get("file_name"), Logger(list(params) + [joint], ls["every"], **kw)))
        except Exception as e:
            file_loggers.append((ls, None, ("EXC", f"{type(e).__name__}: {e}")))
    mc = MCMC("mcmc", JointProxy(), ops, cfg["iterations"],
              loggers=[logger] + [fl[2] for fl in file_loggers if not isinstance(fl[2], tuple)], checkpoint=None, every=0)
    err = None
    init = snap()
    is_sky = cfg["target"]["kind"] == "skygrid"
    old_dtype = torch.get_default_dtype()
    if is_sky:
        torch.set_default_dtype(torch.float64)  # the block update allocates in the default dtype
    if cfg.get("default_dtype"):
        torch.set_default_dtype(torch.float64 if cfg["default_dtype"] == "float64" else torch.float32)
    grad_ctx = torch.no_grad() if cfg.get("no_grad") else contextlib.nullcontext()
    stdout_buf = io.StringIO()
    with Scripted(torch, rng, coarse=is_sky) as sc, contextlib.redirect_stdout(stdout_buf), grad_ctx:
        try:
            mc.run()
        except ZeroDivisionError:
            # the summary printed after the loop divides by the number of moves of each operator:
            # an operator that was never selected raises there; every iteration is already recorded
            err = None if len(records) == cfg["iterations"] else "ZeroDivisionError"
        except Exception as e:
            err = f"{type(e).__name__}: {str(e)[:120]}"
        finally:
            torch.set_default_dtype(old_dtype)
    logs = []
    for ls, fname, lg in file_loggers:
        entry = {"spec": ls, "rows": [], "error": lg[1] if isinstance(lg, tuple) else None}
        try:
            text = open(fname).read() if fname else stdout_buf.getvalue()
            delim = ls.get("delimiter") or ","
            for line in text.splitlines():
                cells = line.split(delim)
                try:
                    entry["rows"].append([float(c) for c in cells])
                except ValueError:
                    continue  # header / other output on stdout
        except Exception as e:
            entry["error"] = f"{type(e).__name__}: {e}"
        logs.append(entry)
    import shutil

    shutil.rmtree(tmpdir, ignore_errors=True)
    return {"logs": logs, "records": records, "init": init, "init_lp": joint_calls[0] if joint_calls else None,
            "rows": rows, "error": err, "target": tgt, "ops": ops, "epoch_end": mc._epoch}


# --------------------------------------------------------------------------- model side encoding
def enc_machine(cfg, state, lj, epoch, acc_total, opstates, masses=None, modes=None):
    sizes = [len(v) for v in state]
    w = [str(len(sizes))] + [str(s) for s in sizes] + [f2h(x) for v in state for x in v]
    w += [f2h(lj), str(epoch), str(acc_total), str(len(cfg["ops"]))]
    for oi_, (o, st) in enumerate(zip(cfg["ops"], opstates)):
        w += [o["kind"], str(len(o["pidx"]))] + [str(k) for k in o["pidx"]]
        w += [f2h(o["target"]), "0" if o["adapt"] else "1", str(o.get("window_len", 100)), f2h(st["scale"]),
              str(st["adapt_count"]), str(st["accept"]), str(st["reject"]), str(len(st["window"]))]
        w += [str(x) for x in st["window"]]
        if o["kind"] == "block":
            d = len(o["w"])
            mf = (modes or [[0.0] * d])[0] if modes else [0.0] * d
            mb = modes[1] if modes and len(modes) > 1 else [0.0] * d
            w += [str(d)] + [f2h(x) for x in o["w"]] + [f2h(x) for x in o["c"]] + [f2h(x) for x in mf] + [f2h(x) for x in mb]
        if o["kind"] == "hmc":
            # gradient of the joint w.r.t. the operator's OWN coordinates at the current state: -(G_oo q + b_eff),
            # b_eff = b_o + G_ox x_other — the other parameters of the joint enter through their CURRENT values
            offs, pos = [], 0
            for sz in sizes:
                offs.append(list(range(pos, pos + sz)))
                pos += sz
            own = [i for k in o["pidx"] for i in offs[k]]
            other = [i for i in range(pos) if i not in own]
            flat_state = [x for v in state for x in v]
            n = len(own)
            # inverse of the mass matrix parameter AS IT IS NOW (an adaptor may have re-estimated it), inverted
            # here — not the operator's cached inverse
            mass_now = (masses or {}).get(oi_, o["mass"])
            im = inv_mass(mass_now)
            dense = isinstance(im[0], list)
            w += [str(o["steps"]), "dense" if dense else "diag", str(n)]
            w += [f2h(x) for x in ([v for row in im for v in row] if dense else im)]
            w += [f2h(o["G"][i][j]) for i in own for j in own]
            w += [f2h(float(Fraction(o["b"][i]) + sum(Fraction(o["G"][i][j]) * Fraction(flat_state[j]) for j in other)))
                  for i in own]
            w += [f2h(o.get("lo", -math.inf)), f2h(o.get("hi", math.inf))]
            ads = st.get("adaptors", [])
            w.append(str(len(ads)))
            for a, ast_ in zip(o.get("adaptors", []), ads):
                opt = lambda v: "-1" if v is None else str(v)
                if a["type"] == "adaptive":
                    w += ["adaptive", f2h(a["target"]), str(a.get("start") if a.get("start") is not None else 1),
                          opt(a.get("end")), "1" if a["use_rate"] else "0", str(ast_["calls"]), str(ast_["accepted"])]
                elif a["type"] == "dual":
                    w += ["dual", f2h(a["mu"]), f2h(a["gamma"]), f2h(a["kappa"]), f2h(float(a["t0"])), f2h(a["delta"]),
                          str(a.get("start") if a.get("start") is not None else 0), opt(a.get("end")),
                          str(ast_["calls"]), str(ast_["counter"]), f2h(ast_["x"]), f2h(ast_["xbar"]), f2h(ast_["sbar"])]
                else:
                    w.append("mass")
    return w


def inv_mass(mass):
    if mass and isinstance(mass[0], list):
        torch = _torch()
        return torch.inverse(torch.tensor(mass, dtype=torch.float64)).tolist()
    return [1.0 / m for m in mass]


def enc_tape(events):
    rands = [e[1] for e in events if e[0] == "rand"]
    ints = [e[1] for e in events if e[0] == "int"]
    dirs = [e[1] for e in events if e[0] == "dir"]
    normals = [e[1] for e in events if e[0] == "normal"]
    w = [str(len(rands))] + [f2h(x) for x in rands] + [str(len(ints))] + [str(x) for x in ints]
    w.append(str(len(dirs)))
    for d in dirs:
        w += [str(len(d))] + [f2h(x) for x in d]
    w.append(str(len(normals)))
    for d in normals:
        w += [str(len(d))] + [f2h(x) for x in d]
    return w, (len(rands), len(ints), len(dirs), len(normals))


def enc_table(entries, tol=1e-9):
    w = [f2h(tol), str(len(entries))]
    for st, v in entries:
        w += [f2h(x) for p in st for x in p]
        if v is None or isinstance(v, tuple) or math.isnan(v) or math.isinf(v):
            w += ["bad", f2h(0.0)]
        else:
            w += ["fin", f2h(v)]
    return w


def parse_step(rep, sizes):
    if not rep.startswith("ok "):
        return None
    parts = [p.split() for p in rep[3:].split("|")]

    def unflat(ws):
        vals, out, i = [h2f(x) for x in ws], [], 0
        for s in sizes:
            out.append(vals[i:i + s])
            i += s
        return out

    hr = float("inf") if parts[2][0] == "inf" else h2f(parts[2][1])
    lp = None if parts[3][0] == "none" else ("bad" if parts[3][0] == "bad" else h2f(parts[3][1]))
    opf = parts[8]
    wl = int(opf[4])
    return {"op": int(parts[0][0]), "proposed": unflat(parts[1]), "hr": hr, "lp": lp,
            "acc_prob": h2f(parts[4][0]), "accepted": parts[4][1] == "1",
            "u": None if parts[4][2] == "none" else h2f(parts[4][2]),
            "after": unflat(parts[5]), "lj": h2f(parts[6][0]),
            "logged": "bad" if parts[7][0] == "bad" else h2f(parts[7][1]),
            "scale": h2f(opf[0]), "adapt_count": int(opf[1]), "accept": int(opf[2]), "reject": int(opf[3]),
            "window": [int(x) for x in opf[5:5 + wl]],
            "consumed": tuple(int(x) for x in parts[9]), "epoch": int(parts[10][0]), "acc_total": int(parts[10][1]),
            "log_sample": int(parts[10][2]), "tune_sample": int(parts[10][3]),
            "adaptors": parse_adaptors(rep[3:].split("|")[11] if len(parts) > 11 else "")}


def parse_adaptors(txt):
    out = []
    for a in [x.split() for x in txt.split(";") if x.strip()]:
        if a[0] == "adaptive":
            out.append({"type": "adaptive", "calls": int(a[1]), "accepted": int(a[2])})
        elif a[0] == "dual":
            out.append({"type": "dual", "calls": int(a[1]), "counter": int(a[2]), "x": h2f(a[3]), "xbar": h2f(a[4]),
                        "sbar": h2f(a[5])})
        else:
            out.append({"type": "mass"})
    return out


def flatten(st):
    return [x for p in st for x in p]


def states_close(a, b, tol):
    fa, fb = flatten(a), flatten(b)
    return len(fa) == len(fb) and all(close(x, y, tol) for x, y in zip(fa, fb))


# --------------------------------------------------------------------------- correspondence of one run
def compare_run(ck: Check, drv, cfg, res, label):
    """the Lean machine consumes the tape of the implementation's run from ITS OWN states"""
    recs = res["records"]
    exact = cfg["exact_expected"]
    state, lj = res["init"], res["init_lp"]
    opstates = [{"scale": o["scale"], "adapt_count": 0, "accept": 0, "reject": 0, "window": [],
                 "adaptors": [{"type": a["type"], "calls": 0, "accepted": 0, "counter": 0, "x": 0.0, "xbar": 0.0, "sbar": 0.0}
                              for a in o.get("adaptors", [])]} for o in cfg["ops"]]
    epoch, acc_total = 1, 0
    failed_ops = set()
    sizes = [len(v) for v in state]
    for it, r in enumerate(recs):
        tape_w, counts = enc_tape(r["events"])
        table = [(r["before"], lj), (r["proposed"], r.get("lp_proposed"))]
        req = ["step"] + enc_machine(cfg, state, lj, epoch, acc_total, opstates, r.get("masses"), r.get("modes")) + tape_w + \
            enc_table(table, 1e-5 if cfg["ops"][r["op"]]["kind"] == "block" else 1e-9)
        m = parse_step(drv.ask(" ".join(req)), sizes)
        okind = cfg["ops"][r["op"]]["kind"]
        key = (label, it, okind, r["accepted"], r["hr"], tuple(flatten(r["proposed"])))
        sample = {"run": label, "iteration": it + 1, "operator": okind, "state_before": r["before"],
                  "proposal": r["proposed"], "hastings": r["hr"], "lp_proposed": r.get("lp_proposed"),
                  "carried": lj, "acc_prob": r["acc_prob"], "accepted": r["accepted"],
                  "scale_after": r["scale_after"],
                  "model": None if m is None else {"accepted": m["accepted"], "hr": m["hr"], "scale": m["scale"]}}
        ck.case(key, sample, nontrivial=flatten(r["proposed"]) != flatten(r["before"]),
                bucket=f"tie/{okind}/{'accepted' if r['accepted'] else 'rejected'}/{'adapt' if cfg['ops'][r['op']]['adapt'] else 'fixed'}")
        if m is None:
            ck.mismatch("model machine stuck (tape dry or bad operator index)", {"cfg": cfg_pub(cfg), "iteration": it + 1})
            return False
        bad = []
        tol = 0.0 if exact else 1e-10
        if okind == "hmc" and not exact:
            # leapfrog trajectories near / beyond the stability limit (adapted step sizes) amplify last-bit differences
            tol = 1e-8
        if okind == "block":
            # torch evaluates the precision multiplier in float32 (`python float * torch.rand(1)`), and Cholesky /
            # triangular solves round differently: 1e-6 on this transition, then continue from the implementation's
            # state (see below)
            tol = 1e-6
        if m["op"] != r["op"]:
            bad.append("operator index")
        if not states_close(m["proposed"], r["proposed"], tol):
            bad.append("proposal")
        if math.isinf(r["hr"]) != math.isinf(m["hr"]) or (not math.isinf(r["hr"]) and not close(m["hr"], r["hr"], 1e-5 if okind == "block" else 1e-7 if okind == "hmc" else 1e-9)):
            bad.append(f"hastings ratio (model {m['hr']}, impl {r['hr']})")
        degenerate = "lp_proposed" not in r or r["lp_proposed"] is None or math.isnan(r["lp_proposed"]) or math.isinf(r["lp_proposed"])
        if not close(m["acc_prob"], r["acc_prob"], 1e-5 if okind == "block" else 1e-7 if okind == "hmc" else 1e-9):
            bad.append(f"acceptance probability (model {m['acc_prob']}, impl {r['acc_prob']})")
        if m["accepted"] != r["accepted"]:
            # the code compares in float32 (`float64 scalar > torch.rand(1)`): a draw within float32
            # resolution of the acceptance probability may go either way — not a disagreement
            if m["u"] is not None and abs(m["acc_prob"] - m["u"]) <= (1e-4 if okind == "block" else 1e-6) * max(m["u"], 1e-30):
                ck.bucket("tie/float32-comparison-zone")
                return True
            bad.append("decision")
        if not states_close(m["after"], r["after"], tol):
            bad.append("state after")
        if m["consumed"] != counts:
            bad.append(f"tape consumption (model {m['consumed']}, impl {counts})")
        # dual averaging multiplies differences of the acceptance statistic by sqrt(counter)/gamma (~1e2): the
        # model's own acceptance probabilities differ from torch's in the last bits, hence 1e-8 there
        has_dual = any(a["type"] == "dual" for a in cfg["ops"][r["op"]].get("adaptors", []))
        # after a FAILED proposal MCMC.run hands tune `torch.zeros_like(hastings_ratio)`, a float32 zero (the operators'
        # `torch.tensor(float("inf"))` is float32): dual averaging then computes its statistic in float32
        # ... and s_bar stays a float32 tensor for the rest of the run: 1e-6 once any proposal of this operator failed
        if not math.isfinite(r["hr"]):
            failed_ops.add(r["op"])
        dual_tol = 1e-6 if r["op"] in failed_ops else 1e-8
        if not close(m["scale"], r["scale_after"], 1e-6 if okind == "block" else dual_tol if has_dual else 1e-12):
            bad.append(f"scale after tuning (model {m['scale']}, impl {r['scale_after']})")
        if (m["adapt_count"], m["accept"], m["reject"], m["window"]) != (r["adapt_count"], r["n_accept"], r["n_reject"], r["window"]):
            bad.append("counters / acceptance window")
        if r["sample"] != m["tune_sample"] or r.get("log_sample") != m["log_sample"] or r.get("n_rows") != m["log_sample"] + 1:
            bad.append(f"iteration number handed to tune / loggers (impl tune {r['sample']}, log {r.get('log_sample')}, "
                       f"rows {r.get('n_rows')}; model {m['tune_sample']})")
        if "adaptors_after" in r:
            for ma, ia in zip(m["adaptors"], r["adaptors_after"]):
                if ma["type"] != ia["type"] or any(ma.get(k) != ia.get(k) for k in ("calls", "accepted", "counter")) or \
                        any(not close(ma.get(k, 0.0), ia.get(k, 0.0), dual_tol) for k in ("x", "xbar", "sbar") if k in ia):
                    bad.append(f"adaptor state (model {ma}, impl {ia})")
        if r["row"] is not None:
            if not states_close([r["row"][:-1]], [flatten(m["after"])], tol):
                bad.append("logger row parameters")
            if m["logged"] == "bad" or not close(m["logged"], r["row"][-1], 1e-9):
                bad.append(f"logged density (model {m['logged']}, row {r['row'][-1]})")
        if bad:
            ck.mismatch(f"transition differs from model ({okind}): " + "; ".join(bad),
                        {"cfg": cfg_pub(cfg), "iteration": it + 1, "impl": {k: v for k, v in r.items() if k != "events"},
                         "model": m})
            return False
        state, lj, epoch, acc_total = m["after"], m["lj"], m["epoch"], m["acc_total"]
        if okind == "block" or (okind == "hmc" and not exact):
            state, lj = r["after"], (r["lp_proposed"] if r["accepted"] else lj)
        opstates[r["op"]] = {"scale": m["scale"], "adapt_count": m["adapt_count"], "accept": m["accept"],
                             "reject": m["reject"], "window": m["window"], "adaptors": m["adaptors"]}
        if okind == "block":
            opstates[r["op"]]["scale"] = r["scale_after"]
        if has_dual:
            # dual averaging amplifies last-bit differences (factor sqrt(counter)/gamma per call): after the
            # 1e-8 comparison above, continue from the implementation's step size and averages (per-step
            # simulation) so that the error does not feed back into the positions
            opstates[r["op"]]["scale"] = r["scale_after"]
            opstates[r["op"]]["adaptors"] = [dict(x) for x in r["adaptors_after"]]
    if res["epoch_end"] != epoch and res["error"] is None:
        ck.mismatch("iteration counter after the run differs", {"impl": res["epoch_end"], "model": epoch})
    return True


def compare_dtype_reference(ck, cfg, tseed, res, found):
    """the same run with float64 parameters: while the decisions agree the float32 chain must follow the float64 chain
    to float32 accuracy"""
    cfg64 = json.loads(json.dumps(cfg))
    cfg64["target"].pop("dtype")
    cfg64.pop("default_dtype", None)
    ref = execute_run(cfg64, tseed)
    n = 0
    for a, b in zip(res["records"], ref["records"]):
        if a["op"] != b["op"] or a["accepted"] != b["accepted"]:
            break
        n += 1
        if not states_close(a["after"], b["after"], 2e-4) or not close(a["hr"], b["hr"], 2e-3):
            found.append((f"{cfg['ops'][a['op']]['kind']}:float32-run-differs-from-float64",
                          {"clause": "with float32 parameters the chain leaves the float64 chain although every decision agreed",
                           "float32": a["after"], "float64": b["after"], "hr32": a["hr"], "hr64": b["hr"]}, cfg, n - 1, tseed))
            break
    ck.case(("dtype-ref", tseed), {"via": "float32 run vs float64 run, same tape", "default_dtype": cfg.get("default_dtype"),
                                   "transitions_compared": n}, nontrivial=n > 0, bucket="dtype/float32-vs-float64/" + str(cfg.get("default_dtype")))


def compare_grad_mode(ck, cfg, tseed, res, found):
    """GRAD MODES: the whole run inside torch.no_grad() must be the same chain, bit for bit (operators that do not need
    autograd; HMC needs it and asserts requires_grad False on its inputs)"""
    cfg2 = json.loads(json.dumps(cfg))
    cfg2["no_grad"] = True
    r2 = execute_run(cfg2, tseed)
    same = r2["error"] is None and len(r2["records"]) == len(res["records"]) and all(
        a["after"] == b["after"] and a["accepted"] == b["accepted"] and (a["hr"] == b["hr"] or (math.isnan(a["hr"]) and math.isnan(b["hr"])))
        and a["scale_after"] == b["scale_after"] for a, b in zip(res["records"], r2["records"]))
    ck.case(("no-grad", tseed), {"via": "MCMC.run inside torch.no_grad() vs autograd enabled", "same": same}, bucket="grad-mode/no_grad-vs-enabled")
    if not same:
        found.append(("MCMC.run:grad-mode", {"clause": "the run inside torch.no_grad() differs from the run with autograd enabled",
                                             "error": r2["error"]}, cfg2, 0, tseed))


def scan_constructors():
    """checklist item 2: tensor constructors in the anchored files that name no dtype (they take the default dtype or
    the dtype of a Python scalar); listed in the evidence"""
    import re

    out = []
    files = ["torchtree/inference/mcmc/mcmc.py", "torchtree/inference/mcmc/operator.py",
             "torchtree/inference/mcmc/gmrf_block_updating.py", "torchtree/inference/hmc/operator.py",
             "torchtree/inference/hmc/integrator.py", "torchtree/inference/hmc/hamiltonian.py",
             "torchtree/inference/hmc/adaptation.py", "torchtree/ops/welford.py", "torchtree/core/logger.py"]
    pat = re.compile(r"torch\.(tensor|zeros|ones|rand|randn|randint|full|eye|arange|linspace|empty)\(")
    for f in files:
        try:
            lines = (REPO / f).read_text().splitlines()
        except OSError:
            continue
        for i, line in enumerate(lines, 1):
            if pat.search(line) and "dtype" not in line and "dtype" not in (lines[i] if i < len(lines) else ""):
                out.append(f"{f}:{i}: {line.strip()[:90]}")
    return out


def cfg_pub(cfg):
    return {k: v for k, v in cfg.items()}


# --------------------------------------------------------------------------- property oracles on the records
def boldness(kind, scale):
    """proposal boldness as a function of the operator's scale field (semantics checked against the
    implementation's behaviour by `probe_boldness`)"""
    if kind == "scaler":
        # the multiplier is drawn between scale and 1/scale whichever is larger: a scale factor that has crossed
        # 1 mirrors the interval, its width is what counts
        return abs(1.0 / scale - scale)
    if kind == "dirichlet":
        return 1.0 / scale
    if kind == "block":
        return scale - 1.0 / scale
    return scale


def dir_logpdf(conc, x):
    import mpmath as mp

    mp.mp.dps = 40
    s = mp.mpf(0)
    for c, v in zip(conc, x):
        s += (mp.mpf(c) - 1) * mp.log(mp.mpf(v)) - mp.loggamma(mp.mpf(c))
    return s + mp.loggamma(sum(mp.mpf(c) for c in conc))


def kin_exact(im, v):
    v = [Fraction(x) for x in v]
    if im and isinstance(im[0], list):
        mv = [sum(Fraction(im[i][j]) * v[j] for j in range(len(v))) for i in range(len(v))]
    else:
        mv = [Fraction(im[i]) * v[i] for i in range(len(v))]
    return sum(a * b for a, b in zip(v, mv)) / 2


def is_inverse(im, mass):
    if mass and isinstance(mass[0], list):
        n = len(mass)
        if not (im and isinstance(im[0], list)):
            return False
        for i in range(n):
            for j in range(n):
                v = sum(im[i][k] * mass[k][j] for k in range(n))
                if abs(v - (1.0 if i == j else 0.0)) > (1e-4 if LOOSEN[0] > 1 else 1e-7):
                    return False
        return True
    if im and isinstance(im[0], list):
        return False
    return all(abs(a * b - 1.0) <= (1e-5 if LOOSEN[0] > 1 else 1e-9) for a, b in zip(im, mass))


def kin_float(im, v):
    import mpmath as mp

    mp.mp.dps = 40
    v = [mp.mpf(x) for x in v]
    if im and isinstance(im[0], list):
        mv = [sum(mp.mpf(im[i][j]) * v[j] for j in range(len(v))) for i in range(len(v))]
    else:
        mv = [mp.mpf(im[i]) * v[i] for i in range(len(v))]
    return float(sum(a * b for a, b in zip(v, mv)) / 2)


def block_true_hastings(o, r):
    """independent recomputation (numpy, float64 LAPACK) of log N(gamma; mu_b, P_b^-1) - log N(gamma'; mu_f, P_f^-1)
    from what the operator itself produced: the two mode-finder outputs (captured by wrapping newton_raphson), the
    sufficient statistics, the precision before/after, the field before/after"""
    import numpy as np

    if math.isinf(r["hr"]):
        return None, None
    if len(r.get("modes", [])) != 2:
        if math.isnan(r["hr"]):
            return None, "the block update returned nan"

        return None, "expected two mode-finder calls (forward and backward)"
    g0, t0 = np.array(r["before"][o["pidx"][0]]), r["before"][o["pidx"][1]][0]
    g1, t1 = np.array(r["proposed"][o["pidx"][0]]), r["proposed"][o["pidx"][1]][0]
    a = r["scale_before"]
    f = t1 / t0
    if not (1 / a * (1 - 1e-6) <= f <= a * (1 + 1e-6)):
        return None, f"precision multiplier {f} outside [1/scaler, scaler]"
    d = len(g0)
    w, c = np.array(o["w"]), np.array(o["c"])

    def Q(tau):
        M = np.zeros((d, d))
        for i in range(d - 1):
            M[i, i] += tau
            M[i + 1, i + 1] += tau
            M[i, i + 1] -= tau
            M[i + 1, i] -= tau
        return M

    def logn(x, mode, Qm):
        P = Qm + np.diag(w * np.exp(-mode))
        h = w * np.exp(-mode) * (mode + 1) - c
        if d > 40:
            # large fields: float64 LU solve / slogdet of torch's LAPACK (this numpy build is very slow beyond ~100 x 100);
            # still a different route from the code's Cholesky + triangular solves, and in the log domain
            import torch as _t

            Pt = _t.tensor(P, dtype=_t.float64)
            mu = _t.linalg.solve(Pt, _t.tensor(h, dtype=_t.float64)).numpy()
            logdet = float(_t.linalg.slogdet(Pt)[1])
        else:
            mu = np.linalg.solve(P, h)
            logdet = np.linalg.slogdet(P)[1]
        e = x - mu
        return 0.5 * logdet - 0.5 * e @ (P @ e) - 0.5 * d * math.log(2 * math.pi)

    mf_impl, mb_impl = np.array(r["modes"][0]), np.array(r["modes"][1])
    if not (np.all(np.isfinite(mf_impl)) and np.all(np.isfinite(mb_impl))) or max(np.abs(mf_impl).max(), np.abs(mb_impl).max()) > 30:
        return None, None  # the mode finder diverged: exp(-mode) under/overflows, nothing to compare numerically

    # the kernel's DEFINITION: the proposal made from a state searches its mode starting AT that state (forward: from the
    # current field under the proposed precision; backward: from the proposed field under the current precision), with the
    # operator's documented Newton-Raphson (stop when |gradient| <= stop_value, default 0.1, at most max_iterations = 200).
    # The approximate mode depends on the start, so the reverse density must be recomputed with its own search.
    def newton(start, Qm, stop=o.get("stop_value", 0.1), max_it=o.get("max_iterations", 200)):
        import torch as _t

        g = _t.tensor(start, dtype=_t.float64)
        Qt, wt, ct = _t.tensor(Qm, dtype=_t.float64), _t.tensor(w, dtype=_t.float64), _t.tensor(c, dtype=_t.float64)
        grad, it_ = None, 0
        while (grad is None or float(_t.linalg.vector_norm(grad)) > stop) and it_ < max_it:
            jac = Qt + _t.diag(_t.exp(-g) * wt)
            grad = -(Qt @ g) - ct + _t.exp(-g) * wt
            g = g + _t.linalg.solve(jac, grad)
            it_ += 1
        return g.numpy()

    mf, mb = newton(g0, Q(t1)), newton(g1, Q(t0))
    if not (np.all(np.isfinite(mf)) and np.all(np.isfinite(mb))):
        return None, None
    return float(logn(g0, mb, Q(t0)) - logn(g1, mf, Q(t1))), None


def true_hastings(cfg, r):
    """closed-form log q(x|x')/q(x'|x) of the kernel the operator is documented to use, from the
    observed states and draws only. -> (value or None if not applicable, problem or None)"""
    o = cfg["ops"][r["op"]]
    kind = o["kind"]
    if kind == "stub":
        return None, None
    b, p = r["before"], r["proposed"]
    diffs = [(i, j) for i in range(len(b)) for j in range(len(b[i])) if b[i][j] != p[i][j]]
    own = set(o["pidx"])
    if any(i not in own for i, _ in diffs):
        return None, "proposal changed a parameter that does not belong to the operator"
    a = r["scale_before"]
    if kind == "scaler":
        if len(diffs) > 1:
            return None, "scaler changed more than one coordinate"
        if not diffs:
            return None, None  # the scaled coordinate is exactly 0 (or s = 1): the multiplier cannot be read off
        i, j = diffs[0]
        s = p[i][j] / b[i][j]
        slack = 1e-5 if LOOSEN[0] > 1 else 1e-12
        if not (a * (1 - slack) <= s <= (1 / a) * (1 + slack)):
            return None, f"multiplier {s} outside [a, 1/a]"
        return -math.log(s), None
    if kind == "window":
        if len(diffs) > 1:
            return None, "sliding window changed more than one coordinate"
        if diffs:
            i, j = diffs[0]
            if abs(p[i][j] - b[i][j]) > a / 2 * (1 + (1e-5 if LOOSEN[0] > 1 else 1e-12)):
                return None, "shift larger than half the window"
        return 0.0, None
    if kind == "dirichlet":
        k = o["pidx"][0]
        ev = [e for e in r["events"] if e[0] == "dir"]
        if len(ev) != 1:
            return None, "expected exactly one Dirichlet draw"
        conc_used = ev[0][2]
        want = [v * a for v in b[k]]
        if not all(close(x, y, 1e-12) for x, y in zip(conc_used, want)):
            return None, "forward kernel is not Dirichlet(scaler * current)"
        f = dir_logpdf([v * a for v in b[k]], p[k])
        g = dir_logpdf([v * a for v in p[k]], b[k])
        return float(g - f), None
    if kind == "block":
        return block_true_hastings(o, r)
    if kind == "hmc":
        if math.isinf(r["hr"]):
            n_draws = sum(1 for e in r["events"] if e[0] == "normal")
            if r.get("returned") and n_draws < 10:
                # fewer than the ten trials were used and the last one ran its trajectory to the end: the operator HAS a
                # proposal; its Hastings term is the kinetic change, not "no proposal"
                mass_ = r.get("mass_now", o["mass"])
                im_ = inv_mass(mass_)
                ev_ = [e for e in r["events"] if e[0] == "normal"]
                return None, ("the operator completed a trajectory (trial %d of 10) but returned inf instead of K(p0) - K(pL) = %r"
                              % (n_draws, kin_float(im_, ev_[-1][1]) - kin_float(im_, r["returned"][-1])))
            return None, None
        ev = [e for e in r["events"] if e[0] == "normal"]
        if not ev or not r.get("returned"):
            return None, "no momentum draw / returned momentum observed"
        # one CURRENT mass matrix M (the parameter the adaptor writes): the momentum law must be N(0, M), and
        # the integrator and both kinetic energies must use an inverse of that same M
        mass = r.get("mass_now", o["mass"])
        law = r.get("momentum_law") or {}
        if "error" in law:
            return None, "sample_momentum raised when probed: " + law["error"]
        if law:
            n_ = len(law["mean"])
            M = mass if isinstance(mass[0], list) else [[(mass[i] if i == j else 0.0) for j in range(n_)] for i in range(n_)]
            if any(abs(v) > 1e-12 for v in law["mean"]):
                return None, "momentum mean not zero"
            if not all(close(law["cov"][i][j], M[i][j], 1e-9) for i in range(n_) for j in range(n_)):
                return None, ("the momentum is not drawn from N(0, M): covariance of the draw (A A^T of the map standard normal -> "
                              "momentum) %s, mass matrix the kinetic energy uses %s" % (law["cov"], M))
        for e in ev:
            if isinstance(e[2], list) and not all(close(x, y, 1e-12) for x, y in zip(flatten(e[2]) if isinstance(e[2][0], list) else e[2],
                                                                                         flatten(mass) if isinstance(mass[0], list) else mass)):
                return None, "sample_momentum was called with a matrix that is not the current mass matrix"
        for im_u in r.get("im_used", []):
            if not is_inverse(im_u, mass):
                return None, "inverse mass matrix used by the integrator / kinetic energy is not the inverse of the current mass matrix"
        im = inv_mass(mass)
        k0, k1 = kin_float(im, ev[-1][1]), kin_float(im, r["returned"][-1])
        return k0 - k1, None
    return None, None


def check_records(ck: Check, cfg, res, found, label):
    """the property's clauses, transition by transition, on what the implementation did"""
    tgt = res["target"]
    carried = res["init_lp"]
    fresh0 = tgt.fresh(res["init"])
    if isinstance(fresh0, float) and not close(fresh0, carried, 1e-9):
        found.append(("MCMC.run:initial-density", {"clause": "initial log_joint is not the target at the initial state",
                                                   "carried": carried, "fresh": fresh0}, cfg, 0))
    hmc_counts, mass_samples = {}, {}
    cur_true = fresh0 if isinstance(fresh0, float) else carried
    fr = None
    LOOSEN[0] = 1e5 if cfg["target"].get("dtype") == "float32" else 1.0
    for it, r in enumerate(recs := res["records"]):
        o = cfg["ops"][r["op"]]
        kind = o["kind"]
        ck.bucket(f"oracle/{kind}")
        u = next((e[1] for e in reversed(r["events"]) if e[0] == "rand"), None)
        n_rand = sum(1 for e in r["events"] if e[0] == "rand")
        own_rand = 1 if kind in ("scaler", "window") else 0
        used_u = n_rand > own_rand
        degenerate = not math.isfinite(r["hr"])
        lp = r.get("lp_proposed")
        if not degenerate and abs(r["hr"]) > 100:
            ck.bucket("oracle/branch/large-finite-hastings" + ("/accepted" if r["accepted"] else "/rejected"))
        if degenerate:
            ck.bucket("oracle/branch/hastings-inf")
        elif lp is None or math.isnan(lp) or math.isinf(lp):
            ck.bucket("oracle/branch/density-nan-or-inf")
        # 1. density used for the proposal = target from scratch at the proposal
        if not degenerate:
            fr = tgt.fresh(r["proposed"])
            if isinstance(fr, tuple) or math.isnan(fr) or math.isinf(fr):
                degenerate = degenerate or lp is None or math.isnan(lp) or math.isinf(lp)
                if not (lp is None or math.isnan(lp) or math.isinf(lp)):
                    # the rebuild refused the state (outside the support) but the run used a finite value
                    found.append((f"{kind}:density-outside-support",
                                  {"clause": "finite density used for a state the rebuilt target rejects",
                                   "used": lp, "fresh": str(fr)}, cfg, it))
            elif lp is None and not (r["acc_prob"] == 0.0 and not r["accepted"]):
                # the loop did not ask the chain's joint for this proposal (it took the density from somewhere else): what
                # counts is the decision, checked below against the CHAIN'S target rebuilt from scratch
                ck.bucket("oracle/density-not-evaluated-by-the-chain-joint")
                degenerate = False
            elif lp is None:
                la = (fr - cur_true) + r["hr"]
                found.append((f"{kind}:finite-hastings-treated-as-degenerate",
                              {"clause": "finite Hastings ratio and finite target at the proposal, but the move was rejected "
                                         "without evaluating the target (acceptance probability should be min(1, exp(delta+hr)))",
                               "hr": r["hr"], "delta": fr - cur_true, "acceptance_probability_due": 1.0 if la >= 0 else math.exp(la),
                               "accepted": r["accepted"]}, cfg, it))
                degenerate = True
            elif not close(lp, fr, 1e-9):
                found.append((f"{kind}:stale-density", {"clause": "density used for the proposal differs from the "
                                                                  "target rebuilt at that state", "used": lp, "fresh": fr,
                                                        "proposal": r["proposed"]}, cfg, it))
                degenerate = lp is None or math.isnan(lp) or math.isinf(lp)
            else:
                degenerate = False
        # 2. Hastings ratio = true log ratio of reverse to forward proposal density
        th, prob = true_hastings(cfg, r)
        if prob:
            found.append((f"{kind}:proposal-kernel", {"clause": prob, "before": r["before"], "proposed": r["proposed"],
                                                      "scale": r["scale_before"]}, cfg, it))
        elif th is not None and not math.isinf(r["hr"]) and not close(r["hr"], th, 1e-6 if kind == "block" else 1e-8):
            found.append((f"{kind}:hastings-ratio", {"clause": "returned Hastings ratio is not log q(x|x')/q(x'|x)",
                                                     "returned": r["hr"], "true": th}, cfg, it))
        # 3. accept rule
        if degenerate:
            if r["accepted"] and math.isfinite(r["hr"]):
                found.append((f"{kind}:degenerate-accepted", {"clause": "degenerate proposal accepted"}, cfg, it))
        elif used_u and u is not None and isinstance(fr, float) and isinstance(cur_true, float) and math.isfinite(cur_true):
            # the property's rule, on the CHAIN'S target evaluated from scratch at both states (not on whatever value
            # the loop carried or was handed)
            la = (fr - cur_true) + r["hr"]
            prob_acc = 1.0 if la >= 0 else math.exp(la)
            if abs(prob_acc - u) > (1e-3 if LOOSEN[0] > 1 else 1e-6) * max(u, 1e-30):  # outside the float32 comparison zone
                if r["accepted"] != (u < prob_acc):
                    found.append((f"{kind}:accept-rule", {"clause": "accepted <=> u < min(1, exp(delta + hr)) violated",
                                                          "u": u, "delta (target from scratch)": fr - cur_true, "hr": r["hr"],
                                                          "acceptance_probability_due": prob_acc, "acceptance_prob_used": r["acc_prob"],
                                                          "accepted": r["accepted"]}, cfg, it))
            if not close(r["acc_prob"], prob_acc, 1e-9):
                found.append((f"{kind}:acceptance-probability", {"clause": "acceptance probability handed to tune",
                                                                 "impl": r["acc_prob"], "want": prob_acc}, cfg, it))
        # 3b. an operator that reported failure (non-finite return value) made no proposal: nothing may change,
        #     nothing may be counted as accepted, tune must not be fed a positive acceptance
        if not math.isfinite(r["hr"]):
            ck.bucket(f"oracle/operator-reported-failure/{kind}")
            probs = []
            if r["accepted"]:
                probs.append("counted as accepted")
            if r["after"] != r["before"]:
                probs.append("a parameter changed")
            if r["acc_prob"] != 0.0:
                probs.append(f"acceptance probability {r['acc_prob']} handed to tune")
            if r["n_accept"] != r.get("n_accept_before", r["n_accept"]):
                probs.append("operator's accept counter advanced")
            if probs:
                found.append((f"{kind}:failed-proposal-not-rejected",
                              {"clause": "the operator reported that it has no proposal (returned " + str(r["hr"]) + ") but: "
                                         + "; ".join(probs), "before": r["before"], "after": r["after"],
                               "acc_prob": r["acc_prob"], "accepted": r["accepted"]}, cfg, it))
        # 3d. dtype of every parameter is what it was handed in as; no parameter is left requiring grad
        want_dt = "torch.float32" if cfg["target"].get("dtype") == "float32" else "torch.float64"
        if any(d != want_dt for d in r.get("dtypes", [])):
            found.append((f"{kind}:parameter-dtype-changed",
                          {"clause": "a transition changed the dtype of a parameter", "dtypes": r["dtypes"], "expected": want_dt}, cfg, it))
        if any(r.get("requires_grad", [])):
            found.append((f"{kind}:requires-grad-left-behind",
                          {"clause": "after the transition a parameter still requires grad (the next in-place proposal on it raises)",
                           "requires_grad": r["requires_grad"]}, cfg, it))
        # 3c. tune() of the selected operator touches no other operator
        if r.get("cross_tune"):
            found.append(("MCMC.run:tune-changes-other-operator",
                          {"clause": "tune() of operator %d (%s) changed the tunables of another operator" % (r["op"], kind),
                           "changed": r["cross_tune"][:2]}, cfg, it))
        # 4. rejection restores bit-identically
        if not r["accepted"] and r["after"] != r["before"]:
            found.append((f"{kind}:reject-restores", {"clause": "a rejected move left a parameter changed",
                                                      "before": r["before"], "after": r["after"]}, cfg, it))
        if r["accepted"] and r["after"] != r["proposed"]:
            found.append((f"{kind}:accept-keeps", {"clause": "an accepted move does not leave the proposal in place",
                                                   "proposed": r["proposed"], "after": r["after"]}, cfg, it))
        if r["accepted"]:
            carried = lp if lp is not None else (fr if not degenerate else carried)
        # 5. logged row self-consistent
        if r["row"] is not None:
            fa = tgt.fresh(r["after"])
            if r["row"][:-1] != flatten(r["after"]):
                found.append((f"{kind}:logged-parameters", {"clause": "logged parameters are not the current state",
                                                            "row": r["row"], "state": r["after"]}, cfg, it))
            elif isinstance(fa, float) and not close(r["row"][-1], fa, 1e-9):
                found.append((f"{kind}:logged-density", {"clause": "logged density is not the target at the logged "
                                                                   "parameter values", "row": r["row"], "fresh": fa}, cfg, it))
            if isinstance(fa, float):
                cur_true = fa
            if isinstance(fa, float) and carried is not None and not close(carried, fa, 1e-9):
                found.append((f"{kind}:carried-density", {"clause": "carried log_joint is not the target at the "
                                                                    "current state", "carried": carried, "fresh": fa}, cfg, it))
        # 6b. HMC adaptors: direction of AdaptiveStepSize with the statistic its configuration uses; monotonicity
        #     of every step-size adaptor in the acceptance statistic (deep-copied adaptors, see branch_probe)
        if kind == "hmc" and o.get("adaptors"):
            st_ = hmc_counts.setdefault(r["op"], {"calls": 0, "accepted": 0})
            st_["calls"] += 1
            st_["accepted"] += 1 if r["accepted"] else 0
            for a in o["adaptors"]:
                if a["type"] != "adaptive":
                    continue
                ck.bucket("oracle/adaptive-step-size/" + ("rate" if a["use_rate"] else "prob"))
                stat = st_["accepted"] / st_["calls"] if a["use_rate"] else r["acc_prob"]
                s0, s1 = r["scale_before"], r["scale_after"]
                start_, end_ = (a.get("start") if a.get("start") is not None else 1), a.get("end")
                active = start_ <= st_["calls"] and (end_ is None or st_["calls"] <= end_) and \
                    (not a["use_rate"] or st_["calls"] >= 10)
                if not active and s1 != s0 and len([x for x in o["adaptors"] if x["type"] != "mass"]) == 1:
                    found.append(("AdaptiveStepSize:adaptation-window",
                                  {"clause": "step size changed outside the configured adaptation window "
                                             "(start/end, and the first 10 calls in acceptance-rate mode)",
                                   "hmc_call": st_["calls"], "start": start_, "end": end_, "step_before": s0,
                                   "step_after": s1, "adaptor": a}, cfg, it))
                if (stat > a["target"] and s1 < s0 * (1 - 1e-12)) or (stat < a["target"] and s1 > s0 * (1 + 1e-12)):
                    found.append(("AdaptiveStepSize:tuning-direction",
                                  {"clause": "step size moved away from the target acceptance "
                                             "(statistic above target: step decreased / below target: increased)",
                                   "statistic": ("acceptance rate" if a["use_rate"] else "acceptance probability"),
                                   "value": stat, "target": a["target"], "hmc_call": st_["calls"],
                                   "step_before": s0, "step_after": s1, "adaptor": a}, cfg, it))
            for a in o["adaptors"]:
                if a["type"] != "mass" or "mass_after" not in r:
                    continue
                # MassMatrixAdaptor: the re-estimated matrix against an independent float64 two-pass estimate from the
                # states the operator left after each of its calls (checklist item 2: float64 inputs, float64 accuracy)
                own = [x for k in o["pidx"] for x in r["after"][k]]
                ms = mass_samples.setdefault(r["op"], [])
                if st_["calls"] >= (a.get("start") if a.get("start") is not None else 0):
                    ms.append(own)
                if r["mass_after"] != r["mass_now"] and len(ms) > 4:
                    import numpy as np

                    X = np.array(ms, dtype=np.float64)
                    n_ = len(ms)
                    dense = isinstance(r["mass_after"][0], list)
                    V = np.cov(X.T, ddof=1).reshape(X.shape[1], X.shape[1]) if dense else X.var(axis=0, ddof=1)
                    if a.get("regularize", True):
                        V = V * (n_ / (n_ + 5.0))
                        V = V + (np.eye(X.shape[1]) if dense else 1.0) * 1e-3 * (5.0 / (n_ + 5.0))
                    got = np.array(r["mass_after"], dtype=np.float64)
                    ck.bucket("oracle/mass-matrix-estimate/" + ("dense" if dense else "diag"))
                    if dense:
                        ok_ = np.linalg.cond(V) > 1e3 or np.allclose(np.linalg.inv(got), V, rtol=1e-8, atol=1e-10)
                    else:
                        ok_ = np.allclose(1.0 / got, V, rtol=1e-9, atol=1e-12)
                    if not ok_:
                        found.append(("MassMatrixAdaptor:estimate-precision",
                                      {"clause": "the re-estimated mass matrix differs from the (regularised) sample variance of the "
                                                 "operator's states beyond float64 accuracy (the running mean is kept in the default "
                                                 "dtype)", "samples": n_,
                                       "inverse_mass_from_adaptor": (np.linalg.inv(got) if dense else 1.0 / got).tolist(),
                                       "independent_estimate": V.tolist()}, cfg, it))
            for bp in r.get("branch", []):
                ck.bucket("oracle/adaptor-monotone/" + bp["adaptor"])
                if "error" in bp:
                    found.append((bp["adaptor"] + ":learn-raised", {"clause": "adaptor.learn raised: " + bp["error"]}, cfg, it))
                elif bp["high"] < bp["low"] * (1 - 1e-12):
                    found.append((bp["adaptor"] + ":tuning-direction",
                                  {"clause": "a higher acceptance statistic gave a smaller step size from the same adaptor state",
                                   "what": bp["what"], "step_low": bp["low"], "step_high": bp["high"],
                                   "state": bp["state"]}, cfg, it))
        # 6. tuning direction
        if (kind == "hmc" and o.get("adaptors")) or kind == "stub":
            pass
        elif o["adapt"]:
            b0, b1 = boldness(kind, r["scale_before"]), boldness(kind, r["scale_after"])
            if kind == "scaler" and not (0 < r["scale_after"] < 1):
                found.append(("ScalerOperator:tuning-direction",
                              {"clause": "tuning moved the scale factor out of (0,1): the multiplier interval [a, 1/a] is "
                                         "mirrored and every later update moves boldness the wrong way",
                               "acceptance_prob": r["acc_prob"], "target": o["target"],
                               "scale_before": r["scale_before"], "scale_after": r["scale_after"]}, cfg, it))
            if r["acc_prob"] >= o["target"] and b1 < b0 * (1 - 1e-12):
                found.append((f"{op_class(kind)}:tuning-direction",
                              {"clause": "acceptance at/above target made the next proposals more timid",
                               "acceptance_prob": r["acc_prob"], "target": o["target"],
                               "scale_before": r["scale_before"], "scale_after": r["scale_after"],
                               "boldness_before": b0, "boldness_after": b1}, cfg, it))
        elif r["scale_after"] != r["scale_before"]:
            found.append((f"{op_class(kind)}:tuned-while-disabled", {"clause": "scale moved with adaptation disabled"}, cfg, it))


def check_log_files(ck: Check, cfg, res, found, tseed):
    """every row the library's Logger objects wrote (files read back after the run, stdout captured): it must be a row of
    the trajectory observed in-process at that iteration, and its density must be the target rebuilt from scratch at the
    parameter values WRITTEN IN THAT ROW"""
    tgt, recs = res["target"], res["records"]
    nstate = len(flatten(res["init"]))
    if res["error"]:
        return
    for lg in res.get("logs", []):
        spec = lg["spec"]
        name = ("file" if spec.get("file") else "stdout") + f"/every={spec['every']}"
        ck.bucket("oracle/logger/" + name)
        if lg["error"]:
            found.append(("Logger:raised", {"clause": "the logger could not be built / read: " + lg["error"], "logger": spec}, cfg, 0, tseed))
            continue
        rows = [r_ for r_ in lg["rows"] if len(r_) == nstate + 2]
        want_samples = [s_ for s_ in range(0, len(recs) + 1) if s_ % spec["every"] == 0]
        if [int(r_[0]) for r_ in rows] != want_samples:
            found.append(("Logger:rows-missing", {"clause": "the logger did not write one row for every `every`-th iteration (0 included)",
                                                  "logger": spec, "samples_written": [int(r_[0]) for r_ in rows][:20],
                                                  "expected": want_samples[:20]}, cfg, 0, tseed))
            continue
        for r_ in rows:
            s_ = int(r_[0])
            state = res["init"] if s_ == 0 else recs[s_ - 1]["after"]
            vals, dens = r_[1:-1], r_[-1]
            ck.case(("logrow", name, tseed, s_), None, bucket=None)
            shaped, k_ = [], 0
            for v in state:
                shaped.append(vals[k_:k_ + len(v)])
                k_ += len(v)
            fr = tgt.fresh(shaped)
            if isinstance(fr, float) and not (math.isnan(fr) and math.isnan(dens)) and not close(dens, fr, 1e-9):
                found.append(("Logger:row-not-self-consistent",
                              {"clause": "a row written by the Logger is not self-consistent: the logged density is not the target at "
                                         "the parameter values logged in the same row", "logger": spec, "sample": s_, "row": r_,
                               "target_at_logged_values": fr, "state_in_process": state}, cfg, max(s_ - 1, 0), tseed))
                break
            if vals != flatten(state):
                found.append(("Logger:row-differs-from-trajectory",
                              {"clause": "the row written for an iteration does not hold the parameter values the chain had at that iteration",
                               "logger": spec, "sample": s_, "row": r_, "state_in_process": state}, cfg, max(s_ - 1, 0), tseed))
                break


def size_regime_cases(ck: Check, rng, found, thorough):
    """SIZE REGIMES (checklist 23): the operators at dimensions where a non-log-domain normaliser over/underflows — the GMRF
    block update on fields of 50/200/400 cells with precision 1/10/100 in float32 and float64, HMC / scaler / sliding window on a
    few hundred coordinates.  Real MCMC.run, scripted tape; every reported Hastings ratio must be finite and equal to the
    independent log-domain recomputation (check_records), and the operator must not be rejected identically."""
    regimes = [(50, "float32", 10.0), (200, "float64", 10.0), (400, "float64", rng.choice([1.0, 10.0, 100.0]))]
    if thorough:
        regimes += [(50, "float64", 100.0), (100, "float32", 1.0), (400, "float64", 10.0), (200, "float32", 10.0)]
    for d, dt, tau in regimes:
        ntaxa = max(20, d // 2)
        coal_t, cur_t = [], 0.0
        for k in range(ntaxa - 1):
            cur_t += rng.expovariate(1.0) * 2.0 / (ntaxa - k) + 1e-3
            coal_t.append(cur_t)
        t = {"kind": "skygrid", "sampling": [0.0] * ntaxa, "coalescent": coal_t, "cutoff": coal_t[-1] * 0.9,
             "conc": [2.0], "rate": [1.0], "init": [[rng.uniform(-0.3, 0.3) for _ in range(d)], [tau]]}
        if dt == "float32":
            t["dtype"] = "float32"
        cfg = {"family": "size", "target": t, "iterations": 14, "loggers": [], "oracle_only": True, "exact_expected": False,
               "ops": [{"kind": "block", "pidx": [0, 1], "weight": 1.0, "target": 0.24, "scale": rng.choice([1.0, 1.5, 2.0]), "adapt": False}]}
        if dt == "float32":
            cfg["default_dtype"] = "float32"
        run_size_cfg(ck, rng, cfg, found, f"block/d={d}/{dt}/tau={tau}")
    # HMC, scaler and sliding window on a few hundred coordinates
    for n in ([300] if not thorough else [300, 600]):
        scale = [rng.choice([0.5, 1.0, 2.0]) for _ in range(n)]
        t = {"kind": "normal", "loc": [rng.uniform(-1, 1) for _ in range(n)], "scale": scale, "init": [[rng.uniform(-1, 1) for _ in range(n)]]}
        cfg = {"family": "size", "target": t, "iterations": 20, "loggers": [{"file": True, "every": 5, "delimiter": None}],
               "oracle_only": True, "exact_expected": False,
               "ops": [{"kind": "hmc", "pidx": [0], "weight": 2.0, "target": 0.8, "scale": 0.05, "adapt": False, "steps": 5,
                        "mass": [1.0] * n, "G": None, "b": None},
                       {"kind": "scaler", "pidx": [0], "weight": 1.0, "target": 0.24, "scale": 0.9, "adapt": False},
                       {"kind": "window", "pidx": [0], "weight": 1.0, "target": 0.24, "scale": 0.5, "adapt": False}]}
        run_size_cfg(ck, rng, cfg, found, f"hmc+scaler+window/n={n}")


def run_size_cfg(ck, rng, cfg, found, label):
    tseed = rng.randrange(1 << 30)
    try:
        res = execute_run(cfg, tseed)
    except Exception as e:
        ck.mismatch("size-regime configuration could not be built / run", {"label": label, "error": f"{type(e).__name__}: {str(e)[:150]}"})
        return
    if res["error"]:
        ck.mismatch("MCMC.run raised at a large size", {"label": label, "error": res["error"]})
        found.append(("MCMC.run:raised-at-size", {"clause": "MCMC.run raised at this size: " + res["error"], "size": label}, cfg, 0, tseed))
        return
    n0 = len(found)
    check_records(ck, cfg, res, found, "size/" + label)
    check_log_files(ck, cfg, res, found, tseed)
    for j in range(n0, len(found)):
        found[j] = found[j] + (tseed,) if len(found[j]) == 4 else found[j]
    for oi, o in enumerate(cfg["ops"]):
        mine = [r for r in res["records"] if r["op"] == oi]
        ck.case(("size", label, o["kind"]), {"via": "MCMC.run at size " + label, "operator": o["kind"], "moves": len(mine),
                                             "accepted": sum(r["accepted"] for r in mine),
                                             "hastings": [r["hr"] for r in mine[:4]]}, bucket="size/" + label.split("/")[0])
        if len(mine) >= 6 and not any(r["accepted"] for r in mine):
            bad_hr = [r["hr"] for r in mine if not math.isfinite(r["hr"])]
            found.append((f"{o['kind']}:never-accepted-at-size",
                          {"clause": "at this size every move of the operator was rejected (%d of %d with a non-finite Hastings ratio): "
                                     "the parameter never moves" % (len(bad_hr), len(mine)), "size": label,
                           "hastings_ratios": [r["hr"] for r in mine[:6]]}, cfg, 0, tseed))


def op_class(kind):
    if kind == "stub":
        return "FailingOperator(harness)"
    return {"scaler": "ScalerOperator", "window": "SlidingWindowOperator", "dirichlet": "DirichletOperator",
            "hmc": "HMCOperator", "block": "GMRFPiecewiseCoalescentBlockUpdatingOperator"}[kind]


# --------------------------------------------------------------------------- tuning: generated vs real
def real_tune(kind, scale, acc, target, count):
    """operator.tune() of the real class on a bare instance carrying only what tune touches"""
    torch = _torch()
    import importlib

    mod, cname = {k: (m, c) for k, m, c in tr_tuning.CLASSES}[kind]
    cls = getattr(importlib.import_module(mod), cname)
    if kind in ("scaler", "window", "dirichlet"):
        from torchtree.core.parameter import Parameter

        # public route: constructor, then load_state_dict with the keys state_dict() publishes
        op = cls("op", [Parameter("x", torch.tensor([0.5, 0.5], dtype=torch.float64))], 1.0, target, scale)
        sd = op.state_dict()
        sd["adapt_count"] = count
        op.load_state_dict(sd)
    else:
        op = cls.__new__(cls)
        op._adapt_count, op._disable_adaptation, op.target_acceptance_probability = count, False, target
        if kind == "hmc":
            class I:
                step_size = scale
            op._integrator, op._adaptors = I(), []
        else:
            op._scaler = scale
    op.tune(torch.tensor(acc, dtype=torch.float64), sample=1, accepted=True)
    return scale_of(op), (op_public(op)["adapt_count"] if kind in ("scaler", "window", "dirichlet") else op._adapt_count)


def tuning_cases(ck: Check, drv, rng, n, found):
    for _ in range(n):
        kind = rng.choice(KINDS)
        special = rng.random() < 0.15  # scales whose adaptable parameter is exactly 0 (log 1, logit 1/2, sqrt 0)
        if special:
            scale = {"scaler": 0.5, "block": 1.0}.get(kind, 1.0)
        elif kind == "scaler":
            scale = rng.uniform(0.01, 0.99)
        elif kind == "block":
            scale = 1.0 + rng.choice([0.0, rng.uniform(0, 5)])
        else:
            scale = math.exp(rng.uniform(-4, 4))
        acc, target, count = rng.choice([0.0, 1.0, rng.random()]), rng.choice([0.24, 0.8, rng.random()]), rng.randint(0, 5000)
        try:
            new, cnt = real_tune(kind, scale, acc, target, count)
        except Exception as e:
            ck.mismatch("operator.tune raised", {"kind": kind, "error": f"{type(e).__name__}: {e}"})
            continue
        rep = drv.ask(" ".join(["tune", kind, f2h(scale), f2h(acc), f2h(target), str(count)]))
        ck.case(("tune", kind, scale, acc, target, count),
                {"via": f"{op_class(kind)}.tune", "scale": scale, "acc": acc, "target": target, "count": count,
                 "impl_new_scale": new, "model": None if rep == "bad-op" else h2f(rep)},
                nontrivial=new != scale, bucket=f"tune/{kind}")
        if rep == "bad-op" or not close(h2f(rep), new, 1e-12) or cnt != count + 1:
            ck.mismatch("generated tuning expressions differ from operator.tune",
                        {"kind": kind, "scale": scale, "acc": acc, "target": target, "count": count,
                         "impl": new, "model": rep if rep == "bad-op" else h2f(rep)})
        # the property's clause directly on the implementation
        if acc >= target and boldness(kind, new) < boldness(kind, scale) * (1 - 1e-12):
            found.append((f"{op_class(kind)}:tuning-direction",
                          {"clause": "acceptance at/above target made the next proposals more timid (tune() alone)",
                           "acceptance_prob": acc, "target": target, "scale_before": scale, "scale_after": new,
                           "boldness_before": boldness(kind, scale), "boldness_after": boldness(kind, new)},
                          {"tune_only": {"kind": kind, "scale": scale, "acc": acc, "target": target, "count": count}}, 0))


def tune_sequences(ck: Check, drv, rng, n, found):
    """chains of operator.tune() calls on the real classes starting near the boundary of the admissible scales
    (scale factor close to 1, block scaler close to 1, ...), mostly low acceptances first: the tuning clause is
    checked call by call, and the scale must stay admissible"""
    for _ in range(n):
        kind = rng.choice(["scaler", "scaler", "block", "window", "dirichlet", "hmc"])
        scale = {"scaler": rng.choice([0.9, 0.97, 0.995]), "block": rng.choice([1.0, 1.01, 1.2])}.get(kind, math.exp(rng.uniform(-2, 2)))
        target, count = rng.choice([0.24, 0.8, 0.9]), rng.randint(0, 3)
        hist = []
        for k in range(10):
            acc = rng.choice([0.0, 0.0, 0.05]) if k < 6 else rng.choice([1.0, 1.0, rng.random()])
            try:
                new, _c = real_tune(kind, scale, acc, target, count)
            except Exception as e:
                ck.mismatch("operator.tune raised in a chain", {"kind": kind, "scale": scale, "acc": acc,
                                                                "error": f"{type(e).__name__}: {e}"})
                break
            hist.append({"acc": acc, "scale_before": scale, "scale_after": new})
            rep = drv.ask(" ".join(["tune", kind, f2h(scale), f2h(acc), f2h(target), str(count)]))
            ck.case(("tuneseq", kind, scale, acc, target, count), None, nontrivial=new != scale, bucket=f"tune-chain/{kind}")
            if rep == "bad-op" or not close(h2f(rep), new, 1e-12):
                ck.mismatch("generated tuning expressions differ from operator.tune (chain)",
                            {"kind": kind, "scale": scale, "acc": acc, "impl": new, "model": rep})
            admissible = {"scaler": 0 < new < 1, "block": new >= 1}.get(kind, new > 0)
            if (acc >= target and boldness(kind, new) < boldness(kind, scale) * (1 - 1e-12)) or not admissible:
                found.append((f"{op_class(kind)}:tuning-direction",
                              {"clause": ("acceptance at/above target made the next proposals more timid (chain of tune() calls)"
                                          if admissible else "tuning moved the proposal scale out of its admissible range "
                                          "(scale factor of the multiplier interval crossed 1: the direction of every later "
                                          "update is mirrored)"),
                               "acceptance_prob": acc, "target": target, "scale_before": scale, "scale_after": new,
                               "boldness_before": boldness(kind, scale), "boldness_after": boldness(kind, new), "chain": hist},
                              {"tune_only": {"kind": kind, "scale": scale, "acc": acc, "target": target, "count": count,
                                             "chain": hist}}, 0))
                break
            scale, count = new, count + 1


def precision_cases(ck: Check, drv, rng, n, found):
    """GMRF block update: the real `propose_precision` (bare instance, scripted uniforms) against
    `precisionMultiplier`; torch computes the multiplier in float32 (`python float * torch.rand(1)`), hence 1e-6"""
    import random

    torch = _torch()
    from torchtree.core.parameter import Parameter
    from torchtree.inference.mcmc.gmrf_block_updating import GMRFPiecewiseCoalescentBlockUpdatingOperator as B

    for _ in range(n):
        sc_ = rng.choice([1.0, 1.0 + rng.random() * 4, 2.0, 1.0 + 10 ** rng.uniform(-3, 1)])
        tau = math.exp(rng.uniform(-2, 2))
        op = B.__new__(B)
        op._scaler = sc_

        class G:
            precision = Parameter(None, torch.tensor([tau], dtype=torch.float64))

        op.gmrf = G()
        r2 = random.Random(rng.randrange(1 << 30))
        try:
            with Scripted(torch, r2) as s_:
                new = float(op.propose_precision())
        except Exception as e:
            ck.mismatch("propose_precision raised", {"scaler": sc_, "error": f"{type(e).__name__}: {e}"})
            continue
        us = [e[1] for e in s_.events if e[0] == "rand"]
        rep = drv.ask(" ".join(["prec", f2h(sc_)] + [f2h(u) for u in (us + [0.5, 0.5])[:2]]))
        mult = new / tau
        ck.case(("prec", sc_, tuple(us)), {"via": "propose_precision", "scaler": sc_, "uniforms": us,
                                           "impl_multiplier": mult, "model": rep},
                nontrivial=sc_ != 1.0, bucket="block/precision-multiplier")
        if rep == "bad-op":
            ck.mismatch("driver bad-op (prec)", {"scaler": sc_})
            continue
        mm, used = h2f(rep.split()[0]), int(rep.split()[1])
        thr = (sc_ - 1 / sc_) / ((sc_ - 1 / sc_) + 2 * math.log(sc_)) if sc_ != 1.0 else 0.0
        tie = len(us) == 2 and abs(us[0] - thr) <= 1e-6
        if used != len(us) or (not tie and not close(mm, mult, 1e-6)):
            ck.mismatch("precision multiplier differs from model", {"scaler": sc_, "uniforms": us, "impl": mult, "model": mm})
        if not (1 / sc_ * (1 - 1e-6) <= mult <= sc_ * (1 + 1e-6)):
            found.append(("GMRFPiecewiseCoalescentBlockUpdatingOperator:proposal-kernel",
                          {"clause": "precision multiplier outside [1/scaler, scaler]", "scaler": sc_, "multiplier": mult},
                          {"tune_only": {"kind": "block", "scale": sc_, "acc": 0.0, "target": 1.0, "count": 0}}, 0))


def probe_boldness(ck: Check, rng):
    """tie `boldness(kind, scale)` to behaviour: at a larger boldness value the real operator's
    proposals (same random draws) must spread at least as far"""
    import random

    torch = _torch()
    from torchtree.core.parameter import Parameter
    from torchtree.inference.mcmc.operator import DirichletOperator, ScalerOperator, SlidingWindowOperator

    out = {}
    for kind, cls, s_timid, s_bold in (("scaler", ScalerOperator, 0.8, 0.4), ("window", SlidingWindowOperator, 0.5, 2.0),
                                       ("dirichlet", DirichletOperator, 200.0, 20.0)):
        spread = []
        for sc_ in (s_timid, s_bold):
            tot = 0.0
            r2 = random.Random(12345)
            for _ in range(200):
                x0 = [0.2, 0.3, 0.5]
                p = Parameter("p", torch.tensor(x0, dtype=torch.float64))
                op = cls("o", [p], 1.0, 0.24, sc_)
                with Scripted(torch, r2):
                    op.step()
                tot += sum((a - b) ** 2 for a, b in zip(p.tensor.tolist(), x0))
            spread.append(tot / 200)
        out[kind] = spread
        ck.case(("probe", kind), {"via": f"{cls.__name__}.step x200", "timid_scale": s_timid, "bold_scale": s_bold,
                                  "mean_sq_jump": spread}, bucket="probe/boldness-semantics")
        if not (boldness(kind, s_bold) > boldness(kind, s_timid) and spread[1] > spread[0]):
            ck.mismatch("boldness semantics of the scale field do not match the operator's behaviour",
                        {"kind": kind, "spread": spread})
    ck.extra["boldness_probe_mean_sq_jump(timid,bold)"] = out


# --------------------------------------------------------------------------- generators
def gen_cfg(rng, family, adapt, iterations):
    def op(kind, pidx, scale, **kw):
        d = {"kind": kind, "pidx": pidx, "weight": rng.choice([1.0, 2.0, 0.5]), "target": rng.choice([0.24, 0.24, 0.5, 0.8]),
             "scale": scale, "adapt": adapt if not isinstance(adapt, str) else rng.random() < 0.5}
        if rng.random() < 0.3:
            d["window_len"] = rng.choice([1, 3, 10])
        d.update(kw)
        return d

    if family == "edge" and rng.random() < 0.34:
        # moves far below any "close enough" tolerance (relative 1e-6) on a target sharper still: almost every move is
        # rejected and must be undone EXACTLY
        n = rng.randint(1, 2)
        t = {"kind": "normal", "loc": [1.0] * n, "scale": [1e-7] * n, "init": [[1.0] * n]}
        ops = [op("window", [0], 1e-6, adapt=False, weight=1.0), op("scaler", [0], 0.999999, adapt=False, weight=1.0)]
        iterations = max(iterations, 40)
        exact = True
    elif family == "edge" and rng.random() < 0.5:
        # a sharp target and a scale factor close to 1 with a high target acceptance: early moves are mostly
        # rejected, the tuned scale factor is pushed towards 1 (it must never cross it), later tiny moves are accepted
        n = rng.randint(1, 2)
        t = {"kind": "normal", "loc": [1.0] * n, "scale": [rng.choice([0.01, 0.02, 0.05])] * n, "init": [[1.0] * n]}
        ops = [op("scaler", [0], rng.choice([0.9, 0.95, 0.97, 0.99]), target=rng.choice([0.8, 0.9, 0.95]), adapt=True),
               op("window", [0], 0.01, adapt=False, weight=0.5)]
        iterations = max(iterations, 60)
        exact = False
    elif family == "edge":
        # start far in the tail: HMC turns several hundred units of potential into kinetic energy, the Hastings term
        # is a large negative (later positive) finite number balanced by the density change
        n = rng.randint(1, 2)
        t = {"kind": "normal", "loc": [0.0] * n, "scale": [1.0] * n, "init": [[rng.choice([-1, 1]) * rng.uniform(22, 36) for _ in range(n)]]}
        ops = [op("hmc", [0], 0.05, steps=rng.randint(27, 36), mass=[1.0] * n, G=[[(1.0 if i == j else 0.0) for j in range(n)] for i in range(n)],
                  b=[0.0] * n, target=0.8, adapt=False, weight=2.0),
               op("window", [0], rng.uniform(0.5, 2.0), adapt=False, weight=1.0)]
        exact = False
    elif family == "normal":
        n = rng.randint(1, 3)
        t = {"kind": "normal", "loc": [rng.uniform(-1, 1) for _ in range(n)], "scale": [rng.uniform(0.5, 2) for _ in range(n)],
             "init": [[rng.uniform(-2, 2) for _ in range(n)]]}
        ops = [op("window", [0], rng.choice([1.0, rng.uniform(0.2, 3)])), op("scaler", [0], rng.choice([0.5, rng.uniform(0.2, 0.9)]))]
        if rng.random() < 0.2:
            iterations = rng.choice([1, 2])  # minimum sizes
        if rng.random() < 0.5:
            mass = [rng.uniform(0.5, 2) for _ in range(n)]
            ops.append(op("hmc", [0], rng.choice([0.05, 0.1, 0.3]), steps=rng.randint(1, 6), mass=mass,
                          im=[1.0 / m for m in mass], G=[[(1.0 / t["scale"][i] ** 2 if i == j else 0.0) for j in range(n)] for i in range(n)],
                          b=[-t["loc"][i] / t["scale"][i] ** 2 for i in range(n)], target=0.8))
        exact = False
    elif family == "gamma_exp":
        t = {"kind": "gamma_exp", "conc": [rng.uniform(1.5, 4)], "rate": [rng.uniform(0.5, 3)],
             "loc": [rng.uniform(-1, 1)], "scale": [rng.uniform(0.5, 2)],
             "init": [[rng.uniform(-0.5, 0.5)], [rng.uniform(-1, 1)]]}
        ops = [op("window", [0], rng.uniform(0.2, 2)), op("window", [0, 1], rng.uniform(0.2, 2)),
               op("scaler", [1, 0], rng.uniform(0.3, 0.9))]
        if rng.random() < 0.6:
            # HMC on x whose own joint holds only the factor touching x, mixed with operators on the other parameter
            ops.append(op("hmc", [1], rng.choice([0.1, 0.3, 0.6]), steps=rng.randint(1, 5), mass=[rng.choice([0.5, 1.0, 2.0])],
                          G=[[0.0, 0.0], [0.0, 1.0 / t["scale"][0] ** 2]], b=[0.0, -t["loc"][0] / t["scale"][0] ** 2],
                          target=0.8, sub_joint=1, weight=2.0))
        exact = False
    elif family == "dirichlet":
        k = rng.randint(2, 4)
        g = [rng.gammavariate(2.0, 1.0) + 0.1 for _ in range(k)]
        t = {"kind": "dirichlet", "alpha": [rng.uniform(0.8, 4) for _ in range(k)], "conc": [rng.uniform(1.5, 4)],
             "rate": [rng.uniform(0.5, 3)], "init": [[x / sum(g) for x in g], [rng.uniform(0.3, 2)]]}
        ops = [op("dirichlet", [0], rng.choice([5.0, 20.0, 100.0, rng.uniform(2, 300)])), op("scaler", [1], rng.uniform(0.3, 0.9))]
        if rng.random() < 0.5:
            ops.append(op("window", [1], rng.uniform(0.1, 1.0)))  # may step below zero: degenerate branch
        exact = False
    elif family == "skygrid":
        ntaxa = rng.randint(4, 7)
        d = rng.randint(3, 5)
        sampling = sorted([0.0] + [rng.choice([0.0, rng.uniform(0, 1.0)]) for _ in range(ntaxa - 1)])
        coal_t, cur_t = [], max(sampling) * rng.random()
        for _ in range(ntaxa - 1):
            cur_t += rng.expovariate(1.0) * 0.7 + 0.05
            coal_t.append(max(cur_t, max(sampling) + 0.01 * len(coal_t) + 0.01))
        coal_t = sorted(coal_t)
        t = {"kind": "skygrid", "sampling": sampling, "coalescent": coal_t, "cutoff": coal_t[-1] * rng.uniform(0.6, 1.1),
             "conc": [rng.uniform(1.0, 3.0)], "rate": [rng.uniform(0.5, 2.0)],
             "init": [[rng.uniform(-1, 1) for _ in range(d)], [rng.uniform(0.5, 3.0)]]}
        if rng.random() < 0.35:
            # a start where the mode finder diverges and the Cholesky factorisation raises: the operator reports failure
            t["init"][0] = [rng.uniform(8, 11) for _ in range(d)]
        ops = [op("block", [0, 1], rng.choice([1.5, 2.0, 4.0, 1.0]), weight=3.0, target=rng.choice([0.24, 0.5])),
               op("scaler", [1], rng.uniform(0.4, 0.9)), op("window", [0], rng.uniform(0.2, 1.0))]
        exact = False
    elif family == "multi":
        # two (or more) operators of every class in ONE run, built through the constructors' own defaults or through
        # from_json: tune() of one operator must leave every other operator's tunables alone
        via = rng.choice(["ctor", "json"])
        if rng.random() < 0.5:
            sizes = [1, 1, 2]
            n = 4
            L = [[(1 if i == j else (rng.choice([-1, 0, 1]) if j < i else 0)) for j in range(n)] for i in range(n)]
            G = [[float(sum(L[i][k] * L[j][k] for k in range(n))) for j in range(n)] for i in range(n)]
            t = {"kind": "quad", "G": G, "b": [float(rng.randint(-2, 2)) for _ in range(n)],
                 "init": [[rng.randint(-4, 4) / 4 for _ in range(sz)] for sz in sizes]}
            ops = []
            for k_ in (0, 1, 2):
                sz = sizes[k_]
                ops.append(op("hmc", [k_], rng.choice([0.1, 0.25, 0.5]), steps=rng.randint(1, 4),
                              mass=[rng.choice([0.5, 1.0, 2.0]) for _ in range(sz)], G=G, b=t["b"], target=0.8, adapt=True))
            ops += [op("window", [0], rng.uniform(0.3, 1.5), adapt=True), op("window", [2], rng.uniform(0.3, 1.5), adapt=True),
                    op("scaler", [1], rng.uniform(0.4, 0.9), adapt=True), op("scaler", [2], rng.uniform(0.4, 0.9), adapt=True)]
        else:
            k1, k2 = rng.randint(2, 4), rng.randint(2, 3)
            g1 = [rng.gammavariate(2.0, 1.0) + 0.1 for _ in range(k1)]
            g2 = [rng.gammavariate(2.0, 1.0) + 0.1 for _ in range(k2)]
            t = {"kind": "dirichlet", "alpha": [rng.uniform(0.8, 4) for _ in range(k1)], "alpha2": [rng.uniform(0.8, 4) for _ in range(k2)],
                 "conc": [rng.uniform(1.5, 4)], "rate": [rng.uniform(0.5, 3)],
                 "init": [[x / sum(g1) for x in g1], [rng.uniform(0.3, 2)], [x / sum(g2) for x in g2]]}
            ops = [op("dirichlet", [0], rng.choice([5.0, 20.0, 100.0]), adapt=True), op("dirichlet", [2], rng.choice([5.0, 50.0]), adapt=True),
                   op("scaler", [1], rng.uniform(0.3, 0.9), adapt=True), op("scaler", [1], rng.uniform(0.3, 0.9), adapt=True),
                   op("window", [1], rng.uniform(0.05, 0.3), adapt=True), op("window", [1], rng.uniform(0.05, 0.3), adapt=True)]
        for o_ in ops:
            o_["via"] = via
            if via == "json":
                o_.pop("window_len", None)
        iterations = max(iterations, 50)
        exact = False
    elif family == "dtype":
        # float32 parameters (and hyper-parameters, mass matrix) through the whole loop, default dtype float32 or float64
        n = rng.randint(1, 3)
        t = {"kind": "normal", "dtype": "float32", "loc": [rng.randint(-4, 4) / 4 for _ in range(n)],
             "scale": [rng.choice([0.5, 1.0, 2.0]) for _ in range(n)], "init": [[rng.randint(-8, 8) / 4 for _ in range(n)]]}
        mass = [rng.choice([0.5, 1.0, 2.0]) for _ in range(n)]
        ops = [op("window", [0], rng.choice([0.5, 1.0, 2.0])), op("scaler", [0], rng.choice([0.5, 0.75])),
               op("hmc", [0], rng.choice([0.125, 0.25]), steps=rng.randint(1, 4), mass=mass,
                  G=[[(1.0 / t["scale"][i] ** 2 if i == j else 0.0) for j in range(n)] for i in range(n)],
                  b=[-t["loc"][i] / t["scale"][i] ** 2 for i in range(n)], target=0.8)]
        exact = False
    elif family == "fail":
        # an operator that never has a proposal (harness-side, returns the constants the shipped operators use for that)
        n = rng.randint(1, 2)
        t = {"kind": "normal", "loc": [0.0] * n, "scale": [1.0] * n, "init": [[rng.uniform(-1, 1) for _ in range(n)]]}
        try:
            sent = sorted({{"posInf": "inf", "negInf": "-inf", "nan": "nan"}[x] for _c, v in tr_runorder.operator_failure_returns() for x in v})
        except Exception:  # an unrecognised shape is the translator's business (obligation not discharged), never a harness crash
            sent = []
        sent = sorted(set(sent) | {"inf", "-inf", "nan"})  # every non-finite value means "no proposal" (accept rule)
        ops = [op("window", [0], rng.uniform(0.3, 1.5)), {"kind": "stub", "pidx": [0], "weight": 1.0, "target": 0.24, "scale": 1.0,
                                                           "adapt": False, "sentinels": sent},
               op("scaler", [0], rng.uniform(0.4, 0.9))]
        exact = False
    elif family == "hmc_adapt":
        # HMC with the adaptors of hmc/adaptation.py, run past the first mass-matrix re-estimation
        n = rng.randint(2, 3)
        if rng.random() < 0.5:
            t = {"kind": "normal", "loc": [rng.uniform(-1, 1) for _ in range(n)],
                 "scale": [rng.uniform(0.5, 2) for _ in range(n)], "init": [[rng.uniform(-1, 1) for _ in range(n)]]}
            G = [[(1.0 / t["scale"][i] ** 2 if i == j else 0.0) for j in range(n)] for i in range(n)]
            b = [-t["loc"][i] / t["scale"][i] ** 2 for i in range(n)]
        else:
            L = [[(1 if i == j else (rng.choice([-1, 0, 1]) if j < i else 0)) for j in range(n)] for i in range(n)]
            G = [[float(sum(L[i][k] * L[j][k] for k in range(n))) for j in range(n)] for i in range(n)]
            b = [float(rng.randint(-2, 2)) for _ in range(n)]
            t = {"kind": "quad", "G": G, "b": b, "init": [[rng.randint(-4, 4) / 4 for _ in range(n)]]}
        # step sizes from timid to near the stability limit: acceptance probabilities spread over (0, 1] and
        # real rejections occur, so that rate and probability statistics differ
        eps = rng.choice([0.1, 0.3, 0.6, 0.9, 1.2])
        ads = []
        which = rng.choice(["adaptive-prob", "adaptive-rate", "dual", "none"])
        win = {"start": rng.choice([None, None, 3, 12]), "end": rng.choice([None, None, 20, 35])}
        if which.startswith("adaptive"):
            ads.append({"type": "adaptive", "target": rng.choice([0.6, 0.8, 0.9, 0.3]), "use_rate": which.endswith("rate"), **win})
        elif which == "dual":
            ads.append({"type": "dual", "mu": math.log(10 * eps), "delta": rng.choice([0.8, 0.65]), "gamma": 0.05,
                        "kappa": 0.75, "t0": 10, **win})
        mk = rng.choice(["diag", "dense", "none"]) if ads else rng.choice(["diag", "dense"])
        if mk == "dense":
            mass = [[(rng.choice([0.5, 1.0, 2.0]) if i == j else 0.0) for j in range(n)] for i in range(n)]
            mass[0][1] = mass[1][0] = 0.25
        else:
            mass = [rng.choice([0.5, 1.0, 2.0]) for _ in range(n)]
        if mk != "none":
            ads.append({"type": "mass", "update_frequency": 10 if mk == "dense" else rng.choice([5, 10]),
                        "start": rng.choice([None, None, 2]), "end": None,
                        "regularize": True if mk == "dense" else rng.random() < 0.8})
        ops = [op("hmc", [0], eps, steps=rng.randint(2, 6), mass=mass, G=G, b=b, target=0.8, adaptors=ads, weight=4.0),
               op("window", [0], rng.uniform(0.3, 1.5), weight=1.0)]
        iterations = max(iterations, rng.randint(45, 70))
    else:  # quad: dyadic everything, two parameters, HMC + sliding window, exact arithmetic
        sizes = rng.choice([[1, 1], [2, 1], [1], [2]])
        n = sum(sizes)
        L = [[(1 if i == j else (rng.choice([-1, 0, 1]) if j < i else 0)) for j in range(n)] for i in range(n)]
        G = [[float(sum(L[i][k] * L[j][k] for k in range(n))) for j in range(n)] for i in range(n)]
        init, s = [], 0
        for sz in sizes:
            init.append([rng.randint(-8, 8) / 4 for _ in range(sz)])
        t = {"kind": "quad", "G": G, "b": [float(rng.randint(-2, 2)) for _ in range(n)], "init": init,
             "ids": rng.choice(["distinct", "anonymous", "duplicate"])}
        # HMC on all parameters, or only on the first one while sliding windows move the other (which enters
        # HMC's gradient through the coupling in G)
        hmc_pidx = [0] if (len(sizes) > 1 and family == "quad" and rng.random() < 0.6) else list(range(len(sizes)))
        nm = sum(sizes[k] for k in hmc_pidx)
        mass = [rng.choice([0.5, 1.0, 2.0]) for _ in range(nm)]
        ops = [op("hmc", hmc_pidx, rng.choice([0.5, 0.25, 0.125]), steps=rng.randint(1, 4), mass=mass,
                  im=[1.0 / m for m in mass], G=G, b=t["b"], target=0.8),
               op("window", [0], rng.choice([0.5, 1.0, 2.0]))]
        if len(sizes) > 1:
            ops.append(op("window", [1, 0], rng.choice([0.5, 1.0])))
        if family == "quad_nan":
            # the stub target is nan outside a band around the start: HMC trials and window moves leave it
            # (all ten trials raising -> `inf`; nan density) -> both degenerate branches of MCMC.run
            half_band = rng.choice([0.0, 0.0625, 0.5])
            t["lo"], t["hi"] = init[0][0] - half_band, init[0][0] + half_band
            ops[0]["lo"], ops[0]["hi"] = t["lo"], t["hi"]
        exact = True
    for o_ in ops:
        if o_["kind"] == "hmc" and o_.get("via") != "json" and rng.random() < 0.6:
            # documented option the default never exercises: the energy-error threshold of the divergence WARNING
            o_["divergence_threshold"] = rng.choice([0.05, 0.2, 1.0, 5.0])
    any_adapt = any(o["adapt"] or o.get("adaptors") for o in ops)
    loggers = [{"file": rng.random() < 0.75, "every": rng.choice([1, 1, 2, 3]), "delimiter": rng.choice([None, "\t"])}
               for _ in range(rng.choice([1, 2, 3]))]
    if not any(l_["file"] for l_ in loggers):
        loggers[0]["file"] = True
    seen_stdout = False
    for l_ in loggers:  # at most one logger on stdout (their rows would interleave in the captured stream)
        if not l_["file"]:
            if seen_stdout:
                l_["file"] = True
            seen_stdout = True
    return {"family": family, "target": t, "ops": ops, "iterations": iterations, "loggers": loggers,
            "oracle_only": any(o["kind"] == "stub" for o in ops) or family == "dtype",
            **({"default_dtype": rng.choice(["float32", "float64"])} if family == "dtype" else {}),
            # bit-exact agreement is demanded when only elementwise IEEE operations are on the state path: no
            # adaptation (exp/log in the scale) and no HMC (torch's matmul sums in its own order once the state is
            # no longer dyadic; bit-exactness of the integrator is C16's tie)
            "exact_expected": (not any_adapt) and all(o["kind"] != "hmc" for o in ops)}


def run(ck: Check):
    ck.rule = (
        "one case = one transition (iteration) of the REAL MCMC.run, recorded by wrapping operator.step/accept/"
        "reject/tune, the joint and the random sources from the harness, compared with one step of the Lean "
        "machine fed the same tape; plus one case per operator.tune() call compared with the generated tuning "
        "expressions; distinct = distinct (run, iteration, operator kind, decision, Hastings ratio, proposal); "
        "non-trivial = the proposal differs from the current state (transitions) / the scale moved (tune)"
    )
    ck.assumptions += [
        "the target is a function of the parameter state (fresh evaluation, C11); checked per transition against a "
        "from-scratch rebuild of the target",
        "the initial log_joint is finite",
        "HMC proposal and its Hastings term: model and theorems of C16",
        "`acceptance_prob > torch.rand(1)` is evaluated by torch in float32 (0-dim float64 vs 1-dim float32 "
        "promotion): a uniform within float32 resolution (relative 1e-6 here) of the acceptance probability is "
        "treated as a tie, not compared",
        "GMRF block update: reject_restores / carried_density_invariant / rm_direction cover it (two own "
        "parameters, generated tuning expressions); its Hastings bookkeeping is not modelled (partial)",
    ]
    ck.trusted += ["torch.distributions densities and samplers (the samplers are replaced by harness draws), "
                   "mpmath loggamma (closed-form Dirichlet proposal densities)"]
    lean_src, tr_ok, note, specs = tr_tuning.translate(REPO)
    if not tr_ok:
        ck.notes.append("translator: " + note)
    ck.extra["translator_recognised_source"] = tr_ok
    ck.extra["generated_tuning"] = {k: {"field": v["field"], "getter": v["getter"], "setter": v["setter"]}
                                    for k, v in specs.items()}
    order_src, order_ok, order_note = tr_runorder.translate(REPO)
    if not order_ok:
        ck.notes.append("run-order translator: " + order_note)
    ck.extra["run_order_recognised"] = order_ok
    ok, broken = ck.lean_side({"TTGen/C15_Tuning.lean": lean_src, "TTGen/C15_RunOrder.lean": order_src},
                              ["TTGen.C15_Tuning", "TTGen.C15_RunOrder", "TTProofs.Props.C15", "drv_c15"],
                              "TTProofs/Props/C15.lean")
    drv = None
    try:
        drv = ck.driver("drv_c15")
    except Exception as e:
        ck.notes.append(f"driver unavailable: {e}")
    rng = ck.rng
    found = []
    thorough = ck.thorough()
    n_runs = 500 if thorough else 100
    iters = (30, 80) if thorough else (25, 60)
    runs = []
    try:
        corpus_dir = VERIF / "corpus" / "C15"
        for f in sorted(corpus_dir.glob("*.json")) if corpus_dir.exists() else []:
            c = json.loads(f.read_text())
            if "cfg" in c:
                runs.append((c["cfg"], c["tape_seed"], "corpus/" + f.stem))
        fams = ["normal", "gamma_exp", "dirichlet", "quad", "quad_nan", "hmc_adapt", "hmc_adapt", "edge", "skygrid", "skygrid",
                "multi", "multi", "fail", "dtype"]
        for i in range(n_runs):
            fam = fams[i % 14]
            adapt = [True, False, "mixed"][(i // 14) % 3]
            runs.append((gen_cfg(rng, fam, adapt, rng.randint(*iters)), rng.randrange(1 << 30), f"run{i}"))
        budget_s = 600 if thorough else 70
        for cfg, tseed, label in runs:
            if time.time() - ck.t0 > budget_s:
                ck.bucket("runs/skipped-time-budget")  # verdict hygiene: the check reports within its budget
                continue
            if len({f[0] for f in found}) >= 8:
                ck.bucket("runs/skipped-after-findings")  # work after findings is bounded
                continue
            try:
                res = execute_run(cfg, tseed)
            except Exception as e:  # building the objects failed: implementation problem, not a harness crash
                ck.mismatch("could not build / run the configuration", {"cfg": cfg, "error": f"{type(e).__name__}: {e}"})
                continue
            ck.bucket(f"runs/{cfg['family']}/{'exact' if cfg['exact_expected'] else 'tolerance'}")
            dense_adapted = any(a["type"] == "mass" and isinstance(o["mass"][0], list)
                                for o in cfg["ops"] for a in o.get("adaptors", []))
            if res["error"] and dense_adapted and "covariance_matrix" in res["error"]:
                # the dense MassMatrixAdaptor can hand torch a re-estimated matrix that MultivariateNormal's
                # validation refuses (float32 running mean -> asymmetric / near-singular estimate from few, repeated
                # samples): the run stops inside sample_momentum.  Not one of the property's clauses; the
                # transitions recorded before it are still checked.
                ck.bucket("runs/stopped-by-torch-validation-of-adapted-dense-mass")
            elif res["error"]:
                ck.mismatch("MCMC.run raised", {"cfg": cfg, "tape_seed": tseed, "error": res["error"],
                                               "iterations_done": len(res["records"])})
                ck.bucket("runs/raised-" + res["error"].split(":")[0])
            n_before = len(found)
            check_records(ck, cfg, res, found, label)
            check_log_files(ck, cfg, res, found, tseed)
            for j in range(n_before, len(found)):
                found[j] = found[j] + (tseed,)
            if drv and not cfg.get("oracle_only"):
                compare_run(ck, drv, cfg, res, label)
            if cfg["family"] == "dtype" and not res["error"]:
                compare_dtype_reference(ck, cfg, tseed, res, found)
            if cfg["family"] in ("gamma_exp", "dirichlet") and not res["error"] and time.time() - ck.t0 < 70 \
                    and all(o["kind"] != "hmc" for o in cfg["ops"]):  # HMC needs autograd
                compare_grad_mode(ck, cfg, tseed, res, found)
        if drv:
            tuning_cases(ck, drv, rng, 1500 if thorough else 300, found)
            tune_sequences(ck, drv, rng, 200 if thorough else 40, found)
            precision_cases(ck, drv, rng, 400 if thorough else 80, found)
        probe_boldness(ck, rng)
        try:
            size_regime_cases(ck, rng, found, thorough)
        except Exception as e:
            ck.mismatch("size-regime cases stopped", {"error": f"{type(e).__name__}: {str(e)[:200]}"})
        # construction routes, deep copies (checklist items 1 and 5)
        try:
            c15_routes.simple_operator_routes(ck, rng, found, Scripted, thorough)
            c15_routes.adaptor_routes(ck, rng, found, thorough)
            c15_routes.integrator_routes(ck, rng, found)
            c15_routes.deepcopy_cases(ck, rng, found, Scripted)
        except Exception as e:  # anything unexpected read from the implementation: a recorded mismatch, not a crash
            ck.mismatch("construction-route cases stopped", {"error": f"{type(e).__name__}: {str(e)[:200]}"})
    finally:
        if drv:
            drv.close()
    ck.extra["runs"] = len(runs)
    ck.extra["tensor_constructors_without_dtype"] = scan_constructors()
    # ---- verdict
    if found:
        seen = set()
        for item in sorted(found, key=lambda t: (t[0], t[3])):
            sig, obs, cfg, it = item[:4]
            if sig in seen:
                continue
            seen.add(sig)
            rp = {"observed": obs, "iteration": it + 1, "broken_obligations": broken,
                  "replay_cmd": "./check C15 --replay <this file>"}
            if "tune_only" in cfg:
                rp["tune_only"] = cfg["tune_only"]
            elif "route_case" in cfg:
                rp["route_case"] = cfg["route_case"]
            else:
                rp["cfg"], rp["tape_seed"] = cfg, item[4] if len(item) > 4 else None
            ck.violation(sig, f"{obs['clause']} [{sig}]", rp)
    elif not ok or ck.mismatches:
        ck.violation("MCMC.run:unproved", "C15 theorems or the model/implementation correspondence no longer check",
                     {"broken_obligations": broken, "mismatches": ck.mismatches[:5], "translator_note": note},
                     found_input=False)


def replay(path: str) -> int:
    obj = json.loads(Path(path).read_text())
    use_repo()
    if "tune_only" in obj:
        t = obj["tune_only"]
        new, _ = real_tune(t["kind"], t["scale"], t["acc"], t["target"], t["count"])
        b0, b1 = boldness(t["kind"], t["scale"]), boldness(t["kind"], new)
        print(f"{op_class(t['kind'])}.tune(acceptance_prob={t['acc']}) with target {t['target']}: scale {t['scale']} -> {new}; "
              f"boldness {b0} -> {b1}")
        adm = {"scaler": 0 < new < 1, "block": new >= 1}.get(t["kind"], new > 0)
        bad = (t["acc"] >= t["target"] and b1 < b0 * (1 - 1e-12)) or not adm
        print("VIOLATES" if bad else "ok")
        return 1 if bad else 0
    if "route_case" in obj:
        ck = Check("C15", "quick", 0)
        found = []
        import random as _r

        rng = _r.Random(0)
        c15_routes.simple_operator_routes(ck, rng, found, Scripted, True)
        c15_routes.adaptor_routes(ck, rng, found, True)
        c15_routes.integrator_routes(ck, rng, found)
        c15_routes.deepcopy_cases(ck, rng, found, Scripted)
        hits = [f for f in found if f[0] == obj.get("signature")]
        for f in hits[:3]:
            print(f[0], json.dumps(f[1], default=str)[:600])
        print("VIOLATES" if hits else "ok")
        return 1 if hits else 0
    if "cfg" not in obj:
        print("replay names broken obligations only:", obj.get("broken_obligations"),
              [m.get("what") for m in obj.get("mismatches", [])])
        return 1
    ck = Check("C15", "quick", 0)
    res = execute_run(obj["cfg"], obj["tape_seed"])
    found = []
    check_records(ck, obj["cfg"], res, found, "replay")
    hits = [f for f in found if f[0] == obj.get("signature")] or found
    for sig, obs, _cfg, it in hits[:3]:
        print(f"iteration {it + 1}: {sig}: {obs}")
    print("VIOLATES" if hits else "ok")
    return 1 if hits else 0
