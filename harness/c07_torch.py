"""C07 — the torch transforms reachable from generated configurations.

What torchtree/cli emits (make_unconstrained, apply_*_transform, create_*): ExpTransform, SigmoidTransform,
AffineTransform(loc, scale=1.0) over an Exp-transformed parameter (nested TransformedParameters),
StickBreakingTransform; PowerTransform is reached through torchtree.distributions.InverseGamma; SoftplusTransform,
`t.inv` and ComposeTransform complete the family. Each is compared
  * with the Lean model `TTModel/C07_Torch.lean` (forward / inverse / log_abs_det_jacobian as torch writes them), and
  * with the AD Jacobian of its forward map and with inverse(forward(x)) = x (the property's own oracle),
also as the transform of a live TransformedParameter (update histories) and nested as the CLI nests them.
"""
from __future__ import annotations

import math

from common import f2h, h2f, use_repo

use_repo()
import torch  # noqa: E402
import torch.distributions as D  # noqa: E402
from torch.autograd.functional import jacobian  # noqa: E402

DT = torch.float64


def t64(v):
    return torch.tensor(v, dtype=DT)


def elementwise_instances(rng):
    """(name, driver spec, constructor, sampler of a domain point, sampler of a point for the round trip)"""
    real = lambda: rng.uniform(-6, 6)  # noqa: E731
    wide = lambda: rng.choice([rng.uniform(-12, 12), rng.uniform(18, 30), rng.uniform(-30, -18), 20.0, 20.5])  # noqa: E731
    pos = lambda: rng.uniform(0.05, 6.0)  # noqa: E731
    unit = lambda: rng.uniform(0.02, 0.98)  # noqa: E731
    loc = rng.choice([0.0, 1.5, -2.25, rng.uniform(-5, 5)])
    scale = rng.choice([1.0, 1.0, 2.0, -0.5, rng.uniform(0.1, 4.0), -rng.uniform(0.1, 4.0)])
    e = rng.choice([-1.0, -1.0, 0.5, 2.0, -2.5, rng.uniform(0.2, 3.0)])
    aff = f"affine:{f2h(loc)}:{f2h(scale)}"
    out = [
        ("torch.ExpTransform", "exp", lambda: D.ExpTransform(), lambda: rng.uniform(-20, 20), real),
        # AD loses 1 − sigmoid(x) beyond |x| ~ 12 (the oracle, not torch): wide points go to the Lean comparison only
        ("torch.SigmoidTransform", "sigmoid", lambda: D.SigmoidTransform(), lambda: rng.uniform(-12, 12), real, wide),
        ("torch.SoftplusTransform", "softplus", lambda: D.SoftplusTransform(), wide, real),
        ("torch.AffineTransform", aff, lambda: D.AffineTransform(loc, scale), real, real),
        ("torch.PowerTransform", f"power:{f2h(e)}", lambda: D.PowerTransform(t64(e)), pos, pos),
        ("torch.ExpTransform.inv", "exp^-1", lambda: D.ExpTransform().inv, pos, pos),
        ("torch.SigmoidTransform.inv", "sigmoid^-1", lambda: D.SigmoidTransform().inv, unit, unit),
        ("torch.AffineTransform.inv", aff + "^-1", lambda: D.AffineTransform(loc, scale).inv, real, real),
    ]
    return out


def compose_instances(rng):
    """ComposeTransform chains of element-wise parts (incl. the CLI's affine∘exp nesting written as one chain)"""
    loc = rng.choice([1.0, 2.5, rng.uniform(0.1, 5)])
    sc = rng.choice([1.0, 1.0, rng.uniform(0.2, 3.0)])
    e = rng.choice([-1.0, 2.0])
    real = lambda: rng.uniform(-5, 5)  # noqa: E731
    a = f"affine:{f2h(loc)}:{f2h(sc)}"
    return [
        ("Compose[exp, affine]", f"exp;{a}", lambda: D.ComposeTransform([D.ExpTransform(), D.AffineTransform(loc, sc)]), real),
        ("Compose[affine, sigmoid]", f"{a};sigmoid", lambda: D.ComposeTransform([D.AffineTransform(loc, sc), D.SigmoidTransform()]), real),
        ("Compose[exp, power]", f"exp;power:{f2h(e)}", lambda: D.ComposeTransform([D.ExpTransform(), D.PowerTransform(t64(e))]), real),
        ("Compose[sigmoid, affine, exp]", f"sigmoid;{a};exp",
         lambda: D.ComposeTransform([D.SigmoidTransform(), D.AffineTransform(loc, sc), D.ExpTransform()]), real),
        ("Compose[softplus, exp^-1]", "softplus;exp^-1", lambda: D.ComposeTransform([D.SoftplusTransform(), D.ExpTransform().inv]), real),
    ]


def close(a, b, tol):
    if isinstance(a, (list, tuple)):
        return len(a) == len(b) and all(close(float(u), float(v), tol) for u, v in zip(a, b))
    if math.isnan(a) or math.isnan(b):
        return False
    return a == b or abs(a - b) <= tol * max(1.0, abs(a), abs(b))


def ask(drv, q):
    r = drv.ask(q)
    return None if r == "bad-op" else [h2f(v) for v in r.split()]


def enc(vals):
    return " ".join(f2h(float(v)) for v in vals)


def check_elementwise(ck, drv, name, spec, t, xs, xs_rt, fails, op="torch"):
    """one element-wise torch transform (or chain) at the points xs (log-det) and xs_rt (round trip)"""
    x = t64(xs)
    try:
        y = t(x)
        rep = t.log_abs_det_jacobian(x, y)
        J = jacobian(lambda v: t(v), x)
        true = torch.diagonal(J).abs().log()
        off = (J - torch.diag(torch.diagonal(J))).abs().max().item() if len(xs) > 1 else 0.0
        if tuple(rep.shape) != tuple(x.shape) or off != 0.0 or not close(rep.tolist(), true.tolist(), 1e-8):
            fails.append((f"{name}:logdet", f"reports {rep.tolist()} at x = {xs} but the AD Jacobian has log|diag| = {true.tolist()}"))
        xr = t64(xs_rt)
        yr = t(xr)
        back = t.inv(yr)
        if not torch.allclose(back, xr, rtol=1e-8, atol=1e-8):
            fails.append((f"{name}:inverse", f"inverse(forward(x)) = {back.tolist()} for x = {xs_rt}"))
    except Exception as e:
        fails.append((f"{name}:raises", f"{type(e).__name__}: {str(e)[:140]}"))
        return
    if drv is None:
        return
    fm = ask(drv, f"{op} F {spec} fwd | {enc(xs)}")
    lm = ask(drv, f"{op} F {spec} ld | {enc(xs)}")
    if fm is None or not close(y.tolist(), fm, 1e-10):
        ck.mismatch(f"{name} forward (torch vs Lean model)", {"x": xs, "torch": y.tolist(), "model": fm})
    if lm is None or not close(rep.tolist(), lm, 1e-10):
        ck.mismatch(f"{name} log_abs_det_jacobian (torch vs Lean model)", {"x": xs, "torch": rep.tolist(), "model": lm})
    if op == "torch":
        im = ask(drv, f"torch F {spec} inv | {enc(yr.tolist())}")
        if im is None or not close(back.tolist(), im, 1e-10):
            ck.mismatch(f"{name} inverse (torch vs Lean model)", {"y": yr.tolist(), "torch": back.tolist(), "model": im})


def check_stick(ck, drv, rows, batched, fails):
    name = "torch.StickBreakingTransform"
    t = D.StickBreakingTransform()
    x = t64(rows if batched else rows[0])
    tag = ":batched" if batched else ""
    try:
        y = t(x)
        rep = t.log_abs_det_jacobian(x, y)
        back = t.inv(y)
        reps = rep.tolist() if batched else [rep.item()]
        for b, row in enumerate(rows):
            J = jacobian(lambda v: t(v)[..., :-1], t64(row))  # the simplex has n free coordinates
            true = torch.linalg.slogdet(J)[1].item()
            upper = torch.triu(J, diagonal=1).abs().max().item() if len(row) > 1 else 0.0
            if not close(float(reps[b]), true, 1e-8) or upper != 0.0:
                fails.append((f"{name}:logdet{tag}", f"reports {reps[b]} at x = {row}; AD Jacobian (first n coordinates) has {true}"))
                break
        if tuple(back.shape) != tuple(x.shape) or not torch.allclose(back, x, rtol=1e-8, atol=1e-8):
            fails.append((f"{name}:inverse{tag}", f"inverse(forward(x)) = {back.tolist()} for x = {x.tolist()}"))
        if not torch.allclose(y.sum(-1), torch.ones_like(y.sum(-1)), atol=1e-12) or (y <= 0).any():
            fails.append((f"{name}:simplex{tag}", f"forward(x) = {y.tolist()} is not a point of the open simplex"))
    except Exception as e:
        fails.append((f"{name}:raises{tag}", f"{type(e).__name__}: {str(e)[:140]}"))
        return
    if drv is None:
        return
    ys = y.tolist() if batched else [y.tolist()]
    backs = back.tolist() if batched else [back.tolist()]
    for b, row in enumerate(rows):
        fm = ask(drv, f"stick F fwd | {enc(row)}")
        lm = ask(drv, f"stick F ld | {enc(row)}")
        im = ask(drv, f"stick F inv | {enc(ys[b])}")
        if fm is None or not close(ys[b], fm, 1e-10):
            ck.mismatch(f"{name} forward (torch vs Lean model)", {"x": row, "torch": ys[b], "model": fm})
        if lm is None or not close([float(reps[b])], lm, 1e-10):
            ck.mismatch(f"{name} log_abs_det_jacobian (torch vs Lean model)", {"x": row, "torch": reps[b], "model": lm})
        if im is None or not close(backs[b], im, 1e-10):
            ck.mismatch(f"{name} inverse (torch vs Lean model)", {"y": ys[b], "torch": backs[b], "model": im})


def tp_registry(rng):
    """torch transforms as TransformedParameter transforms: name -> (constructor, draw(m) -> row, kind)"""
    reg = {}
    for inst in elementwise_instances(rng):
        name, _spec, ctor, _d, rt = inst[:5]
        reg[name] = (ctor, (lambda rt_: (lambda m: [rt_() for _ in range(m)]))(rt), "elementwise")
    for name, _spec, ctor, d in compose_instances(rng):
        reg[name] = (ctor, (lambda d_: (lambda m: [d_() for _ in range(m)]))(d), "elementwise")
    reg["torch.StickBreakingTransform"] = (lambda: D.StickBreakingTransform(),
                                           lambda m: [rng.uniform(-3, 3) for _ in range(m)], "simplex")
    return reg


def nested_history(ck, rng, fails):
    """the CLI's nesting for a lower bound ≠ 0: TransformedParameter(Affine(loc, 1.0)) over
    TransformedParameter(Exp) over a Parameter; (and Sigmoid under Affine for a general interval). After updates of
    the innermost parameter every level must report value and log-Jacobian for the CURRENT value."""
    from torchtree import Parameter, TransformedParameter

    loc = rng.choice([0.5, 2.0, rng.uniform(0.1, 10.0)])
    scale = rng.choice([1.0, 1.0, rng.uniform(0.5, 3.0)])
    inner_t, inner_f, inner_ld = rng.choice([
        (D.ExpTransform, torch.exp, lambda u: u),
        (D.SigmoidTransform, torch.sigmoid, lambda u: -torch.nn.functional.softplus(-u) - torch.nn.functional.softplus(u)),
    ])
    m = rng.randrange(1, 4)
    u0 = [rng.uniform(-3, 3) for _ in range(m)]
    p = Parameter("u", t64(u0))
    inner = TransformedParameter("inner", p, inner_t())
    outer = TransformedParameter("outer", inner, D.AffineTransform(loc, scale))
    _ = outer(), inner(), outer.tensor
    steps = []
    emode = rng.choice(["no_grad", "grad"])
    for k in range(rng.randrange(2, 5)):
        new = [rng.uniform(-3, 3) for _ in range(m)]
        mode = rng.choice(["assign", "inplace", "inplace"])
        steps.append({"mode": mode, "values": new})
        try:
            if mode == "assign":
                p.tensor = t64(new)
            else:
                with torch.no_grad():
                    p.tensor.copy_(t64(new))
                p.fire_parameter_changed()
            u = t64(new)
            import contextlib

            with (torch.no_grad() if emode == "no_grad" else contextlib.nullcontext()):
                _ = outer.tensor, outer(), inner()
            if not torch.equal(p.tensor.detach(), u):
                fails.append((f"TransformedParameter[nested]:input-mutated:{emode}",
                              f"after update {k} ({mode}) evaluating the nesting ({emode}) changed the innermost parameter from "
                              f"{new} to {p.tensor.tolist()}",
                              {"type": "nested", "loc": loc, "scale": scale, "inner": inner_t.__name__, "u0": u0, "steps": list(steps)}))
                return
            want_val = loc + scale * inner_f(u)
            want_outer = torch.full_like(u, math.log(abs(scale)))
            want_inner = inner_ld(u)
            got = (outer.tensor, outer(), inner())
            ok = all(torch.allclose(a, b, rtol=1e-12, atol=1e-12) for a, b in zip(got, (want_val, want_outer, want_inner)))
            # total log-Jacobian of the nesting against AD of the composed map
            J = jacobian(lambda v: loc + scale * inner_f(v), u)
            true = torch.diagonal(J).abs().log()
            ok_ad = torch.allclose(got[1] + got[2], true, rtol=1e-8, atol=1e-8)
        except Exception as e:
            fails.append(("TransformedParameter[nested]:raises", f"update {k} ({mode}) raises {type(e).__name__}: {str(e)[:120]}",
                          {"type": "nested", "loc": loc, "scale": scale, "inner": inner_t.__name__, "u0": u0, "steps": list(steps)}))
            return
        if not (ok and ok_ad):
            fails.append(("TransformedParameter[nested]:stale" if not ok else "TransformedParameter[nested]:logdet",
                          f"after update {k} ({mode}) to {new}: outer.tensor {got[0].tolist()} (current value {want_val.tolist()}), "
                          f"outer() {got[1].tolist()} + inner() {got[2].tolist()} (AD of the composed map {true.tolist()})",
                          {"type": "nested", "loc": loc, "scale": scale, "inner": inner_t.__name__, "u0": u0, "steps": list(steps)}))
            return
    ck.case(key=("nested", loc, scale, inner_t.__name__, tuple(u0)), bucket="TransformedParameter/nested affine over " + inner_t.__name__)


def run_section(ck, drv, rng, fails, flush):
    reps = 10 if ck.thorough() else 4
    for _ in range(reps):
        for inst in elementwise_instances(rng):
            name, spec, ctor, dsam, rtsam = inst[:5]
            m = rng.randrange(1, 6)
            xs = [dsam() for _ in range(m)]
            xr = [rtsam() for _ in range(m)]
            check_elementwise(ck, drv, name, spec, ctor(), xs, xr, fails)
            if len(inst) > 5 and drv is not None:  # extra points compared with the Lean model only
                xw = [inst[5]() for _ in range(4)]
                t = ctor()
                y = t(t64(xw))
                rep = t.log_abs_det_jacobian(t64(xw), y)
                fm, lm = ask(drv, f"torch F {spec} fwd | {enc(xw)}"), ask(drv, f"torch F {spec} ld | {enc(xw)}")
                if fm is None or lm is None or not close(y.tolist(), fm, 1e-10) or not close(rep.tolist(), lm, 1e-10):
                    ck.mismatch(f"{name} beyond the softplus threshold (torch vs Lean model)",
                                {"x": xw, "torch": [y.tolist(), rep.tolist()], "model": [fm, lm]})
            ck.case(key=(name, spec, tuple(xs)), nontrivial=True, bucket=name,
                    sample={"transform": name, "x": xs} if m >= 3 else None)
            flush({"type": "torch", "transform": name, "spec": spec, "x": [xs], "x_roundtrip": [xr]}, (m, 1))
        for name, spec, ctor, dsam in compose_instances(rng):
            m = rng.randrange(1, 5)
            xs = [dsam() for _ in range(m)]
            check_elementwise(ck, drv, name, spec, ctor(), xs, xs, fails, op="torchc")
            ck.case(key=(name, spec, tuple(xs)), bucket="torch.ComposeTransform")
            flush({"type": "torchc", "transform": name, "spec": spec, "x": [xs]}, (m, 1))
    for i in range(40 if ck.thorough() else 14):
        n = 1 + i % 7
        batched = i % 3 == 2
        rows = [[rng.uniform(-4, 4) for _ in range(n)] for _ in range(rng.randrange(2, 4) if batched else 1)]
        check_stick(ck, drv, rows, batched, fails)
        ck.case(key=("stick", tuple(map(tuple, rows))), nontrivial=n >= 2, bucket=f"torch.StickBreakingTransform/n={n}")
        flush({"type": "stick", "x": rows, "batched": batched}, (n, len(rows)))
    for _ in range(30 if ck.thorough() else 10):
        nested_history(ck, rng, fails)
        flush(None, (1, 1))


def replay(obj):
    """re-evaluate a recorded torch case -> list of failures"""
    fails = []

    class _Ck:
        def mismatch(self, *a, **k):
            pass

        def case(self, *a, **k):
            pass

    typ = obj["type"]
    if typ in ("torch", "torchc"):
        import random

        # rebuild the instance from its driver spec
        def build(spec):
            inv = spec.endswith("^-1")
            base = spec[:-3] if inv else spec
            parts = base.split(":")
            t = {"exp": lambda: D.ExpTransform(), "sigmoid": lambda: D.SigmoidTransform(),
                 "softplus": lambda: D.SoftplusTransform(),
                 "affine": lambda: D.AffineTransform(h2f(parts[1]), h2f(parts[2])),
                 "power": lambda: D.PowerTransform(t64(h2f(parts[1])))}[parts[0]]()
            return t.inv if inv else t

        if typ == "torch":
            t = build(obj["spec"])
        else:
            t = D.ComposeTransform([build(s) for s in obj["spec"].split(";")])
        check_elementwise(_Ck(), None, obj["transform"], obj["spec"], t, obj["x"][0],
                          obj.get("x_roundtrip", obj["x"])[0], fails)
    elif typ == "stick":
        check_stick(_Ck(), None, obj["x"], obj["batched"], fails)
    return fails
