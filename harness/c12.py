"""C12 — gradients are the derivatives of the reported densities.

Lean side : TTModel/C12_Expr.lean (expression language + polymorphic eval), TTProofs/Lemmas/C12_Dual.lean,
            TTProofs/Props/C12.lean: `dual_sound` (forward-mode evaluation of ANY expression is its
            partial derivative) and its instances / closure theorems (coalescents, GMRF, Weibull rates,
            ratio transform + log-Jacobian, JC69, pruning multi-affine).
Tie       : (a) value of the model == value of the implementation (rel 1e-10) and
            (b) tangent of the model at `Dual Float` == autograd gradient of the implementation (rel 1e-7)
            on the same inputs, through the driver drv_c12.
Oracle    : (c) the property's literal oracle on the real code, independent of any model: for every
            density x every continuous leaf parameter, model().sum().backward() against Ridders/Richardson
            central finite differences of the implementation's OWN value (float64), at random interior
            points away from ties, with a tolerance derived from the extrapolation's own error estimate.
            A parameter whose finite difference is clearly non-zero while .grad is None/0 is a violation.
            Always run (cheap), not only after a broken proof.
"""
from __future__ import annotations

import json
import math
import time
from pathlib import Path

from common import VERIF, Check, use_repo

LEVEL = "proof"
EPS = 2.220446049250313e-16
REL = 1e-5  # relative agreement demanded between autograd and the finite-difference derivative


DEADLINE = [None]  # absolute time after which no further implementation evaluation is started


def out_of_time():
    return DEADLINE[0] is not None and time.time() > DEADLINE[0]


class NotInterior(Exception):
    """a perturbed point left the domain / crossed a tie / could not be evaluated"""


# ----------------------------------------------------------------------------- evaluation
def _value(built):
    v = built.model()
    return v.sum()


def eval_value(scen, vals):
    """value of the implementation at a point, on a FRESH object graph"""
    import torch

    b = scen.make(vals, False)
    with torch.no_grad():
        v = _value(b)
    return float(v), b


def signature(built):
    ev = built.events()
    if ev is None:
        return None
    return tuple(sorted(range(len(ev)), key=lambda i: ev[i]))


def min_gap(built):
    """smallest distance between two event times, ties among the (constant) sampling times excepted"""
    ev = built.events()
    if ev is None:
        return None
    k = built.n_fixed
    s = sorted(set(ev[:k])) + sorted(ev[k:])
    s.sort()
    return min((b - a for a, b in zip(s, s[1:])), default=None)


def eval_grad(scen, vals):
    """(value, {leaf: grad list or None}, built) by back-propagating from the returned value"""
    b = scen.make(vals, True)
    v = _value(b)
    if v.requires_grad:
        v.backward()
    # a value that does not require grad is a constant as far as autograd is concerned: every
    # leaf gets no gradient, and the finite difference decides whether that is right
    g = {}
    for k, p in b.params.items():
        gr = p.grad
        g[k] = None if gr is None else [float(t) for t in gr.reshape(-1)]
    return float(v.detach()), g, b


def shifted(vals, direction, t):
    out = {}
    for k, v in vals.items():
        d = direction.get(k)
        out[k] = list(v) if d is None else [a + t * c for a, c in zip(v, d)]
    return out


# ----------------------------------------------------------------------------- finite differences
def ridders(f, h0, ntab=5, con=2.0, safe=2.0):
    """Ridders' extrapolated central difference of f at 0. f(t) may raise NotInterior.
    Returns (derivative, error estimate, smallest step used, max |f|)."""
    a = [[0.0] * ntab for _ in range(ntab)]
    hh = h0
    fp, fm = f(hh), f(-hh)
    fmax = max(abs(fp), abs(fm))
    a[0][0] = (fp - fm) / (2 * hh)
    err, ans = math.inf, a[0][0]
    hmin = hh
    for i in range(1, ntab):
        hh /= con
        fp, fm = f(hh), f(-hh)
        fmax = max(fmax, abs(fp), abs(fm))
        hmin = hh
        a[0][i] = (fp - fm) / (2 * hh)
        fac = con * con
        for j in range(1, i + 1):
            a[j][i] = (a[j - 1][i] * fac - a[j - 1][i - 1]) / (fac - 1.0)
            fac *= con * con
            errt = max(abs(a[j][i] - a[j - 1][i]), abs(a[j][i] - a[j - 1][i - 1]))
            if errt <= err:
                err, ans = errt, a[j][i]
        if abs(a[i][i] - a[i - 1][i - 1]) >= safe * err:
            break
    return ans, err, hmin, fmax


def fd_directional(scen, vals, direction, base_sig, h0, ntab):
    """derivative of t -> value(vals + t*direction) at 0 with an error bound; retries with smaller
    steps when the extrapolation is unreliable. Returns dict or raises NotInterior."""
    cache = {}

    def f(t):
        if t in cache:
            return cache[t]
        if out_of_time():
            raise NotInterior("deadline")
        try:
            v, b = eval_value(scen, shifted(vals, direction, t))
        except NotInterior:
            raise
        except Exception as e:  # implementation refused the perturbed point
            raise NotInterior(f"{type(e).__name__}: {e}")
        if not math.isfinite(v):
            raise NotInterior("non-finite value at perturbed point")
        if base_sig is not None and signature(b) != base_sig:
            raise NotInterior("tie crossed")
        cache[t] = v
        return v

    best = None
    h = h0
    for _attempt in range(3):
        d, err, hmin, fmax = ridders(f, h, ntab=ntab)
        floor = 400 * EPS * max(1.0, fmax) / hmin
        cand = {"d": d, "err": err, "floor": floor, "h0": h, "evals": len(cache)}
        if best is None or err + floor < best["err"] + best["floor"]:
            best = cand
        if err <= 1e-6 * max(abs(d), 1e-3):
            break
        h /= 8.0
    best["evals"] = len(cache)
    return best


def step_limit(scen, vals, direction):
    """largest t such that vals +- t*direction stays well inside every box constraint"""
    lim = math.inf
    for k, d in direction.items():
        lo, hi = scen.bounds[k]
        for x, c in zip(vals[k], d):
            if c == 0:
                continue
            if lo is not None:
                lim = min(lim, 0.4 * (x - lo) / abs(c))
            if hi is not None:
                lim = min(lim, 0.4 * (hi - x) / abs(c))
    return lim


def initial_step(scen, vals, direction, base_built, base_sig):
    """a step that keeps the point interior and does not reorder event times"""
    scale = max(max((abs(x) for k in direction for x, c in zip(vals[k], direction[k]) if c != 0), default=1.0), 0.1)
    h = min(0.05 * scale, step_limit(scen, vals, direction))
    if not (h > 0) or not math.isfinite(h):
        raise NotInterior("no room")
    if base_sig is not None:
        for _ in range(12):
            ok = True
            for s in (h, -h):
                try:
                    _, b = eval_value(scen, shifted(vals, direction, s))
                    if signature(b) != base_sig:
                        ok = False
                except Exception:
                    ok = False
            if ok:
                return 0.5 * h
            h /= 4.0
        raise NotInterior("tie within every tried step")
    return h


def tolerance(g, fd):
    return REL * max(abs(g), abs(fd["d"])) + 10.0 * fd["err"] + fd["floor"]


# ----------------------------------------------------------------------------- one scenario
def leaf_coords(scen, name):
    return list(scen.coords.get(name, range(len(scen.x[name]))))


def check_nonfinite(ck, scen, vals, grads, v0, out, ntab=4):
    """gradients must be FINITE wherever the value is finite and its finite difference is finite.
    Looks at every differentiated coordinate of `grads` (taken at `vals`); confirms the first non-finite one
    per leaf with a finite difference. Returns the names of the leaves with a non-finite gradient."""
    hit = []
    b0 = sig = None
    for name in sorted(vals):
        coords = leaf_coords(scen, name)
        g = grads.get(name)
        if not coords or g is None:
            continue
        nonfin = [c for c in coords if not math.isfinite(g[c])]
        if not nonfin:
            continue
        hit.append(name)
        if len(hit) > 2 or out_of_time():
            continue
        c = nonfin[0]
        dvec = [0.0] * len(vals[name])
        dvec[c] = 1.0
        try:
            if b0 is None:
                b0 = scen.make(vals, False)
                sig = signature(b0)
            h0 = initial_step(scen, vals, {name: dvec}, b0, sig)
            fd = fd_directional(scen, vals, {name: dvec}, sig, h0, ntab)
        except NotInterior as e:
            ck.bucket("skipped/not-interior")
            out["skip"].append((scen.name, name + ":nonfinite-grad", str(e)[:120]))
            continue
        except Exception as e:
            out["skip"].append((scen.name, name + ":nonfinite-grad", f"{type(e).__name__}"))
            continue
        out["evals"] += fd["evals"]
        ck.case(key=(scen.name, name, "nonfinite%d" % c, tuple(vals[name])), bucket=f"{scen.family}/coord",
                sample={"scenario": scen.name, "leaf": name, "direction": "coord%d" % c, "autograd": str(g[c]),
                        "finite_difference": fd["d"]})
        if math.isfinite(fd["d"]) and fd["err"] + fd["floor"] <= 1e-3 * max(abs(fd["d"]), 1e-6) + 1e-9:
            out["bad"].append({
                "kind": "non-finite-gradient", "scenario": scen.name, "spec": dict(scen.spec, x=vals), "leaf": name,
                "direction": dvec, "label": "coord%d" % c, "autograd": str(g[c]), "grad_is_none": False,
                "finite_difference": fd["d"], "fd_error_estimate": fd["err"], "tolerance": tolerance(0.0, fd),
                "h0": fd["h0"], "value": v0, "non_finite_coordinates": nonfin[:10]})
    return hit


def check_scenario(ck, scen, rng, ntab, per_leaf_coords, out):
    """run the oracle on one scenario; append findings to out['bad'] / skips to out['skip']"""
    vals = scen.x
    try:
        v0, grads, b0 = eval_grad(scen, vals)
    except Exception as e:
        # forward or backward failed at the base point: decide which
        try:
            v0, _b = eval_value(scen, vals)
        except Exception as e2:
            out["skip"].append((scen.name, "forward-error", f"{type(e2).__name__}: {str(e2)[:160]}"))
            ck.bucket("skipped/forward-error")
            return
        if not math.isfinite(v0):
            out["skip"].append((scen.name, "non-finite", str(v0)))
            ck.bucket("skipped/non-finite")
            return
        out["bad"].append({"kind": "backward-raises", "scenario": scen.name, "spec": scen.spec,
                           "error": f"{type(e).__name__}: {str(e)[:300]}", "value": v0})
        return
    if not math.isfinite(v0):
        out["skip"].append((scen.name, "non-finite", str(v0)))
        ck.bucket("skipped/non-finite")
        return
    base_sig = signature(b0)
    gap = min_gap(b0)
    if gap is not None and gap < 1e-3:
        out["skip"].append((scen.name, "near-tie", str(gap)))
        ck.bucket("skipped/near-tie")
        return
    found_here = 0
    nonfinite_leaves = check_nonfinite(ck, scen, vals, grads, v0, out, ntab)
    for name in sorted(vals):
        coords = leaf_coords(scen, name)
        if not coords:
            continue
        if found_here >= 2 or out_of_time():
            return  # enough evidence from this configuration: keep what was found, do not repeat evaluations
        g = grads.get(name)
        gl = [0.0] * len(vals[name]) if g is None else g
        if name in nonfinite_leaves:
            found_here += 1
            continue
        tasks = []
        if len(coords) > 1:
            dvec = [0.0] * len(vals[name])
            for c in coords:
                dvec[c] = rng.choice([-1.0, 1.0]) * rng.uniform(0.5, 1.0)
            tasks.append(("dir", dvec))
        want = per_leaf_coords if per_leaf_coords is not None else (len(coords) if len(coords) <= 40 else 12)
        chosen = coords if len(coords) <= want else rng.sample(coords, want)
        for c in sorted(chosen):
            dvec = [0.0] * len(vals[name])
            dvec[c] = 1.0
            tasks.append(("coord%d" % c, dvec))
        for label, dvec in tasks:
            if out_of_time():
                return
            direction = {name: dvec}
            gd = sum(a * b for a, b in zip(gl, dvec))
            key = (scen.name, name, label)
            try:
                h0 = initial_step(scen, vals, direction, b0, base_sig)
                fd = fd_directional(scen, vals, direction, base_sig, h0, ntab)
            except NotInterior as e:
                ck.bucket("skipped/not-interior")
                out["skip"].append((scen.name, name + ":" + label, str(e)[:120]))
                continue
            tol = tolerance(gd, fd)
            unreliable = fd["err"] + fd["floor"] > 1e-3 * max(abs(fd["d"]), abs(gd), 1e-6)
            diff = abs(gd - fd["d"])
            ck.case(key=key, bucket=f"{scen.family}/{'dir' if label == 'dir' else 'coord'}",
                    sample={"scenario": scen.name, "leaf": name, "direction": label, "autograd": gd,
                            "finite_difference": fd["d"], "fd_error_estimate": fd["err"], "tolerance": tol,
                            "evaluations": fd["evals"]})
            out["evals"] += fd["evals"]
            if unreliable and diff > tol:
                # the extrapolation itself is not trustworthy here: never a verdict
                ck.bucket("skipped/fd-unreliable")
                out["skip"].append((scen.name, name + ":" + label, "fd unreliable err=%g" % fd["err"]))
                continue
            if diff > tol:
                missing = g is None or all(gl[i] == 0.0 for i, c in enumerate(dvec) if c != 0)
                out["bad"].append({
                    "kind": "missing-gradient" if missing else "wrong-gradient", "scenario": scen.name,
                    "spec": scen.spec, "leaf": name, "direction": dvec, "label": label,
                    "autograd": None if g is None else gd, "grad_is_none": g is None,
                    "finite_difference": fd["d"], "fd_error_estimate": fd["err"], "tolerance": tol, "h0": fd["h0"],
                    "value": v0})
                found_here += 1
                break  # one failing direction per leaf is the finding; no further evaluations for this leaf
            else:
                ck.bucket("agree" if abs(fd["d"]) > tol else "agree/zero-derivative")


def check_reuse(ck, scen, rng, out):
    """same object, updated through the parameter setters (as an optimiser does), second backward:
    the gradient must equal the fresh-build gradient at the same point whenever the value does"""
    import torch

    vals = scen.x
    try:
        b = scen.make(vals, True)
        _value(b).backward()
        # move every leaf a little, inside the domain
        new = {}
        for k, v in vals.items():
            lo, hi = scen.bounds[k]
            coords = set(leaf_coords(scen, k))
            nv = []
            for i, x in enumerate(v):
                if i not in coords:
                    nv.append(x)
                    continue
                room = min(0.02 * max(abs(x), 0.1), 0.2 * (x - lo) if lo is not None else math.inf,
                           0.2 * (hi - x) if hi is not None else math.inf)
                nv.append(x + rng.uniform(-1, 1) * room)
            new[k] = nv
        v_f, g_f, b_f = eval_grad(scen, new)
        if signature(b_f) != signature(scen.make(vals, False)):
            return
        if math.isfinite(v_f) and check_nonfinite(ck, scen, new, g_f, v_f, out):
            return
        for k, p in b.params.items():
            t = torch.tensor(new[k], dtype=torch.float64, requires_grad=True)
            p.tensor = t
        val = _value(b)
    except Exception:
        return  # construction / forward problems are not this property's subject
    if not math.isfinite(float(val.detach())) or abs(float(val.detach()) - v_f) > 1e-9 * max(1.0, abs(v_f)):
        ck.bucket("reuse/value-differs(C11 subject)")
        return
    try:
        val.backward()
    except Exception as e:
        out["bad"].append({"kind": "backward-raises-on-reuse", "scenario": scen.name, "spec": scen.spec,
                           "new_point": new, "error": f"{type(e).__name__}: {str(e)[:300]}"})
        return
    ck.bucket("reuse/checked")
    for k, p in b.params.items():
        gr = p.grad
        got = None if gr is None else [float(t) for t in gr.reshape(-1)]
        want = g_f[k]
        for i in leaf_coords(scen, k):
            a = 0.0 if got is None else got[i]
            w = 0.0 if want is None else want[i]
            if not (abs(a - w) <= 1e-8 * max(abs(a), abs(w)) + 1e-11):
                out["bad"].append({"kind": "gradient-differs-on-reuse", "scenario": scen.name, "spec": scen.spec,
                                   "leaf": k, "coord": i, "new_point": new, "reused_object_grad": a,
                                   "fresh_object_grad": w})
                return


# ----------------------------------------------------------------------------- histories on live objects
def _history_leaves(scen, built):
    """leaves that can be driven through the public Parameter interface and whose changes the density is
    notified of (a FakeTreeModel holds its heights without listening to them; bare tensors have no setter)"""
    out = []
    for k, p in built.params.items():
        if not hasattr(p, "fire_parameter_changed") or not hasattr(type(p), "requires_grad"):
            continue
        if scen.family == "coal" and k == "nh":
            continue
        if not leaf_coords(scen, k):
            continue  # held fixed at a special value
        out.append(k)
    return sorted(out)


def _grads(built, names):
    g = {}
    for k in names:
        gr = built.params[k].grad
        g[k] = None if gr is None else [float(t) for t in gr.reshape(-1)]
    return g


def _zero_grads(built):
    for p in built.params.values():
        t = p.tensor
        if t.grad is not None:
            t.grad = None


def _compare_with_fresh(ck, scen, vals, got, want, names, history, out, kind):
    """every history gradient must equal the fresh-object gradient (itself checked against finite
    differences); a disagreement is confirmed with a finite difference before it is reported"""
    confirmations = 0
    for k in names:
        w = want.get(k)
        g = got.get(k)
        for i in leaf_coords(scen, k):
            a = 0.0 if g is None else g[i]
            b = 0.0 if w is None else w[i]
            if abs(a - b) <= 1e-7 * max(abs(a), abs(b)) + 1e-10:
                continue
            # at most two finite-difference confirmations per history (a systematic disagreement shows in
            # the first coordinate; never one big-tree finite difference per coordinate)
            if confirmations >= 2 or out_of_time():
                return True
            confirmations += 1
            dvec = [0.0] * len(vals[k])
            dvec[i] = 1.0
            try:
                b0 = scen.make(vals, False)
                sig = signature(b0)
                h0 = initial_step(scen, vals, {k: dvec}, b0, sig)
                fd = fd_directional(scen, vals, {k: dvec}, sig, h0, 5)
            except NotInterior:
                ck.bucket("history/skipped-not-interior")
                return True
            if math.isfinite(a) and abs(a - fd["d"]) <= tolerance(a, fd):
                # the history gradient is the right one: then the FRESH-object gradient disagrees with the
                # finite difference, which is a finding of its own (reported once)
                if math.isfinite(b) and abs(b - fd["d"]) <= tolerance(b, fd):
                    continue
                out["bad"].append({"kind": "wrong-gradient", "scenario": scen.name, "spec": dict(scen.spec, x=vals),
                                   "leaf": k, "direction": dvec, "label": "coord%d" % i, "autograd": b,
                                   "grad_is_none": w is None, "finite_difference": fd["d"],
                                   "fd_error_estimate": fd["err"], "tolerance": tolerance(b, fd), "h0": fd["h0"],
                                   "value": None})
                return False
            out["bad"].append({"kind": kind, "scenario": scen.name, "spec": scen.spec, "leaf": k, "coord": i,
                               "history": history, "point": vals, "grad_is_none": g is None,
                               "history_grad": None if g is None else a, "fresh_object_grad": b,
                               "finite_difference": fd["d"], "fd_error_estimate": fd["err"]})
            return False
    return True


def history_late_grad(ck, scen, rng, out):
    """evaluate with NO parameter requiring grad; enable autograd through the public setter
    (`p.requires_grad = True`, what torchtree.optim.Optimizer does) for one parameter, evaluate, backward;
    then for a second parameter while the first already carries grad, evaluate, backward"""
    vals = scen.x
    history = []
    try:
        v_f, g_f, _ = eval_grad(scen, vals)
        b = scen.make(vals, False)
        names = _history_leaves(scen, b)
        if not names:
            return
        v0 = float(_value(b).detach())
        history.append("evaluate (no parameter requires grad)")
    except Exception:
        return
    if not math.isfinite(v0) or abs(v0 - v_f) > 1e-9 * max(1.0, abs(v_f)):
        return
    order = list(names)
    rng.shuffle(order)
    enabled = []
    for name in order[:2]:
        try:
            b.params[name].requires_grad = True
            history.append(f"{name}.requires_grad = True")
            enabled.append(name)
            _zero_grads(b)
            val = _value(b)
            history.append("evaluate")
        except Exception:
            return
        if abs(float(val.detach()) - v_f) > 1e-9 * max(1.0, abs(v_f)):
            ck.bucket("history/value-differs(C11 subject)")
            out["skip"].append((scen.name, "history-value-differs", " | ".join(history)[:200]))
            return
        try:
            if val.requires_grad:
                val.backward(retain_graph=True)
            history.append("backward")
        except Exception as e:
            out["bad"].append({"kind": "backward-raises-in-history", "scenario": scen.name, "spec": scen.spec,
                               "history": history, "point": vals, "error": f"{type(e).__name__}: {str(e)[:300]}"})
            return
        ck.case(key=("history/late-grad", scen.name, tuple(enabled)), bucket="history/late-grad",
                sample={"scenario": scen.name, "history": list(history)})
        if not _compare_with_fresh(ck, scen, vals, _grads(b, enabled), g_f, enabled, list(history), out,
                                   "gradient-missing-or-wrong-after-enabling-requires_grad"):
            return


def history_update_one(ck, scen, rng, out, inplace):
    """evaluate and backward, then change ONE parameter (assignment through the setter, or in place followed by
    fire_parameter_changed() as an optimiser step does), evaluate again and backward"""
    import torch

    vals = scen.x
    history = []
    try:
        b = scen.make(vals, True)
        names = _history_leaves(scen, b)
        if not names:
            return
        val = _value(b)
        if val.requires_grad:
            val.backward(retain_graph=True)
        history.append("evaluate; backward")
        name = rng.choice(names)
        lo, hi = scen.bounds[name]
        coords = set(leaf_coords(scen, name))
        nv = []
        for i, x in enumerate(vals[name]):
            if i not in coords:
                nv.append(x)
                continue
            room = min(0.02 * max(abs(x), 0.1), 0.2 * (x - lo) if lo is not None else math.inf,
                       0.2 * (hi - x) if hi is not None else math.inf)
            nv.append(x + rng.uniform(-1, 1) * room)
        new = {k: (nv if k == name else list(v)) for k, v in vals.items()}
        v_f, g_f, b_f = eval_grad(scen, new)
        if signature(b_f) != signature(scen.make(vals, False)):
            return
        if math.isfinite(v_f) and check_nonfinite(ck, scen, new, g_f, v_f, out):
            return
        p = b.params[name]
        if inplace:
            with torch.no_grad():
                p.tensor.copy_(torch.tensor(nv, dtype=torch.float64))
            p.fire_parameter_changed()
            history.append(f"{name}.tensor.copy_(new) under no_grad; {name}.fire_parameter_changed()")
        else:
            p.tensor = torch.tensor(nv, dtype=torch.float64, requires_grad=True)
            history.append(f"{name}.tensor = new tensor")
        _zero_grads(b)
        val = _value(b)
        history.append("evaluate")
    except Exception:
        return
    if not math.isfinite(float(val.detach())) or abs(float(val.detach()) - v_f) > 1e-9 * max(1.0, abs(v_f)):
        ck.bucket("history/value-differs(C11 subject)")
        out["skip"].append((scen.name, "history-value-differs", " | ".join(history)[:200]))
        return
    try:
        if val.requires_grad:
            val.backward(retain_graph=True)
        history.append("backward")
    except Exception as e:
        out["bad"].append({"kind": "backward-raises-in-history", "scenario": scen.name, "spec": scen.spec,
                           "history": history, "point": new, "error": f"{type(e).__name__}: {str(e)[:300]}"})
        return
    ck.case(key=("history/update", scen.name, name, inplace), bucket="history/update-" + ("inplace" if inplace else "assign"),
            sample={"scenario": scen.name, "history": list(history)})
    _compare_with_fresh(ck, scen, new, _grads(b, names), g_f, names, list(history), out,
                        "gradient-wrong-after-parameter-update")


def check_histories(ck, scen, rng, out, which):
    if "late" in which:
        history_late_grad(ck, scen, rng, out)
    if "assign" in which:
        history_update_one(ck, scen, rng, out, False)
    if "inplace" in which:
        history_update_one(ck, scen, rng, out, True)


# ----------------------------------------------------------------------------- fourth wave: how the object is reached
import contextlib  # noqa: E402


@contextlib.contextmanager
def dtype_regime(default, param):
    """torch default dtype `default`, leaf parameters created with dtype `param`"""
    import torch

    import c12_scen

    old_d, old_p = torch.get_default_dtype(), dict(c12_scen.PDT)
    torch.set_default_dtype(default)
    c12_scen.PDT.update(name=str(param), t=param)
    try:
        yield
    finally:
        torch.set_default_dtype(old_d)
        c12_scen.PDT.update(old_p)


def _flat(v):
    return [y for x in v for y in _flat(x)] if isinstance(v, (list, tuple)) else [v]


def _close_lists(a, b, rel, floor):
    if a is None or b is None:
        a = a or [0.0] * len(b or [])
        b = b or [0.0] * len(a)
    if len(a) != len(b):
        return False
    return all(abs(x - y) <= rel * max(abs(x), abs(y)) + floor for x, y in zip(a, b))


def _moved_point(scen, rng):
    vals = scen.x
    new = {}
    for k, v in vals.items():
        lo, hi = scen.bounds[k]
        coords = set(leaf_coords(scen, k))
        nv = []
        for i, x in enumerate(v):
            if i not in coords:
                nv.append(x)
                continue
            room = min(0.02 * max(abs(x), 0.1), 0.2 * (x - lo) if lo is not None else math.inf,
                       0.2 * (hi - x) if hi is not None else math.inf)
            nv.append(x + rng.uniform(-1, 1) * room)
        new[k] = nv
    return new


def _finding(out, kind, scen, vals, **kw):
    d = {"kind": kind, "scenario": scen.name, "spec": dict(scen.spec, x=vals)}
    d.update(kw)
    out["bad"].append(d)


def check_modes_immutability(ck, scen, base, out):
    """(3) the value must not depend on the grad mode; (4) no evaluation may change a parameter's tensor;
    (9) a gradient of unexpected shape is a finding, never an exception"""
    import torch

    vals = scen.x
    v0, g0, b0 = base
    for k, p in b0.params.items():
        got = [float(t) for t in p.tensor.detach().reshape(-1)]
        if got != [float(t) for t in _flat(vals[k])]:
            _finding(out, "parameter-mutated-by-evaluation", scen, vals, leaf=k, after=got[:8])
            return
        if g0.get(k) is not None and len(g0[k]) != len(got):
            _finding(out, "gradient-shape-unexpected", scen, vals, leaf=k, grad_len=len(g0[k]), param_len=len(got))
            return
    try:
        v_ng, _ = eval_value(scen, vals)  # under torch.no_grad()
        b = scen.make(vals, False)
        v_en = float(_value(b).detach())  # autograd enabled, nothing requires grad
    except Exception:
        return
    ck.bucket("gradmodes/bitwise-equal" if v_ng == v_en == v0 else "gradmodes/not-bitwise-equal")
    worst = max(abs(v_ng - v0), abs(v_en - v0))
    if not (worst <= 1e-12 * max(1.0, abs(v0))):
        _finding(out, "value-differs-between-grad-modes", scen, vals, no_grad=v_ng, enabled=v_en, requires_grad=v0)
    del torch


def check_accumulation(ck, scen, rng, base, out):
    """(5) repeated backward on the same object: .grad ACCUMULATES exactly (2x after a second backward), and an
    evaluation made while the leaves still carry a previous .grad adds exactly the new gradient"""
    import torch

    vals = scen.x
    try:
        b = scen.make(vals, True)
        names = _history_leaves(scen, b)
        if not names or len(names) != len(b.params):
            return
        val = _value(b)
        if not val.requires_grad:
            return
        val.backward(retain_graph=True)
        g1 = _grads(b, names)
        val.backward(retain_graph=True)
        g2 = _grads(b, names)
    except Exception as e:
        _finding(out, "backward-raises-in-history", scen, vals, history=["evaluate", "backward", "backward"],
                 point=vals, error=f"{type(e).__name__}: {str(e)[:300]}")
        return
    for k in names:
        if g1[k] is None:
            continue
        if not _close_lists(g2[k], [2 * x for x in g1[k]], 1e-12, 1e-14):
            _finding(out, "gradient-accumulation-wrong", scen, vals, leaf=k, history=["evaluate", "backward", "backward"],
                     after_first=g1[k][:6], after_second=(g2[k] or [])[:6])
            return
    new = _moved_point(scen, rng)
    try:
        v_f, g_f, b_f = eval_grad(scen, new)
        if signature(b_f) != signature(b):
            return
        for k in names:
            with torch.no_grad():
                b.params[k].tensor.copy_(torch.tensor(new[k], dtype=b.params[k].tensor.dtype))
            b.params[k].fire_parameter_changed()
        val2 = _value(b)
        if abs(float(val2.detach()) - v_f) > 1e-9 * max(1.0, abs(v_f)):
            ck.bucket("history/value-differs(C11 subject)")
            out["skip"].append((scen.name, "accumulation", "value after in-place update of all leaves differs from fresh"))
            return
        val2.backward()
        g3 = _grads(b, names)
    except Exception:
        return
    ck.case(key=("accumulate", scen.name), bucket="history/accumulation")
    for k in names:
        if g1[k] is None or g_f.get(k) is None:
            continue
        want = [2 * a + c for a, c in zip(g1[k], g_f[k])]
        if not _close_lists(g3[k], want, 1e-8, 1e-10):
            _finding(out, "gradient-accumulation-wrong", scen, new, leaf=k,
                     history=["evaluate", "backward", "backward", "update all in place + fire", "evaluate", "backward"],
                     got=(g3[k] or [])[:6], expected_previous_plus_new=want[:6])
            return


def check_deepcopy(ck, scen, rng, base, out):
    """(5) copy.deepcopy of the live object, updates on the copy: the copy's gradient is the fresh gradient at the
    new point and the original is untouched"""
    import copy

    import torch

    vals = scen.x
    v0, g0, _ = base
    try:
        b = scen.make(vals, True)
        names = _history_leaves(scen, b)
        if not names or len(names) != len(b.params):
            return
        _value(b).backward(retain_graph=True)
        try:
            m2, ps2 = copy.deepcopy((b.model, b.params))
        except Exception:
            # torch refuses to deep-copy cached non-leaf tensors that carry a graph: copy an object that was
            # built and evaluated without autograd instead, and enable autograd on the copy
            try:
                b = scen.make(vals, False)
                _value(b)
                m2, ps2 = copy.deepcopy((b.model, b.params))
            except Exception:
                ck.bucket("deepcopy/refused")
                return
        new = _moved_point(scen, rng)
        v_f, g_f, b_f = eval_grad(scen, new)
        if signature(b_f) != signature(b):
            return
        for k in names:
            ps2[k].tensor = torch.tensor(new[k], dtype=torch.float64, requires_grad=True)
        val2 = m2().sum()
    except Exception:
        return
    if abs(float(val2.detach()) - v_f) > 1e-9 * max(1.0, abs(v_f)):
        ck.bucket("deepcopy/value-differs(C11 subject)")
        return
    try:
        val2.backward()
        got = {k: (None if ps2[k].grad is None else [float(t) for t in ps2[k].grad.reshape(-1)]) for k in names}
        orig = float(_value(b).detach())
    except Exception as e:
        _finding(out, "backward-raises-in-history", scen, new, history=["evaluate", "backward", "deepcopy", "update copy", "evaluate copy", "backward"],
                 point=new, error=f"{type(e).__name__}: {str(e)[:300]}")
        return
    ck.case(key=("deepcopy", scen.name), bucket="history/deepcopy")
    for k in names:
        if not _close_lists(got[k], g_f.get(k), 1e-8, 1e-10):
            _finding(out, "gradient-wrong-on-deepcopy", scen, new, leaf=k, copy_grad=(got[k] or [None])[:6],
                     fresh_grad=(g_f.get(k) or [None])[:6])
            return
    if abs(orig - v0) > 1e-12 * max(1.0, abs(v0)):
        _finding(out, "original-changed-by-update-of-deepcopy", scen, vals, before=v0, after=orig)


def check_device(ck, scen, base, out):
    """(5) .cpu() and .to(dtype) on the live model, then evaluate and backward"""
    import torch

    vals = scen.x
    v0, g0, _ = base
    try:
        b = scen.make(vals, True)
        if not hasattr(b.model, "cpu") or not hasattr(b.model, "to"):
            return
        _value(b)
        b.model.cpu()
        b.model.to(dtype=torch.float64)
        for p in b.params.values():
            if hasattr(p, "fire_parameter_changed"):
                p.fire_parameter_changed()
        val = _value(b)
    except Exception:
        ck.bucket("device/refused")
        return
    if abs(float(val.detach()) - v0) > 1e-9 * max(1.0, abs(v0)):
        ck.bucket("device/value-differs(C06/C11 subject)")
        return
    try:
        if val.requires_grad:
            val.backward()
        got = {k: (None if p.grad is None else [float(t) for t in p.grad.reshape(-1)]) for k, p in b.params.items()}
    except Exception as e:
        _finding(out, "backward-raises-in-history", scen, vals, history=["evaluate", ".cpu()", ".to(float64)", "evaluate", "backward"],
                 point=vals, error=f"{type(e).__name__}: {str(e)[:300]}")
        return
    ck.case(key=("device", scen.name), bucket="history/cpu-to")
    for k in got:
        if leaf_coords(scen, k) and not _close_lists(got[k], g0.get(k), 1e-8, 1e-10):
            _finding(out, "gradient-wrong-after-cpu-to", scen, vals, leaf=k, got=(got[k] or [None])[:6],
                     fresh_grad=(g0.get(k) or [None])[:6])
            return


def check_dtype(ck, scen, base, out):
    """(2) the same model in float32 (default dtype and parameters): every parameter that has a gradient in float64
    has a finite one in float32, close to it at float32 accuracy; default float32 with float64 parameters: refused,
    or the float64 gradient"""
    import torch

    vals = scen.x
    v0, g0, _ = base
    try:
        with dtype_regime(torch.float32, torch.float32):
            v32, g32, _b = eval_grad(scen, vals)
    except Exception:
        ck.bucket("dtype/float32-refused")
        v32 = None
    if v32 is not None and math.isfinite(v32) and abs(v32 - v0) <= 1e-2 * (1.0 + abs(v0)):
        ck.case(key=("float32", scen.name), bucket="dtype/float32")
        for k in sorted(vals):
            coords = leaf_coords(scen, k)
            if not coords or g0.get(k) is None:
                continue
            norm = max(abs(g0[k][c]) for c in coords)
            if norm > 1e6 or not math.isfinite(norm):
                continue
            g = g32.get(k)
            if g is None:
                if norm > 1e-2:
                    _finding(out, "gradient-missing-in-float32", scen, vals, leaf=k, float64_grad=g0[k][:6])
                    return
                continue
            bad = [c for c in coords if not math.isfinite(g[c])]
            if bad:
                _finding(out, "non-finite-gradient-in-float32", scen, vals, leaf=k, coord=bad[0], float32_value=v32,
                         float64_grad=g0[k][:6])
                return
            err = max(abs(g[c] - g0[k][c]) for c in coords)
            cell = (getattr(scen, "spec", None) or {}).get("cell") or {}
            gap = cell.get("eigenvalue_gap")
            if err > 0.1 * norm + 0.1 and cell.get("eigh_based") and gap is not None and gap < 1e-3:
                # torch.linalg.eigh's backward divides by eigenvalue differences: with a MEASURED relative gap below
                # 1e-3 the float32 rounding of the decomposition (eps32 = 1.2e-7) is amplified by eps32/gap per pair
                # of a 4..61-state matrix, so float32 cannot resolve this gradient; the float64 gradient of the same
                # point is still checked against finite differences. Counted, not judged (conditioning, not logic).
                ck.bucket("dtype/float32-eigh-near-tie (measured gap < 1e-3: precision subject)")
                continue
            if err > 0.1 * norm + 0.1:
                _finding(out, "float32-gradient-far-from-float64", scen, vals, leaf=k, float32_grad=g[:6],
                         float64_grad=g0[k][:6])
                return
            ck.bucket("dtype/float32-close" if err <= 5e-3 * norm + 5e-3 else "dtype/float32-loose")
    elif v32 is not None:
        ck.bucket("dtype/float32-value-off(precision subject)")
    try:
        with dtype_regime(torch.float32, torch.float64):
            v_m, g_m, _b = eval_grad(scen, vals)
    except Exception:
        ck.bucket("dtype/default32-param64-refused")
        return
    if not (abs(v_m - v0) <= 1e-5 * (1.0 + abs(v0))):
        ck.bucket("dtype/default32-param64-value-off(precision subject)")
        return
    ck.case(key=("default32-param64", scen.name), bucket="dtype/default32-param64")
    for k in sorted(vals):
        coords = leaf_coords(scen, k)
        if not coords or g0.get(k) is None:
            continue
        norm = max(abs(g0[k][c]) for c in coords)
        g = g_m.get(k)
        if g is None and norm > 1e-6:
            _finding(out, "gradient-missing-with-float32-default-dtype", scen, vals, leaf=k, float64_grad=g0[k][:6])
            return
        if g is not None and not all(abs(g[c] - g0[k][c]) <= 1e-4 * norm + 1e-6 for c in coords):
            _finding(out, "gradient-differs-with-float32-default-dtype", scen, vals, leaf=k, got=g[:6],
                     float64_grad=g0[k][:6])
            return


def check_batched(ck, scen, rng, base, out):
    """(6) a leading sample dimension on every leaf: the gradient of the SUM over samples, row by row, is the
    per-sample gradient; when the configuration holds special values, only row 0 holds them"""
    vals = scen.x
    S = rng.choice([2, 3])
    rows = [dict(vals)]
    for _ in range(S - 1):
        r = _moved_point(scen, rng)
        for k in scen.spec.get("fixed", []) + ([n for n in ("s", "rho", "r") if scen.spec.get("special")]):
            if k not in r or scen.bounds.get(k) != [0.0, 1.0]:
                continue
            coords = set(leaf_coords(scen, k))
            r[k] = [x if i in coords else rng.uniform(0.2, 0.6) for i, x in enumerate(r[k])]
        rows.append(r)
    try:
        singles = []
        sig0 = None
        for r in rows:
            v, g, b = eval_grad(scen, r)
            gap = min_gap(b)
            if not math.isfinite(v) or (gap is not None and gap < 1e-3):
                return
            singles.append((v, g))
        batched = {k: [r[k] for r in rows] for k in vals}
        bb = scen.make(batched, True)
        val = bb.model()
    except Exception:
        ck.bucket("batched/refused")
        return
    del sig0
    try:
        flat = [float(t) for t in val.detach().reshape(-1)]
    except Exception:
        ck.bucket("batched/unexpected-output(C10 subject)")
        return
    if len(flat) != S or not all(abs(a - s_[0]) <= 1e-9 * max(1.0, abs(s_[0])) for a, s_ in zip(flat, singles)):
        ck.bucket("batched/value-differs(C10 subject)")
        return
    try:
        if val.requires_grad:
            val.sum().backward()
    except Exception as e:
        _finding(out, "backward-raises-in-history", scen, vals, history=["batched evaluate", "sum().backward()"], point=batched,
                 error=f"{type(e).__name__}: {str(e)[:300]}")
        return
    ck.case(key=("batched", scen.name, S), bucket="history/batched")
    for k, p in bb.params.items():
        coords = leaf_coords(scen, k)
        if not coords:
            continue
        gr = p.grad
        for ri, (v, g) in enumerate(singles):
            want = g.get(k)
            got = None if gr is None else [float(t) for t in gr[ri].reshape(-1)]
            for c in coords:
                a = 0.0 if got is None else got[c]
                w = 0.0 if want is None else want[c]
                if not (abs(a - w) <= 1e-7 * max(abs(a), abs(w)) + 1e-9):
                    _finding(out, "batched-gradient-differs-from-per-sample", scen, rows[ri], leaf=k, row=ri, coord=c,
                             rows=rows, batched_grad=a, per_sample_grad=w)
                    return


def check_routes(ck, scen, base, out):
    """(1) the same object through the other construction routes: JSON with full dotted type names, reversed key
    order and every sub-object processed first and referenced by id; keyword / positional constructors with the
    trees from the json_factory helpers.  Value and gradient must be those of the inline short-name JSON."""
    import c12_scen

    if not c12_scen.route_eligible(scen.spec) or scen.spec.get("route"):
        return
    v0, g0, _ = base
    for route in ("ref", "ctor"):
        spec = dict(scen.spec, route=route)
        try:
            sc = c12_scen.scenario(spec)
            v, g, _b = eval_grad(sc, sc.x)
        except Exception as e:
            _finding(out, "construction-route-fails", sc if "sc" in dir() else scen, scen.x, route=route,
                     error=f"{type(e).__name__}: {str(e)[:300]}")
            out["bad"][-1]["spec"] = spec
            continue
        ck.case(key=("route", route, scen.name), bucket="routes/" + route)
        if abs(v - v0) > 1e-12 * max(1.0, abs(v0)) or any(
                not _close_lists([(g.get(k) or [0.0] * len(scen.x[k]))[c] for c in leaf_coords(scen, k)],
                                 [(g0.get(k) or [0.0] * len(scen.x[k]))[c] for c in leaf_coords(scen, k)], 1e-10, 1e-12)
                for k in g0):
            _finding(out, "route-built-object-differs", sc, scen.x, route=route, value=v, inline_json_value=v0)


FOURTH = {"accumulate": check_accumulation, "deepcopy": check_deepcopy, "device": check_device, "dtype": check_dtype,
          "batched": check_batched}


def check_fourth(ck, scen, rng, out, which):
    try:
        base = eval_grad(scen, scen.x)
    except Exception:
        return
    if not math.isfinite(base[0]):
        return
    gap = min_gap(base[2])
    if gap is not None and gap < 1e-3:
        return
    check_modes_immutability(ck, scen, base, out)
    check_routes(ck, scen, base, out)
    for w in which:
        if out_of_time() or any(b["scenario"] == scen.name for b in out["bad"]):
            return
        if w in ("device", "dtype"):
            FOURTH[w](ck, scen, base, out)
        else:
            FOURTH[w](ck, scen, rng, base, out)


# ----------------------------------------------------------------------------- self test of the FD machinery
def selftest(ck):
    """Ridders against mpmath's high-precision derivative on functions shaped like the densities"""
    import mpmath as mp

    tests = [
        (lambda x: math.lgamma(x) - 3.0 * math.log(x) - 2.0 / x, lambda x: mp.loggamma(x) - 3 * mp.log(x) - 2 / x, 1.7),
        (lambda x: math.log(0.25 + 0.75 * math.exp(-4.0 * x / 3.0)), lambda x: mp.log(0.25 + 0.75 * mp.exp(-4 * x / 3)), 0.13),
        (lambda x: (-math.log(1 - 0.625)) ** (1.0 / x), lambda x: (-mp.log(1 - mp.mpf(0.625))) ** (1 / x), 0.6),
    ]
    ok = True
    for f, fm, x0 in tests:
        d, err, hmin, fmax = ridders(lambda t: f(x0 + t), 0.05 * x0, ntab=5)
        ref = float(mp.diff(fm, mp.mpf(x0)))
        if abs(d - ref) > 10 * err + 400 * EPS * max(1, fmax) / hmin + 1e-9 * abs(ref):
            ok = False
    ck.obligations.append({"name": "finite-difference machinery agrees with mpmath derivatives (self-test)",
                           "kind": "selftest", "ok": ok})
    return ok


# ----------------------------------------------------------------------------- model correspondence (driver)
def driver_corr(ck, rng, out):
    try:
        import c12_corr
    except ImportError:
        ck.notes.append("driver correspondence module not present")
        return
    c12_corr.run(ck, rng, out)


# ----------------------------------------------------------------------------- run
def run(ck: Check):
    import torch

    use_repo()
    torch.set_num_threads(2)
    old = torch.get_default_dtype()
    torch.set_default_dtype(torch.float64)  # what torchtree's own entry point does for float64 runs
    try:
        _run(ck)
    finally:
        torch.set_default_dtype(old)


def _run(ck: Check):
    import c12_scen

    ck.rule = (
        "one case = one (density configuration, leaf parameter, direction) at a random interior point: the "
        "autograd directional derivative from model().sum().backward() on a fresh object graph against the "
        "Ridders-extrapolated central finite difference of the implementation's own value; distinct = distinct "
        "(configuration name, leaf, direction); non-trivial = the finite difference could be evaluated on both "
        "sides without crossing a tie; plus driver cases (model tangent at Dual Float vs autograd, same inputs)"
    )
    ck.assumptions += [
        "interior points away from ties: minimum gap between event times >= 1e-3 and no reordering of event times "
        "within the finite-difference stencil (points violating this are skipped and counted)",
        "float64 (torch default dtype set to float64, as torchtree's entry point does)",
        "sampling dates, grids, weights, covariates and integer structure are data, not parameters",
        "every point is evaluated on a freshly built object graph; gradients after updates through the parameter "
        "setters are compared with the fresh ones only when the values agree (stale values are C11's subject)",
    ]
    ck.trusted += [
        "torch autograd engine and torch.linalg.eigh / matrix_exp derivatives (runtime: covered by the "
        "finite-difference oracle on the real code, not by the Lean theorems)",
        "IEEE float64 rounding in the finite-difference stencil (bounded by the extrapolation's own error estimate)",
    ]
    t_start = time.time()
    ok, broken = ck.lean_side({}, ["TTProofs.Props.C12", "drv_c12"], "TTProofs/Props/C12.lean")
    st_ok = selftest(ck)

    out = {"bad": [], "skip": [], "evals": 0}
    rng = ck.rng
    # ---- (a)+(b) model value / tangent vs implementation value / autograd through the driver
    driver_corr(ck, rng, out)

    # ---- (c) the property's own oracle on the implementation: always run
    thorough = ck.thorough()
    # the oracle's budget starts HERE: a Lean rebuild triggered by somebody else's dependency must not eat it
    # (quick: 70 s, shortened only when the build took so long that the 150 s hard limit would be at risk)
    elapsed = time.time() - t_start
    budget = max(300.0, 780 - elapsed) if thorough else max(45.0, min(70.0, 135.0 - elapsed))
    t0 = time.time()
    ck.extra["seconds_before_oracle"] = round(elapsed, 1)
    # hard stop for implementation evaluations, findings or not: what was found so far is reported
    DEADLINE[0] = t0 + budget + (90 if thorough else 25)
    # corpus first
    for f in sorted((VERIF / "corpus" / "C12").glob("*.json")):
        try:
            spec = json.loads(f.read_text())["spec"]
            scen = c12_scen.scenario(spec)
            check_scenario(ck, scen, rng, 5, None, out)
        except Exception as e:
            ck.notes.append(f"corpus {f.name}: {type(e).__name__}: {e}")
    thunks = c12_scen.catalogue(rng, ck.tier)
    ck.extra["catalogue_size"] = len(thunks)
    done = 0
    fam_seen = {}
    for i, th in enumerate(thunks):
        if time.time() - t0 > budget or out_of_time():
            ck.notes.append(f"time budget reached after {i}/{len(thunks)} configurations")
            break
        if len({(b["kind"], "/".join(b["scenario"].split("/")[:2]), b.get("leaf", "-")) for b in out["bad"]}) >= 8:
            ck.notes.append(f"stopped after {i}/{len(thunks)} configurations: 8 distinct findings already recorded")
            break
        try:
            spec = th()
            scen = c12_scen.scenario(spec)
        except Exception as e:
            # the implementation (or its loader) refused to build this configuration
            ck.bucket("skipped/build-error")
            out["skip"].append(("<catalogue %d>" % i, "build-error", f"{type(e).__name__}: {str(e)[:160]}"))
            continue
        fam_seen[scen.family] = fam_seen.get(scen.family, 0) + 1
        if spec.get("cell"):
            ck.extra.setdefault("substitution_model_special_point_cells", []).append(spec["cell"])
        try:
            _one_configuration(ck, scen, spec, rng, thorough, i, out)
        except Exception as e:  # an implementation exception that escaped the guarded calls: never crash
            ck.bucket("skipped/unexpected-exception")
            out["skip"].append((scen.name, "unexpected-exception", f"{type(e).__name__}: {str(e)[:160]}"))
        done += 1
    ck.extra["configurations_checked"] = done
    probe_eigh_degenerate(ck, rng)
    ck.extra["tensor_constructors_without_dtype_or_device"] = scan_constructors()
    sw = scan_switch_points()
    ck.extra["formula_switch_points"] = sw
    unm = [x["where"] for x in sw if x["tested_by"].startswith("NOT MAPPED")]
    if unm:
        ck.notes.append("formula switch points without a mapped configuration: " + "; ".join(unm[:8]))
    ck.extra["leaves_not_differentiated_and_why"] = [
        "sampling times of real tree models, alignment, weights, covariates: data (not Parameters)",
        "FakeTreeModel sampling-time entries: differentiated when untied and positive for constant / exponential / "
        "skyride / skygrid; NOT for piecewise-linear and soft skygrid, which pass them through torch.unique under "
        "no_grad by design (upstream comment; F23 repair) - only FakeTreeModel exposes them as parameter entries",
        "entry 0 of the BDSK rate-shift times (the origin of the time axis, always 0) and bdsk_epochs origin/times "
        "(fixed so that tips can sit exactly ON the epoch boundaries)",
        "parameters held exactly at a special value (fixed list of each configuration); substitution parameters of "
        "eigh-based models at a MEASURED repeated eigenvalue (see substitution_model_special_point_cells)",
        "python-number arguments of distribution wrappers (no tensor to differentiate)",
    ]
    _finish(ck, out, fam_seen, ok, broken, st_ok)


def _one_configuration(ck, scen, spec, rng, thorough, i, out):
    if True:
        check_scenario(ck, scen, rng, 5 if thorough else 4, None if thorough else 2, out)
        if spec.get("expect_switch"):
            try:
                _b = scen.make(scen.x, False)
                _value(_b)
                ck.bucket("underflow/switched-to-rescaled" if _b.model.rescale else "underflow/no-switch")
            except Exception:
                pass
        if out_of_time() or any(b["scenario"] == scen.name for b in out["bad"]):
            return  # this configuration already produced a finding: no further (possibly big-tree) work on it
        if thorough or i % 2 == 0:
            check_reuse(ck, scen, rng, out)
        # histories on live objects: late enabling of autograd, single-parameter updates
        check_histories(ck, scen, rng, out,
                        ("late", "assign", "inplace") if thorough else ("late", ("assign", "inplace")[i % 2]))
        if out_of_time() or any(b["scenario"] == scen.name for b in out["bad"]):
            return
        # how the object is reached: routes, grad modes, immutability always; the rest rotates in quick
        check_fourth(ck, scen, rng, out,
                     tuple(FOURTH) if thorough else ("accumulate", ("deepcopy", "device", "dtype", "batched")[i % 4]))


ANCHORED = ["torchtree/evolution/tree_likelihood.py", "torchtree/evolution/tree_height_transform.py",
            "torchtree/evolution/site_model.py", "torchtree/evolution/coalescent.py", "torchtree/evolution/bdsk.py",
            "torchtree/distributions/gmrf.py"]


def scan_constructors():
    """tensor constructors in the anchored files that name neither dtype nor device (they take torch's DEFAULT
    dtype: the places where a float32 default meets float64 parameters); listed in the evidence"""
    import ast

    from common import REPO

    names = {"tensor", "zeros", "ones", "full", "arange", "eye", "linspace", "empty", "rand", "randn"}
    found = []
    for rel in ANCHORED:
        try:
            tree = ast.parse((REPO / rel).read_text())
        except Exception:
            continue
        for node in ast.walk(tree):
            if (isinstance(node, ast.Call) and isinstance(node.func, ast.Attribute) and node.func.attr in names
                    and isinstance(node.func.value, ast.Name) and node.func.value.id == "torch"):
                kws = {k.arg for k in node.keywords}
                if not ({"dtype", "device"} & kws) and None not in kws:
                    found.append(f"{rel}:{node.lineno} torch.{node.func.attr}(...)")
    return found


SWITCH_FILES = ANCHORED + ["torchtree/evolution/birth_death.py", "torchtree/distributions/gmrf_integrated.py"]
SWITCH_TESTED_BY = [
    ("PiecewiseLinearCoalescentGrid.log_prob", "coal/pwlinear/*: equal / neighbours-equal / near-equal thetas with the thetas "
     "DIFFERENTIATED (series branch of log1p(x)/x), grid beyond the root, tips on grid points via the tie signature"),
    ("PiecewiseConstantCoalescentGrid.log_prob", "every coal/skygrid configuration (mask selections) + equal thetas differentiated"),
    ("SoftPiecewiseConstantCoalescentGrid.log_prob", "every coal/skygrid_soft configuration + equal thetas differentiated"),
    ("PiecewiseConstantCoalescent.log_prob", "every coal/skyride configuration + equal thetas differentiated"),
    ("PiecewiseConstantBirthDeath.log_prob", "bdsk_epochs/* (s, rho, r at 0/1 per epoch, singles and pairs, tips of every class), "
     "bdsk/*/rho=..,r=.. cells"),
    ("BirthDeath.log_prob", "birth_death_model/*/rho=0, rho=1 and bd/BirthDeath.log_prob"),
    ("TreeLikelihoodModel", "like/*/underflow-switch (threshold / isinf switch to the rescaled pass), rescale=0/1 everywhere"),
    ("calculate_treelikelihood_discrete_safe", "like/*/underflow-switch"),
    ("maximum_likelihood", "not on a differentiated path (point estimate helper)"),
    ("sufficient_statistics", "not on a differentiated path (statistics for the Gibbs operator)"),
    ("process_data_coalesent", "not on a differentiated path (JSON data parsing)"),
    ("update_bounds", "not on a differentiated path (bounds from sampling times; C06)"),
    ("_grouped_statistics", "not on a differentiated path (statistics for the Gibbs operator)"),
    ("DifferenceNodeHeightTransform", "constructor option k (hard max when k <= 0): ReparameterizedTimeTreeModel only builds k = 0, "
     "exercised by every */shift tree configuration; the max itself is covered by the tie signature"),
]


def scan_switch_points():
    """places where the anchored code SELECTS A FORMULA from the data: torch.where, comparisons with a constant
    (abs() < c, == 0, != 0, > 0.0), nonzero().  Each is listed with the configurations that sit ON the switch."""
    import ast

    from common import REPO

    out = []
    for rel in SWITCH_FILES:
        try:
            src = (REPO / rel).read_text()
            tree = ast.parse(src)
        except Exception:
            continue
        lines = src.splitlines()

        def visit(node, qual):
            for ch in ast.iter_child_nodes(node):
                q = qual
                if isinstance(ch, (ast.FunctionDef, ast.ClassDef)):
                    q = (qual + "." if qual else "") + ch.name
                hit = None
                if isinstance(ch, ast.Call) and isinstance(ch.func, ast.Attribute) and ch.func.attr in ("where", "nonzero", "isinf"):
                    hit = ch.func.attr
                elif isinstance(ch, ast.Compare) and any(isinstance(c, ast.Constant) and isinstance(c.value, (int, float))
                                                         and not isinstance(c.value, bool) for c in ch.comparators):
                    hit = "compare-with-constant"
                if hit and qual:
                    tested = next((t for k, t in SWITCH_TESTED_BY if k in qual), None)
                    out.append({"where": f"{rel}:{ch.lineno} in {qual}", "kind": hit,
                                "code": lines[ch.lineno - 1].strip()[:90],
                                "tested_by": tested or "NOT MAPPED to a configuration"})
                visit(ch, q)

        visit(tree, "")
    return out


KNOWN_SIG_EIGH = "wrong-gradient:eigh-repeated-eigenvalue:HKY-uniform-frequencies"


def probe_eigh_degenerate(ck, rng):
    """DETERMINISTIC probe of the listed known finding: HKY(kappa = 2) at exactly uniform frequencies, ONE entry of
    the transition matrix (P[A,G] at t = 0.3), fixed direction (1, -0.5, 0.7, -0.9) in the frequencies: autograd
    against the Ridders finite difference of the same entry.  On the pinned tree autograd gives 0.6015, the finite
    difference 0.2529.  A disagreement is reported under the signature listed in KNOWN_FINDINGS.txt (KNOWN-FINDING);
    if the signature is not listed it is only recorded in the evidence (`proposed_known_findings`)."""
    import torch
    from torchtree.core.parameter import Parameter
    from torchtree.evolution.substitution_model import HKY

    dvec = [1.0, -0.5, 0.7, -0.9]

    def entry(fr):
        m = HKY(None, Parameter(None, torch.tensor([2.0], dtype=torch.float64)), Parameter(None, fr))
        return m.p_t(torch.tensor([[0.3]], dtype=torch.float64))[0, 0, 0, 2]

    try:
        fr = torch.tensor([0.25, 0.25, 0.25, 0.25], dtype=torch.float64, requires_grad=True)
        (g,) = torch.autograd.grad(entry(fr), fr)
        gd = float(sum(a * c for a, c in zip(g.tolist(), dvec)))
        d = torch.tensor(dvec, dtype=torch.float64)
        with torch.no_grad():
            fd, err, _hmin, _fmax = ridders(lambda t: float(entry(torch.tensor([0.25] * 4, dtype=torch.float64) + t * d)),
                                            0.02, ntab=6)
    except Exception as e:
        ck.notes.append(f"eigh-degenerate probe not evaluated: {type(e).__name__}: {str(e)[:120]}")
        return
    ck.case(key=("probe", "eigh-degenerate"), bucket="probe/eigh-repeated-eigenvalue",
            sample={"scenario": "HKY(kappa=2, uniform frequencies).p_t(0.3)[A,G]", "direction": dvec, "autograd": gd,
                    "finite_difference": fd, "fd_error_estimate": err})
    tol = REL * max(abs(gd), abs(fd)) + 10 * err + 1e-9
    if math.isfinite(gd) and abs(gd - fd) <= tol:
        ck.extra["eigh_degenerate_probe"] = "autograd agrees with the finite difference"
        return
    what = (f"HKY(kappa=2) at uniform frequencies, P[A,G](t=0.3): d/dfreqs{dvec} autograd={gd:.8g} but finite difference "
            f"of the same entry = {fd:.8g} (+-{err:.2g}) (torch.linalg.eigh backward at a repeated eigenvalue)")
    ck.extra["eigh_degenerate_probe"] = what
    if any(ks == KNOWN_SIG_EIGH for ks, _ in ck.known):
        ck.violation(KNOWN_SIG_EIGH, what, {"finding": {"kind": "eigh-probe"}})
    else:
        ck.extra["proposed_known_findings"] = [{"sig": KNOWN_SIG_EIGH, "what": what, "file": "fixes/KNOWN-C12.txt"}]


def _on_repeated_eigenvalue(bad):
    """the finding sits on a point where the matrix an EIGH-BASED model hands to torch.linalg.eigh has a repeated
    eigenvalue (measured on the implementation) and concerns a substitution parameter: that is the KNOWN finding
    (wrong or NaN gradient, e.g. HKY at uniform frequencies or at kappa = 1), not a new one.  Models that do not go
    through eigh are never mapped."""
    import c12_scen

    spec = bad.get("spec") or {}
    if spec.get("family") != "like" or spec.get("subst") not in c12_scen.EIGH_MODELS:
        return False
    if bad.get("leaf") not in c12_scen.SUBST_PARAM_LEAVES:
        return False
    gap = c12_scen.tie_gap(spec)
    return gap is not None and gap < 1e-6


def _finish(ck, out, fam_seen, ok, broken, st_ok):
    ck.extra["implementation_evaluations"] = out["evals"]
    ck.extra["skipped"] = [list(s) for s in out["skip"][:40]]
    ck.extra["families"] = fam_seen

    # ---- verdict
    reported = set()
    ck.extra["findings_total"] = len(out["bad"])
    for bad in out["bad"]:
        if len(reported) >= 8:
            break
        sig = "%s:%s:%s" % (bad["kind"], "/".join(bad["scenario"].split("/")[:2]), bad.get("leaf", "-"))
        if _on_repeated_eigenvalue(bad):
            sig = KNOWN_SIG_EIGH
        if sig in reported:
            continue
        reported.add(sig)
        what = _describe(bad)
        ck.violation(sig, what, {"finding": bad, "replay_cmd": "./check C12 --replay <this file>"})
    if not out["bad"] and (not ok or ck.mismatches or not st_ok):
        ck.violation(
            "c12:unproved",
            "C12 theorems, the finite-difference self-test or the model/implementation correspondence no longer check; "
            "the finite-difference oracle found no failing input on the implementation",
            {"broken_obligations": broken, "mismatches": ck.mismatches[:5]},
            found_input=False,
        )


GENERIC_KINDS = {
    "parameter-mutated-by-evaluation", "gradient-shape-unexpected", "value-differs-between-grad-modes",
    "gradient-accumulation-wrong", "gradient-wrong-on-deepcopy", "original-changed-by-update-of-deepcopy",
    "gradient-wrong-after-cpu-to", "gradient-missing-in-float32", "non-finite-gradient-in-float32",
    "float32-gradient-far-from-float64", "gradient-missing-with-float32-default-dtype",
    "gradient-differs-with-float32-default-dtype", "batched-gradient-differs-from-per-sample",
    "construction-route-fails", "route-built-object-differs"}


def _describe(bad):
    k = bad["kind"]
    if k == "non-finite-gradient":
        return (f"{bad['scenario']}: d/d{bad['leaf']}[{bad['label']}] autograd={bad['autograd']} (not finite) although the "
                f"value is finite and its finite difference = {bad['finite_difference']:.10g} (+-{bad['fd_error_estimate']:.2g})")
    if k in ("wrong-gradient", "missing-gradient"):
        return (f"{bad['scenario']}: d/d{bad['leaf']}[{bad['label']}] autograd="
                f"{'None' if bad['grad_is_none'] else '%.10g' % bad['autograd']} but finite difference of the returned "
                f"value = {bad['finite_difference']:.10g} (+-{bad['fd_error_estimate']:.2g})")
    if k == "gradient-differs-on-reuse":
        return (f"{bad['scenario']}: after updating the parameters through their setters the value is right but "
                f"d/d{bad['leaf']}[{bad['coord']}] = {bad['reused_object_grad']:.10g}, fresh objects give "
                f"{bad['fresh_object_grad']:.10g}")
    if k in ("gradient-missing-or-wrong-after-enabling-requires_grad", "gradient-wrong-after-parameter-update"):
        return (f"{bad['scenario']}: after the history {bad['history']} d/d{bad['leaf']}[{bad['coord']}] = "
                f"{'None' if bad['grad_is_none'] else '%.10g' % bad['history_grad']} but the finite difference of the "
                f"returned value = {bad['finite_difference']:.10g} (fresh objects: {bad['fresh_object_grad']:.10g})")
    if k in GENERIC_KINDS:
        extra = {x: bad[x] for x in bad if x not in ("kind", "scenario", "spec", "rows", "point")}
        return f"{bad['scenario']}: {k}: " + json.dumps(extra, default=str)[:400]
    if k == "backward-raises-in-history":
        return f"{bad['scenario']}: after the history {bad['history']} backward raises {bad.get('error', '')}"
    return f"{bad['scenario']}: {k}: {bad.get('error', '')}"


# ----------------------------------------------------------------------------- replay
def replay(path: str) -> int:
    import random

    import torch

    use_repo()
    torch.set_num_threads(2)
    torch.set_default_dtype(torch.float64)
    import c12_scen

    obj = json.loads(Path(path).read_text())
    bad = obj.get("finding")
    if not bad:
        print("replay names broken obligations only:", obj.get("broken_obligations"), obj.get("mismatches"))
        return 1
    if bad["kind"] == "eigh-probe":
        ck = Check("C12", "quick", 0)
        ck.known = []
        probe_eigh_degenerate(ck, random.Random(0))
        msg = ck.extra.get("eigh_degenerate_probe", "")
        print(msg)
        bad_ = not msg.startswith("autograd agrees")
        print("VIOLATES" if bad_ else "ok")
        return 1 if bad_ else 0
    if bad["kind"] == "model-tangent-differs":
        import c12_corr

        return c12_corr.replay(bad)
    scen = c12_scen.scenario(bad["spec"])
    print("scenario:", scen.name)
    if bad["kind"] in ("wrong-gradient", "missing-gradient", "non-finite-gradient"):
        v0, grads, b0 = eval_grad(scen, scen.x)
        name, dvec = bad["leaf"], bad["direction"]
        g = grads.get(name)
        gd = None if g is None else sum(a * b for a, b in zip(g, dvec))
        fd = fd_directional(scen, scen.x, {name: dvec}, signature(b0), bad["h0"], 6)
        tol = tolerance(gd or 0.0, fd)
        print(f"value {v0!r}")
        print(f"autograd  d/d{name}{dvec} = {gd!r}")
        print(f"finite difference        = {fd['d']!r}  (error estimate {fd['err']:.3g}, tolerance {tol:.3g})")
        viol = not (abs((gd or 0.0) - fd["d"]) <= tol)  # a NaN gradient violates
        print("VIOLATES" if viol else "ok")
        return 1 if viol else 0
    out = {"bad": [], "skip": [], "evals": 0}
    ck = Check("C12", "quick", 0)
    if bad["kind"] == "backward-raises":
        check_scenario(ck, scen, random.Random(0), 4, 1, out)
    elif bad["kind"] in GENERIC_KINDS or (bad["kind"] == "backward-raises-in-history" and "batched" in str(bad.get("history"))):
        if bad.get("route"):
            scen = c12_scen.scenario(dict(bad["spec"], route=None))
        for sd in range(6):
            check_fourth(ck, scen, random.Random(sd), out, tuple(FOURTH))
            if out["bad"]:
                break
    elif "history" in bad:
        # the recorded history is re-enacted for a handful of random parameter choices
        for sd in range(12):
            check_histories(ck, scen, random.Random(sd), out, ("late", "assign", "inplace"))
            if out["bad"]:
                break
    else:
        # reuse findings: replay the recorded move
        r = random.Random(0)
        for _ in range(20):
            check_reuse(ck, scen, r, out)
            if out["bad"]:
                break
    for b in out["bad"]:
        print(_describe(b))
    print("VIOLATES" if out["bad"] else "ok")
    return 1 if out["bad"] else 0
