"""C10 — registry of callable models / transforms of torchtree with their parameters, used by the
per-slice oracle in c10.py.

A `Case` describes one way of calling the REAL implementation:
  name      class / call-site name (used in signatures)
  params    name -> P(shape, gen): the tensors that may carry leading sample dimensions; `gen(g)` draws one
            valid value of the *unbatched* shape with the torch generator `g`
  build     f(values: dict name -> tensor) -> tensor: builds FRESH objects around the given tensors (so no cache
            of a previous evaluation can be involved: that is C11's subject) and returns the value of the call
  dims      other sizes of the problem (taxa-1, categories, states, grid, ...) — S is deliberately drawn equal
            to these, which is where silent mixing hides
Every object is built the way the test-suite builds it (JSON through `from_json` with parameters passed by
id, or the constructor when the tests use the constructor).
"""
from __future__ import annotations

import math
from collections import OrderedDict

import torch

from common import use_repo

use_repo()

from torchtree import Parameter  # noqa: E402
from torchtree.core.parameter import TransformedParameter  # noqa: E402
from torchtree.core.utils import process_object  # noqa: E402


class P:
    def __init__(self, shape, gen, specials=None):
        """`specials`: [(label, g -> tensor)] boundary / special values of the same shape (exact zeros and ones,
        ties, equal neighbours, values on a threshold of the code); the oracle puts ONE of them into ONE sample of a
        batch whose other samples are ordinary"""
        self.shape = tuple(shape)
        self.gen = gen
        self.specials = list(specials or [])

    def with_specials(self, *sp):
        self.specials += list(sp)
        return self


class Case:
    def __init__(self, name, params, build=None, dims=None, note="", slow=False, mk=None, valid=None):
        """`mk(values)` returns the callable object itself (usable as a component of a JointDistributionModel);
        `build` defaults to calling it"""
        self.name = name
        self.params = params
        self.mk = mk
        # subsets of batched parameters that are part of the call's contract (default: all)
        self.valid = valid or (lambda B: True)
        self.build = build if build is not None else (lambda v: mk(v)())
        self.dims = dims or {}
        self.note = note
        self.slow = slow


# ----------------------------------------------------------------------------- value generators
def u(lo, hi):
    def gen(g, shape):
        return lo + (hi - lo) * torch.rand(shape, generator=g, dtype=torch.float64)

    return gen


def _const(shape, c):
    return lambda g: torch.full(tuple(shape), float(c), dtype=torch.float64)


def _equal_neighbours(gen):
    """an ordinary draw whose first two entries along the last axis are exactly equal"""

    def f(g):
        x = gen(g).clone()
        x[..., 1] = x[..., 0]
        return x

    return f


def pos(*shape):
    gen = lambda g: u(0.3, 3.0)(g, shape)  # noqa: E731
    sp = [("one", _const(shape, 1.0))]
    if shape[-1] >= 2:
        sp.append(("equal-neighbours", _equal_neighbours(gen)))
    return P(shape, gen, sp)


def real(*shape):
    gen = lambda g: u(-2.0, 2.0)(g, shape)  # noqa: E731
    sp = [("zero", _const(shape, 0.0))]
    if shape[-1] >= 2:
        sp.append(("equal-neighbours", _equal_neighbours(gen)))
    return P(shape, gen, sp)


def unit(*shape):
    return P(shape, lambda g: u(0.1, 0.9)(g, shape), [("zero", _const(shape, 0.0)), ("one", _const(shape, 1.0))])


def small(*shape):
    return P(shape, lambda g: u(0.01, 0.3)(g, shape), [("zero", _const(shape, 0.0)), ("tiny", _const(shape, 1.0e-7))])


def simplex(n):
    def gen(g):
        x = u(0.5, 2.0)(g, (n,))
        return x / x.sum()

    return P((n,), gen, [("uniform", _const((n,), 1.0 / n))])


def increasing(n, start=0.0, lo=0.2, hi=1.5):
    """n increasing values above `start` (valid internal node heights in post-order, grids)"""

    def gen(g):
        return start + u(lo, hi)(g, (n,)).cumsum(-1)

    def first_on_start(g):  # first value exactly on the lower bound (an internal node at the age of the last tip)
        x = gen(g)
        x[0] = start
        return x

    sp = [("first-on-bound", first_on_start)]
    if n >= 2:
        def tie(g):  # two equal event times
            x = gen(g)
            x[1] = x[0]
            return x

        def tie_last(g):
            x = gen(g)
            x[-1] = x[-2]
            return x

        sp += [("tie", tie), ("tie-last", tie_last)]
    return P((n,), gen, sp)


# ----------------------------------------------------------------------------- trees and data
NEWICK = {
    3: "((A,B),C);",
    4: "(((A,B),C),D);",
    5: "(((A,B),(C,D)),E);",
    6: "((((A,B),C),(D,E)),F);",
}
NAMES = "ABCDEFGHIJKLMNOP"
SEQS = {
    "A": "ACGTACGGTCA",
    "B": "ACGTATGGTCC",
    "C": "ACCTACGATCA",
    "D": "ATGTACGGACA",
    "E": "GCGTACTGTCA",
    "F": "ACGAACGGTTA",
}


def _more_taxa():
    """taxa G..P with sequences in which neighbouring taxa differ at most sites (many changes per site pattern: the
    partials of a short-branched sample become very small) and a balanced 16-taxon topology"""
    import random as _r

    rnd = _r.Random(20260927)
    for nm in NAMES[6:]:
        SEQS[nm] = "".join(rnd.choice("ACGT") for _ in range(11))

    def bal(names):
        if len(names) == 1:
            return names[0]
        h = len(names) // 2
        return "(" + bal(names[:h]) + "," + bal(names[h:]) + ")"

    for n in (8, 12, 16):
        NEWICK[n] = bal(list(NAMES[:n])) + ";"


_more_taxa()


def dates_for(n, hetero):
    if hetero:
        return {NAMES[i]: float(i) * 0.5 for i in range(n)}
    return {NAMES[i]: 0.0 for i in range(n)}


def taxa_json(n, hetero):
    d = dates_for(n, hetero)
    return {
        "id": "taxa",
        "type": "Taxa",
        "taxa": [{"id": k, "type": "Taxon", "attributes": {"date": v}} for k, v in d.items()],
    }


def max_tip(n, hetero):
    return max(dates_for(n, hetero).values())


def time_tree(n, heights, hetero=False, dic=None):
    from torchtree.evolution.tree_model import TimeTreeModel

    dic = {} if dic is None else dic
    dic["heights"] = Parameter("heights", heights)
    return TimeTreeModel.from_json(
        {"id": "tree", "type": "TimeTreeModel", "newick": NEWICK[n], "internal_heights": "heights",
         "taxa": taxa_json(n, hetero)},
        dic,
    )


def ratio_tree(n, ratios, root_height, hetero=False, dic=None):
    from torchtree.evolution.tree_model import ReparameterizedTimeTreeModel

    dic = {} if dic is None else dic
    dic["ratios"] = Parameter("ratios", ratios)
    dic["root_height"] = Parameter("root_height", root_height)
    return ReparameterizedTimeTreeModel.from_json(
        {"id": "tree", "type": "ReparameterizedTimeTreeModel", "newick": NEWICK[n], "ratios": "ratios",
         "root_height": "root_height", "taxa": taxa_json(n, hetero)},
        dic,
    )


def shift_tree(n, shifts, hetero=False, dic=None):
    from torchtree.evolution.tree_model import ReparameterizedTimeTreeModel

    dic = {} if dic is None else dic
    dic["shifts"] = Parameter("shifts", shifts)
    return ReparameterizedTimeTreeModel.from_json(
        {"id": "tree", "type": "ReparameterizedTimeTreeModel", "newick": NEWICK[n], "shifts": "shifts",
         "taxa": taxa_json(n, hetero)},
        dic,
    )


def unrooted_tree(n, blens, dic=None):
    from torchtree.evolution.tree_model import UnRootedTreeModel

    dic = {} if dic is None else dic
    dic["blens"] = Parameter("blens", blens)
    return UnRootedTreeModel.from_json(
        {"id": "tree", "type": "UnRootedTreeModel", "newick": NEWICK[n], "branch_lengths": "blens",
         "taxa": taxa_json(n, False)},
        dic,
    )


def site_pattern(n, dic):
    from torchtree.evolution.site_pattern import SitePattern

    return SitePattern.from_json(
        {
            "id": "sites",
            "type": "SitePattern",
            "alignment": {
                "id": "alignment",
                "type": "Alignment",
                "datatype": "nucleotide",
                "taxa": "taxa",
                "sequences": [{"taxon": NAMES[i], "sequence": SEQS[NAMES[i]]} for i in range(n)],
            },
        },
        dic,
    )


def heights_param(n, hetero):
    return increasing(n - 1, start=max_tip(n, hetero))


def root_height_param(n, hetero):
    m = max_tip(n, hetero)
    return P((1,), lambda g: m + u(0.5, 3.0)(g, (1,)))


# ----------------------------------------------------------------------------- substitution models
def mk_subst(kind, v):
    from torchtree.evolution.datatype import GeneralDataType
    from torchtree.evolution.substitution_model import GTR, HKY, JC69
    from torchtree.evolution.substitution_model.general import (
        GeneralNonSymmetricSubstitutionModel,
        GeneralSymmetricSubstitutionModel,
    )

    if kind == "JC69":
        return JC69("jc")
    if kind == "HKY":
        return HKY("hky", Parameter("kappa", v["kappa"]), Parameter("pi", v["pi"]))
    if kind == "GTR":
        return GTR("gtr", Parameter("rates", v["rates"]), Parameter("pi", v["pi"]))
    dt = GeneralDataType("dt", ("A", "C", "G", "T"))
    if kind == "GeneralSymmetric":
        return GeneralSymmetricSubstitutionModel(
            "gs", dt, Parameter("mapping", torch.tensor([0, 1, 2, 2, 1, 0])), Parameter("rates", v["rates3"]),
            Parameter("pi", v["pi"]))
    if kind == "GeneralNonSymmetric":
        return GeneralNonSymmetricSubstitutionModel(
            "gn", dt, Parameter("mapping", torch.arange(12) % 5), Parameter("rates", v["rates5"]),
            Parameter("pi", v["pi"]), True)
    raise KeyError(kind)


SUBST_PARAMS = {
    "JC69": {},
    "HKY": {"kappa": pos(1), "pi": simplex(4)},
    "GTR": {"rates": pos(6), "pi": simplex(4)},
    "GeneralSymmetric": {"rates3": pos(3), "pi": simplex(4)},
    "GeneralNonSymmetric": {"rates5": pos(5), "pi": simplex(4)},
}


def case_p_t(kind, B, K):
    """p_t(branch_lengths): as the tree likelihood calls it, with lengths [*sample, B, K]"""
    params = dict(SUBST_PARAMS[kind])
    params["bl"] = P((B, K), lambda g: u(0.01, 0.5)(g, (B, K)), [("zero", _const((B, K), 0.0))])

    def build(v):
        return mk_subst(kind, v).p_t(v["bl"])

    # the only caller (TreeLikelihoodModel._call) passes lengths already expanded to the sample shape, so the
    # argument carries the sample dimensions whenever a model parameter does
    return Case(f"{kind}.p_t", params, build, {"B": B, "K": K, "states": 4},
                valid=lambda Bt: "bl" in Bt or not Bt)


def case_q(kind):
    params = dict(SUBST_PARAMS[kind])

    def build(v):
        return mk_subst(kind, v).q()

    return Case(f"{kind}.q", params, build, {"states": 4})


# ----------------------------------------------------------------------------- site models
def mk_site(kind, v, cats=4):
    from torchtree.evolution.site_model import ConstantSiteModel, InvariantSiteModel, WeibullSiteModel

    mu = Parameter("mu", v["mu"]) if "mu" in v else None
    if kind == "Constant":
        return ConstantSiteModel("sm", mu)
    if kind == "Invariant":
        return InvariantSiteModel("sm", Parameter("inv", v["inv"]), mu)
    if kind == "Weibull":
        return WeibullSiteModel("sm", Parameter("shape", v["shape"]), cats,
                                Parameter("inv", v["inv"]) if "inv" in v else None, mu)
    raise KeyError(kind)


def site_params(kind, with_mu, with_inv):
    p = {}
    if kind == "Invariant" or (kind == "Weibull" and with_inv):
        p["inv"] = unit(1)
    if kind == "Weibull":
        p["shape"] = pos(1)
    if with_mu:
        p["mu"] = pos(1)
    return p


def case_site(kind, what, cats=4, with_mu=False, with_inv=False):
    params = site_params(kind, with_mu, with_inv)

    def build(v):
        sm = mk_site(kind, v, cats)
        return sm.rates() if what == "rates" else sm.probabilities()

    tag = kind + ("+inv" if with_inv and kind == "Weibull" else "") + ("+mu" if with_mu else "")
    return Case(f"{tag}SiteModel.{what}", params, build, {"categories": cats + (1 if with_inv else 0)})


# ----------------------------------------------------------------------------- tree likelihood
def case_tree_likelihood(n, subst, site, tree_kind, clock=None, cats=3, with_mu=False, with_inv=False,
                         tip_states=False, single=False, rescale=False):
    """single: evaluated in the library's default precision (default dtype float32, float32 inputs);
    rescale: the rescaled pruning pass is switched on before the first call (`like.rescale = True`)"""
    from torchtree.evolution.branch_model import SimpleClockModel, StrictClockModel
    from torchtree.evolution.tree_likelihood import TreeLikelihoodModel

    params = dict(SUBST_PARAMS[subst])
    params.update(site_params(site, with_mu, with_inv))
    hetero = tree_kind != "unrooted"
    if tree_kind == "unrooted":
        params["blens"] = P((2 * n - 3,), lambda g: u(0.01, 0.4)(g, (2 * n - 3,)),
                            [("zero", _const((2 * n - 3,), 0.0)), ("huge", _const((2 * n - 3,), 1.0e3)),
                             ("tiny", _const((2 * n - 3,), 1.0e-6)), ("long", _const((2 * n - 3,), 5.0))])
    elif tree_kind == "time":
        params["heights"] = heights_param(n, hetero)
    else:
        params["ratios"] = unit(n - 2)
        params["root_height"] = root_height_param(n, hetero)
    if clock == "strict":
        params["clock"] = small(1)
    elif clock == "simple":
        params["clock"] = small(2 * n - 2)

    def build(v):
        dic = {}
        if tree_kind == "unrooted":
            tree = unrooted_tree(n, v["blens"], dic)
        elif tree_kind == "time":
            tree = time_tree(n, v["heights"], hetero, dic)
        else:
            tree = ratio_tree(n, v["ratios"], v["root_height"], hetero, dic)
        sp = site_pattern(n, dic)
        cm = None
        if clock == "strict":
            cm = StrictClockModel("clock", Parameter("rate", v["clock"]), tree)
        elif clock == "simple":
            cm = SimpleClockModel("clock", Parameter("rate", v["clock"]), tree)
        like = TreeLikelihoodModel("like", sp, tree, mk_subst(subst, v), mk_site(site, v, cats), cm,
                                   use_tip_states=tip_states)
        if rescale:
            like.rescale = True
        return like

    tag = f"TreeLikelihood[{subst},{site}{'+inv' if with_inv and site == 'Weibull' else ''}" \
          f"{'+mu' if with_mu else ''},{tree_kind}{',' + clock if clock else ''}{',tipstates' if tip_states else ''}" \
          f"{',n=' + str(n) if n > 6 else ''}{',float32' if single else ''}{',rescale' if rescale else ''}]"
    mk = build
    if single:
        def mk(v):  # the object is built and evaluated under the library's default dtype
            v32 = {k: (t.to(torch.float32) if t.dtype == torch.float64 else t) for k, t in v.items()}
            old = torch.get_default_dtype()
            torch.set_default_dtype(torch.float32)
            try:
                like = build(v32)
                like()  # evaluate while float32 is the default (constants created inside the call)
            finally:
                torch.set_default_dtype(old)
            return like
    c = Case(tag, params, None,
             {"taxa-1": n - 1, "branches": 2 * n - 2, "categories": cats + (1 if with_inv else 0), "states": 4,
              "patterns": 11},
             slow=True, mk=mk)
    if single:
        c.rtol = 2.0e-4
    return c


# ----------------------------------------------------------------------------- tree models / transforms
def case_tree_model(n, kind, what, hetero=True):
    if kind == "time":
        params = {"heights": heights_param(n, hetero)}
    elif kind == "ratio":
        params = {"ratios": unit(n - 2), "root_height": root_height_param(n, hetero)}
    elif kind == "shift":
        params = {"shifts": pos(n - 1)}
    else:
        params = {"blens": pos(2 * n - 3)}

    def build(v):
        if kind == "time":
            t = time_tree(n, v["heights"], hetero)
        elif kind == "ratio":
            t = ratio_tree(n, v["ratios"], v["root_height"], hetero)
        elif kind == "shift":
            t = shift_tree(n, v["shifts"], hetero)
        else:
            t = unrooted_tree(n, v["blens"])
        if what == "node_heights":
            return t.node_heights
        if what == "branch_lengths":
            return t.branch_lengths()
        return t()  # log|det J| of the height reparameterisation

    cls = {"time": "TimeTreeModel", "ratio": "ReparameterizedTimeTreeModel[ratios]",
           "shift": "ReparameterizedTimeTreeModel[shifts]", "unrooted": "UnRootedTreeModel"}[kind]
    mk = None
    if what == "call":
        def mk(v):
            return ratio_tree(n, v["ratios"], v["root_height"], hetero) if kind == "ratio" else shift_tree(n, v["shifts"], hetero)
    return Case(f"{cls}[n={n}].{what}", params, build, {"taxa-1": n - 1, "taxa": n, "branches": 2 * n - 2}, mk=mk)


def case_height_transform(n, kind, what, hetero=True):
    """GeneralNodeHeightTransform / DifferenceNodeHeightTransform used directly as torch Transforms"""
    from torchtree.evolution.tree_height_transform import DifferenceNodeHeightTransform, GeneralNodeHeightTransform

    base = heights_param(n, hetero)
    if what == "inv":
        params = {"y": base}
    elif kind == "general":
        params = {"x": P((n - 1,), lambda g: torch.cat((u(0.1, 0.9)(g, (n - 2,)), max_tip(n, hetero) + u(0.5, 3.0)(g, (1,)))))}
    else:
        params = {"x": pos(n - 1)}

    def build(v):
        g = torch.Generator().manual_seed(1)
        t = time_tree(n, base.gen(g), hetero)
        tr = GeneralNodeHeightTransform(t) if kind == "general" else DifferenceNodeHeightTransform(t)
        if what == "call":
            return tr(v["x"])
        if what == "inv":
            return tr.inv(v["y"])
        return tr.log_abs_det_jacobian(v["x"], tr(v["x"]))

    cls = "GeneralNodeHeightTransform" if kind == "general" else "DifferenceNodeHeightTransform"
    return Case(f"{cls}[n={n}].{what}", params, build, {"taxa-1": n - 1})


def case_transform(name):
    from torchtree.distributions import transforms as T

    d = 4
    mk = {
        "CumSumTransform": lambda v: T.CumSumTransform(),
        "CumSumExpTransform": lambda v: T.CumSumExpTransform(),
        "SoftPlusTransform": lambda v: T.SoftPlusTransform(),
        "CumSumSoftPlusTransform": lambda v: T.CumSumSoftPlusTransform(),
        "LogTransform": lambda v: T.LogTransform(),
        "ConvexCombinationTransform": lambda v: T.ConvexCombinationTransform(Parameter("w", v["w"])),
        "LinearTransform": lambda v: T.LinearTransform(Parameter("weight", v["weight"]), Parameter("bias", v["bias"])),
    }[name]
    cases = []
    xs = {"x": pos(d) if name in ("LogTransform", "ConvexCombinationTransform") else real(d)}
    extra = {}
    if name == "ConvexCombinationTransform":
        extra = {"w": simplex(d)}
    if name == "LinearTransform":
        extra = {"weight": real(3, d), "bias": real(3)}
    for what in ("call", "ladj", "inv"):
        if what == "inv" and name in ("ConvexCombinationTransform", "LinearTransform"):
            continue
        if what == "ladj" and name == "LinearTransform":
            continue
        params = dict(extra)
        if what == "inv":
            params["y"] = real(d) if name == "LogTransform" else increasing(d, 0.0) if name.startswith("CumSum") and name != "CumSumTransform" else pos(d)
        else:
            params.update(xs)

        def build(v, what=what):
            tr = mk(v)
            if what == "call":
                return tr(v["x"])
            if what == "inv":
                return tr.inv(v["y"])
            return tr.log_abs_det_jacobian(v["x"], tr(v["x"]))

        cases.append(Case(f"{name}.{what}", params, build, {"dim": d}))
    return cases


def case_transformed_parameter(which, d=3):
    """TransformedParameter: tensor and __call__ (log|det J|)"""
    from torchtree.distributions import transforms as T

    tag = which if d == 3 else f"{which},d={d}"
    params = {"x": real(d)}
    if which == "exp":
        mk = lambda: torch.distributions.ExpTransform()  # noqa: E731
    elif which == "affine":
        mk = lambda: torch.distributions.AffineTransform(1.0, 2.0)  # noqa: E731
    elif which == "softplus":
        mk = lambda: T.SoftPlusTransform()  # noqa: E731
    elif which == "stickbreaking":
        mk = lambda: torch.distributions.StickBreakingTransform()  # noqa: E731
    else:
        mk = lambda: T.CumSumExpTransform()  # noqa: E731
    out = []
    for what in ("tensor", "call"):
        def build(v, what=what):
            tp = TransformedParameter("z", Parameter("x", v["x"]), mk())
            return tp.tensor if what == "tensor" else tp()

        out.append(Case(f"TransformedParameter[{tag}].{what}", params, build, {"dim": d},
                        mk=(lambda v: TransformedParameter("z", Parameter("x", v["x"]), mk())) if what == "call" else None))
    return out


# ----------------------------------------------------------------------------- coalescent family
def _tree_for(kind, n, v, hetero, dic=None):
    if kind == "time":
        return time_tree(n, v["heights"], hetero, dic)
    if kind == "ratio":
        return ratio_tree(n, v["ratios"], v["root_height"], hetero, dic)
    raise KeyError(kind)


def _tree_params(kind, n, hetero):
    if kind == "time":
        return {"heights": heights_param(n, hetero)}
    return {"ratios": unit(n - 2), "root_height": root_height_param(n, hetero)}


def case_coalescent(which, n, hetero, tree_kind="time", grid_n=3, temperature=None):
    from torchtree.evolution import coalescent as C

    params = _tree_params(tree_kind, n, hetero)
    top = max_tip(n, hetero) + 0.9 * (n - 1)
    grid = torch.linspace(0.0, top, grid_n + 1, dtype=torch.float64)[1:]
    if which == "constant":
        params["theta"] = pos(1)
    elif which == "exponential":
        params["theta"] = pos(1)
        params["growth"] = P((1,), lambda g: u(0.1, 1.0)(g, (1,)), [("zero", _const((1,), 0.0))])
    elif which == "skyride":
        params["theta"] = pos(n - 1)
    elif which in ("skygrid", "linear"):
        params["theta"] = pos(grid_n + 1)
    elif which == "piecewise-exponential":
        params["theta"] = pos(grid_n + 1)
        params["growth"] = P((grid_n + 1,), lambda g: u(0.1, 1.0)(g, (grid_n + 1,)),
                             [("zero", _const((grid_n + 1,), 0.0))])
    elif which == "integrated":
        pass

    if tree_kind == "time" and which in ("skygrid", "linear", "piecewise-exponential"):
        above = [float(x) for x in grid if float(x) > max_tip(n, hetero)]
        if above:
            def on_grid(g, g0=above[0]):  # the first coalescent event exactly on a grid point
                x = params["heights"].gen(g)
                return g0 + (x - x[0])

            params["heights"].with_specials(("first-on-grid-point", on_grid))
    if "theta" in params and params["theta"].shape[-1] >= 2:
        params["theta"].with_specials(("all-equal", _const(params["theta"].shape, 1.5)))

    def build(v):
        tree = _tree_for(tree_kind, n, v, hetero)
        th = Parameter("theta", v["theta"]) if "theta" in v else None
        if which == "constant":
            m = C.ConstantCoalescentModel("c", th, tree)
        elif which == "integrated":
            m = C.ConstantCoalescentIntegratedModel("c", tree, 2.0, 1.5)
        elif which == "exponential":
            m = C.ExponentialCoalescentModel("c", th, Parameter("growth", v["growth"]), tree)
        elif which == "skyride":
            m = C.PiecewiseConstantCoalescentModel("c", th, tree)
        elif which == "skygrid":
            m = C.PiecewiseConstantCoalescentGridModel("c", th, Parameter("grid", grid), tree, temperature)
        elif which == "linear":
            m = C.PiecewiseLinearCoalescentGridModel("c", th, Parameter("grid", grid), tree)
        else:
            m = C.PiecewiseExponentialCoalescentGridModel("c", th, Parameter("growth", v["growth"]),
                                                          Parameter("grid", grid), tree)
        return m

    cls = {"constant": "ConstantCoalescentModel", "integrated": "ConstantCoalescentIntegratedModel",
           "exponential": "ExponentialCoalescentModel", "skyride": "PiecewiseConstantCoalescentModel",
           "skygrid": "PiecewiseConstantCoalescentGridModel" + ("[soft]" if temperature else ""),
           "linear": "PiecewiseLinearCoalescentGridModel",
           "piecewise-exponential": "PiecewiseExponentialCoalescentGridModel"}[which]
    return Case(f"{cls}[{tree_kind}{',hetero' if hetero else ''},n={n}]", params, None,
                {"taxa-1": n - 1, "taxa": n, "nodes": 2 * n - 1, "grid": grid_n, "grid+1": grid_n + 1}, mk=build)


# ----------------------------------------------------------------------------- BDSK
def case_bdsk(n, m, with_times, with_rho=False, with_r=False, survival=True, root_edge=False):
    from torchtree.evolution.bdsk import BDSKModel

    hetero = True
    params = {"heights": heights_param(n, hetero), "R": pos(m), "delta": pos(m), "s": unit(m)}
    top = max_tip(n, hetero) + 1.5 * (n - 1)
    params["origin"] = P((1,), (lambda g: u(0.1, 1.0)(g, (1,))) if root_edge else (lambda g: top + u(0.5, 2.0)(g, (1,))))
    if with_rho:
        params["rho"] = unit(1)
    if with_r:
        params["r"] = unit(m)
    times = torch.linspace(0.0, top, m + 1, dtype=torch.float64)[:-1] if with_times else None

    def build(v):
        tree = time_tree(n, v["heights"], hetero)
        kw = {}
        if with_rho:
            kw["rho"] = Parameter("rho", v["rho"])
        if with_r:
            kw["removal_probability"] = Parameter("r", v["r"])
        if times is not None:
            kw["times"] = Parameter("times", times)
        return BDSKModel("bdsk", tree, Parameter("R", v["R"]), Parameter("delta", v["delta"]),
                         Parameter("s", v["s"]), origin=Parameter("origin", v["origin"]),
                         origin_is_root_edge=root_edge, survival=survival, **kw)

    tag = f"BDSKModel[m={m}{',times' if with_times else ''}{',rho' if with_rho else ''}{',r' if with_r else ''}" \
          f"{',rootedge' if root_edge else ''}{'' if survival else ',nosurvival'}]"
    return Case(tag, params, None, {"taxa-1": n - 1, "taxa": n, "epochs": m, "epochs+1": m + 1}, mk=build)


# ----------------------------------------------------------------------------- GMRF, CTMC scale, priors
def case_gmrf(kind, N=4, n=4):
    from torchtree.distributions.gmrf import GMRF, GMRFCovariate

    params = {"field": real(N), "precision": pos(1)}
    if kind == "tree":
        params = {"field": real(n - 1), "precision": pos(1), "heights": heights_param(n, False)}
    if kind == "covariate":
        params["beta"] = real(2)
    covariates = torch.arange(2.0 * N, dtype=torch.float64).reshape(N, 2) / 7.0

    def build(v):
        f, p = Parameter("field", v["field"]), Parameter("precision", v["precision"])
        if kind == "plain":
            m = GMRF("gmrf", f, p)
        elif kind == "weights":
            m = GMRF("gmrf", f, p, weights=torch.arange(1.0, N, dtype=torch.float64))
        elif kind == "tree":
            m = GMRF("gmrf", f, p, tree_model=time_tree(n, v["heights"], False))
        else:
            m = GMRFCovariate("gmrf", f, p, Parameter("cov", covariates), Parameter("beta", v["beta"]))
        return m

    return Case(f"GMRF[{kind}]" if kind != "covariate" else "GMRFCovariate", params, None, mk=build, dims=
                {"field": N if kind != "tree" else n - 1, "field-1": (N if kind != "tree" else n - 1) - 1})


def case_ctmc_scale(n, tree_kind):
    from torchtree.distributions.ctmc_scale import CTMCScale

    params = {"rate": small(1)}
    if tree_kind == "unrooted":
        params["blens"] = pos(2 * n - 3)
    else:
        params.update(_tree_params(tree_kind, n, True))

    def build(v):
        tree = unrooted_tree(n, v["blens"]) if tree_kind == "unrooted" else _tree_for(tree_kind, n, v, True)
        return CTMCScale("ctmc", Parameter("rate", v["rate"]), tree)

    return Case(f"CTMCScale[{tree_kind}]", params, None, {"taxa-1": n - 1, "branches": 2 * n - 2}, mk=build)


def case_compound_gamma_dirichlet(n):
    from torchtree.distributions.tree_prior import CompoundGammaDirichletPrior

    params = {"blens": pos(2 * n - 3), "alpha": pos(1), "c": pos(1), "shape": pos(1), "rate": pos(1)}

    def build(v):
        tree = unrooted_tree(n, v["blens"])
        return CompoundGammaDirichletPrior("p", tree, Parameter("alpha", v["alpha"]), Parameter("c", v["c"]),
                                           Parameter("shape", v["shape"]), Parameter("rate", v["rate"]))

    return Case("CompoundGammaDirichletPrior", params, None, {"branches-1": 2 * n - 3, "taxa": n}, mk=build)


# ----------------------------------------------------------------------------- Distribution wrappers
def case_distribution(which, d):
    """Distribution(torch.distributions.X, x, parameters) — x of event size d, parameters of size 1 or d"""
    from torchtree.distributions.distributions import Distribution

    td = torch.distributions
    table = {
        "Normal": (td.Normal, real(d), {"loc": real(1), "scale": pos(1)}),
        "Normal[d]": (td.Normal, real(d), {"loc": real(d), "scale": pos(d)}),
        "LogNormal": (td.LogNormal, pos(d), {"loc": real(1), "scale": pos(1)}),
        "Exponential": (td.Exponential, pos(d), {"rate": pos(1)}),
        "Gamma": (td.Gamma, pos(d), {"concentration": pos(1), "rate": pos(1)}),
        "Gamma[d]": (td.Gamma, pos(d), {"concentration": pos(d), "rate": pos(d)}),
        "Dirichlet": (td.Dirichlet, simplex(d), {"concentration": pos(d)}),
        "Beta": (td.Beta, unit(d), {"concentration1": pos(1), "concentration0": pos(1)}),
        "Cauchy": (td.Cauchy, real(d), {"loc": real(1), "scale": pos(1)}),
        "Laplace": (td.Laplace, real(d), {"loc": real(1), "scale": pos(1)}),
        "HalfNormal": (td.HalfNormal, pos(d), {"scale": pos(1)}),
    }
    klass, xp, pp = table[which]
    params = {"x": xp}
    params.update(pp)

    def build(v):
        return Distribution("d", klass, Parameter("x", v["x"]),
                            OrderedDict((k, Parameter(k, v[k])) for k in pp))

    return Case(f"Distribution[{which},d={d}]", params, None, {"event": d}, mk=build)


def case_mvn(d, param):
    from torchtree.distributions.multivariate_normal import MultivariateNormal

    def spd(g):
        a = u(-1.0, 1.0)(g, (d, d))
        return a @ a.t() + d * torch.eye(d, dtype=torch.float64)

    def tril(g):
        a = torch.tril(u(-1.0, 1.0)(g, (d, d)), -1)
        return a + torch.diag(u(0.5, 2.0)(g, (d,)))

    params = {"x": real(d), "loc": real(d)}
    params[param] = P((d, d), tril if param == "scale_tril" else spd)

    def build(v):
        return MultivariateNormal("mvn", Parameter("x", v["x"]), Parameter("loc", v["loc"]),
                                  **{param: Parameter(param, v[param])})

    return Case(f"MultivariateNormal[{param},d={d}]", params, None, {"event": d}, mk=build)


# ----------------------------------------------------------------------------- the registry
def all_cases(thorough=False):
    cs = []
    for kind in ("JC69", "HKY", "GTR", "GeneralSymmetric", "GeneralNonSymmetric"):
        cs.append(case_p_t(kind, 4, 3))
        cs.append(case_p_t(kind, 3, 1))
        if kind != "JC69":
            cs.append(case_q(kind))
    for what in ("rates", "probabilities"):
        cs.append(case_site("Constant", what, with_mu=True))
        cs.append(case_site("Invariant", what))
        cs.append(case_site("Invariant", what, with_mu=True))
        cs.append(case_site("Weibull", what, cats=3))
        cs.append(case_site("Weibull", what, cats=4, with_mu=True))
        cs.append(case_site("Weibull", what, cats=2, with_inv=True))
        cs.append(case_site("Weibull", what, cats=3, with_inv=True, with_mu=True))
    for n in ((3, 4) if thorough else (4,)):
        for kind in ("time", "ratio", "shift", "unrooted"):
            for what in ("node_heights", "branch_lengths", "call"):
                if kind == "unrooted" and what != "branch_lengths":
                    continue
                if kind == "time" and what == "call":
                    continue
                cs.append(case_tree_model(n, kind, what))
        for kind in ("general", "difference"):
            for what in ("call", "inv", "ladj"):
                cs.append(case_height_transform(n, kind, what))
    for name in ("CumSumTransform", "CumSumExpTransform", "SoftPlusTransform", "CumSumSoftPlusTransform",
                 "LogTransform", "ConvexCombinationTransform", "LinearTransform"):
        cs.extend(case_transform(name))
    for which in ("exp", "affine", "softplus", "stickbreaking", "cumsumexp"):
        cs.extend(case_transformed_parameter(which))
    for n, hetero in (((4, False), (3, True), (5, True)) if thorough else ((4, False), (5, True))):
        for which in ("constant", "integrated", "exponential", "skyride", "skygrid", "linear",
                      "piecewise-exponential"):
            cs.append(case_coalescent(which, n, hetero, "time", grid_n=n - 1 if hetero else 3))
        cs.append(case_coalescent("constant", n, hetero, "ratio"))
        cs.append(case_coalescent("skygrid", n, hetero, "ratio", grid_n=2))
    cs.append(case_coalescent("skygrid", 4, False, "time", grid_n=3, temperature=0.01))
    cs.append(case_bdsk(4, 1, False))
    cs.append(case_bdsk(4, 3, False))
    cs.append(case_bdsk(4, 3, True))
    cs.append(case_bdsk(3, 2, True, with_rho=True))
    cs.append(case_bdsk(4, 1, False, with_r=True))
    cs.append(case_bdsk(4, 2, False, survival=False, root_edge=True))
    for kind in ("plain", "weights", "tree", "covariate"):
        cs.append(case_gmrf(kind))
    cs.append(case_gmrf("plain", N=3))
    for tk in ("time", "ratio", "unrooted"):
        cs.append(case_ctmc_scale(4, tk))
    cs.append(case_compound_gamma_dirichlet(4))
    for which in ("Normal", "Normal[d]", "LogNormal", "Exponential", "Gamma", "Gamma[d]", "Dirichlet", "Beta",
                  "Cauchy", "Laplace", "HalfNormal"):
        for d in (1, 3):
            if which == "Dirichlet" and d == 1:
                continue
            if not thorough and d == 1 and which not in ("Normal", "Gamma[d]"):
                continue
            cs.append(case_distribution(which, d))
    for param in ("covariance_matrix", "scale_tril", "precision_matrix"):
        cs.append(case_mvn(3, param))
    cs.append(case_tree_likelihood(3, "JC69", "Constant", "unrooted"))
    cs.append(case_tree_likelihood(4, "HKY", "Weibull", "time", "strict", cats=3))
    cs.append(case_tree_likelihood(4, "GTR", "Weibull", "ratio", "strict", cats=4, with_inv=True))
    cs.append(case_tree_likelihood(3, "GTR", "Invariant", "time", "simple", with_mu=True))
    cs.append(case_tree_likelihood(4, "HKY", "Constant", "unrooted", with_mu=True))
    cs.append(case_tree_likelihood(3, "GeneralSymmetric", "Weibull", "unrooted", cats=4))
    cs.append(case_tree_likelihood(3, "GeneralNonSymmetric", "Weibull", "time", "strict", cats=2))
    cs.append(case_tree_likelihood(4, "JC69", "Weibull", "time", "strict", cats=4, tip_states=True))
    return cs


# ----------------------------------------------------------------------------- joint distributions
def joint_capable(cases):
    return [c for c in cases if c.mk is not None]


def joint_case(components, label=None):
    """JointDistributionModel over fresh instances of `components` (Cases with `mk`). Parameter names are
    prefixed by the component position. `spec(values)` is the property's own right-hand side: the sum over
    components of the (event-summed) value of that component on the same values."""
    from torchtree.distributions.joint_distribution import JointDistributionModel

    params = {}
    for i, c in enumerate(components):
        for k, p in c.params.items():
            params[f"{i}.{k}"] = p

    def split(v):
        out = [dict() for _ in components]
        for k, t in v.items():
            i, name = k.split(".", 1)
            out[int(i)][name] = t
        return out

    def build(v):
        vs = split(v)
        return JointDistributionModel("joint", [c.mk(vi) for c, vi in zip(components, vs)])()

    def spec(v):
        vs = split(v)
        return sum(c.mk(vi)().sum() for c, vi in zip(components, vs)).reshape(())

    dims = {}
    for c in components:
        dims.update(c.dims)
    name = label or "Joint[" + ";".join(c.name for c in components) + "]"
    def claims(v):
        return [(c.name, tuple(c.mk(vi).sample_shape)) for c, vi in zip(components, split(v))]

    case = Case(name, params, build, dims, slow=any(c.slow for c in components))
    case.spec = spec
    case.claims = claims
    case.components = [c.name for c in components]
    return case


def mixed_batch_components():
    """components of the systematic mixed-batch joints (one batched [S, d] next to one UNBATCHED component whose
    element-wise value has N = 1..5 entries, so that N == S occurs) -> flat list (also used to look cases up in replays)"""
    out = []
    for d in range(1, 6):
        out.append(case_distribution("Normal", d))
        out.append(case_distribution("Normal[d]", d))
        out.append(case_distribution("Gamma[d]", d))
        out.append(case_transformed_parameter("exp", d)[1])
    seen, uniq = set(), []
    for c in out:
        if c.name not in seen:
            seen.add(c.name)
            uniq.append(c)
    return uniq


# ----------------------------------------------------------------------------- models built through from_json
def pj(id_, t):
    """a Parameter literal with the tensor inline (the way a configuration file carries batched values)"""
    return {"id": id_, "type": "Parameter", "tensor": t.tolist(), "dtype": str(t.dtype)}


def tree_json(n, heights, hetero, id_="tree"):
    return {"id": id_, "type": "TimeTreeModel", "newick": NEWICK[n], "internal_heights": pj("heights", heights),
            "taxa": taxa_json(n, hetero)}


def json_cases():
    """the same classes reached through `process_object` on a complete JSON document, parameters inline, optional
    keys present or absent, sub-objects inline or referenced by id. `twin` names the constructor-built case with the
    same parameters: both must return bit-identical tensors (batched or not)."""
    import torchtree.distributions.ctmc_scale  # noqa: F401  (importing registers the short type names)
    import torchtree.distributions.gmrf  # noqa: F401
    import torchtree.distributions.joint_distribution  # noqa: F401
    import torchtree.distributions.multivariate_normal  # noqa: F401
    import torchtree.evolution.bdsk  # noqa: F401
    import torchtree.evolution.coalescent  # noqa: F401
    import torchtree.evolution.tree_likelihood  # noqa: F401

    n, hetero = 4, True
    out = []

    def add(name, twin, params, spec):
        def build(v):
            return process_object(spec(v), {})()

        c = Case("json:" + name, params, build, {"taxa-1": n - 1})
        c.twin = twin
        out.append(c)

    hp = heights_param(n, hetero)
    top = max_tip(n, hetero) + 0.9 * (n - 1)
    add("ConstantCoalescentModel", case_coalescent("constant", n, hetero, "time"), {"heights": hp, "theta": pos(1)},
        lambda v: {"id": "c", "type": "ConstantCoalescentModel", "theta": pj("theta", v["theta"]),
                   "tree_model": tree_json(n, v["heights"], hetero)})
    add("ExponentialCoalescentModel", None,
        {"heights": hp, "theta": pos(1), "growth": P((1,), lambda g: u(0.1, 1.0)(g, (1,)))},
        lambda v: {"id": "c", "type": "ExponentialCoalescentModel", "theta": pj("theta", v["theta"]),
                   "growth": pj("growth", v["growth"]), "tree_model": tree_json(n, v["heights"], hetero)})
    add("PiecewiseConstantCoalescentModel", None, {"heights": hp, "theta": pos(n - 1)},
        lambda v: {"id": "c", "type": "PiecewiseConstantCoalescentModel", "theta": pj("theta", v["theta"]),
                   "tree_model": tree_json(n, v["heights"], hetero)})
    grid = torch.linspace(0.0, top, n + 1, dtype=torch.float64)[1:]
    add("PiecewiseConstantCoalescentGridModel[grid-list]", None, {"heights": hp, "theta": pos(n + 1)},
        lambda v: {"id": "c", "type": "PiecewiseConstantCoalescentGridModel", "theta": pj("theta", v["theta"]),
                   "grid": grid.tolist(), "tree_model": tree_json(n, v["heights"], hetero)})
    add("PiecewiseConstantCoalescentGridModel[cutoff]", None, {"heights": hp, "theta": pos(n + 1)},
        lambda v: {"id": "c", "type": "PiecewiseConstantCoalescentGridModel", "theta": pj("theta", v["theta"]),
                   "cutoff": top, "tree_model": tree_json(n, v["heights"], hetero)})
    add("PiecewiseLinearCoalescentGridModel[grid-parameter]", None, {"heights": hp, "theta": pos(n + 1)},
        lambda v: {"id": "c", "type": "PiecewiseLinearCoalescentGridModel", "theta": pj("theta", v["theta"]),
                   "grid": pj("grid", grid), "tree_model": tree_json(n, v["heights"], hetero)})
    add("GMRF", None, {"field": real(4), "precision": pos(1)},
        lambda v: {"id": "g", "type": "GMRF", "x": pj("field", v["field"]), "precision": pj("precision", v["precision"])})
    add("GMRF[tree,rescale=false]", None, {"field": real(n - 1), "precision": pos(1), "heights": heights_param(n, False)},
        lambda v: {"id": "g", "type": "GMRF", "x": pj("field", v["field"]), "precision": pj("precision", v["precision"]),
                   "tree_model": tree_json(n, v["heights"], False), "rescale": False})
    add("CTMCScale", case_ctmc_scale(n, "time"), {"rate": small(1), "heights": hp},
        lambda v: {"id": "ctmc", "type": "CTMCScale", "x": pj("rate", v["rate"]),
                   "tree_model": tree_json(n, v["heights"], hetero)})
    add("Distribution[Normal]", case_distribution("Normal", 3), {"x": real(3), "loc": real(1), "scale": pos(1)},
        lambda v: {"id": "d", "type": "Distribution", "distribution": "torch.distributions.Normal", "x": pj("x", v["x"]),
                   "parameters": {"loc": pj("loc", v["loc"]), "scale": pj("scale", v["scale"])}})
    add("Distribution[Gamma,numbers]", None, {"x": pos(3)},
        lambda v: {"id": "d", "type": "Distribution", "distribution": "torch.distributions.Gamma", "x": pj("x", v["x"]),
                   "parameters": {"concentration": 2.0, "rate": [0.5]}})
    add("MultivariateNormal", None, {"x": real(2), "loc": real(2)},
        lambda v: {"id": "m", "type": "MultivariateNormal", "x": pj("x", v["x"]),
                   "parameters": {"loc": pj("loc", v["loc"]),
                                  "covariance_matrix": pj("cov", torch.tensor([[1.5, 0.25], [0.25, 0.75]], dtype=torch.float64))}})
    add("JointDistributionModel[shared-x]", None, {"x": pos(3), "loc": real(1)},
        lambda v: {"id": "j", "type": "JointDistributionModel", "distributions": [
            {"id": "d1", "type": "Distribution", "distribution": "torch.distributions.LogNormal", "x": pj("x", v["x"]),
             "parameters": {"loc": pj("loc", v["loc"]), "scale": 0.75}},
            {"id": "d2", "type": "Distribution", "distribution": "torch.distributions.Gamma", "x": "x",
             "parameters": {"concentration": 2.0, "rate": 1.5}}]})
    add("JointDistributionModel[coalescent+prior,tree-by-reference]", None, {"heights": hp, "theta": pos(1), "rate": small(1)},
        lambda v: {"id": "j", "type": "torchtree.distributions.joint_distribution.JointDistributionModel", "distributions": [
            {"id": "c", "type": "torchtree.evolution.coalescent.ConstantCoalescentModel", "theta": pj("theta", v["theta"]),
             "tree_model": tree_json(n, v["heights"], hetero)},
            {"id": "ctmc", "type": "CTMCScale", "x": pj("rate", v["rate"]), "tree_model": "tree"},
            {"id": "pr", "type": "Distribution", "distribution": "torch.distributions.Exponential", "x": "theta",
             "parameters": {"rate": 0.5}}]})
    add("BDSKModel[times-list,rho]", None,
        {"heights": hp, "R": pos(2), "delta": pos(2), "s": unit(2), "rho": unit(1),
         "origin": P((1,), lambda g: top + 1.0 + u(0.5, 2.0)(g, (1,)))},
        lambda v: {"id": "b", "type": "BDSKModel", "tree_model": tree_json(n, v["heights"], hetero), "R": pj("R", v["R"]),
                   "delta": pj("delta", v["delta"]), "s": pj("s", v["s"]), "rho": pj("rho", v["rho"]),
                   "origin": pj("origin", v["origin"]), "times": [0.0, 0.5 * top], "survival": True})
    add("WeibullSiteModel.rates[invariant,mu]", None, {"shape": pos(1), "inv": unit(1), "mu": pos(1)},
        lambda v: {"id": "sm", "type": "WeibullSiteModel", "categories": 3, "shape": pj("shape", v["shape"]),
                   "invariant": pj("inv", v["inv"]), "mu": pj("mu", v["mu"])})
    out[-1].build = lambda v, spec=None: process_object(
        {"id": "sm", "type": "WeibullSiteModel", "categories": 3, "shape": pj("shape", v["shape"]),
         "invariant": pj("inv", v["inv"]), "mu": pj("mu", v["mu"])}, {}).rates()

    def like_spec(v):
        return {
            "id": "like", "type": "TreeLikelihoodModel",
            "tree_model": tree_json(n, v["heights"], hetero),
            "site_model": {"id": "sm", "type": "WeibullSiteModel", "categories": 3, "shape": pj("shape", v["shape"])},
            "substitution_model": {"id": "hky", "type": "HKY", "kappa": pj("kappa", v["kappa"]),
                                   "frequencies": pj("pi", v["pi"])},
            "branch_model": {"id": "clock", "type": "StrictClockModel", "tree_model": "tree", "rate": pj("rate", v["clock"])},
            "site_pattern": {"id": "sites", "type": "SitePattern", "alignment": {
                "id": "alignment", "type": "Alignment", "datatype": "nucleotide", "taxa": "taxa",
                "sequences": [{"taxon": NAMES[i], "sequence": SEQS[NAMES[i]]} for i in range(n)]}},
        }

    add("TreeLikelihoodModel", case_tree_likelihood(4, "HKY", "Weibull", "time", "strict", cats=3),
        {"heights": hp, "shape": pos(1), "kappa": pos(1), "pi": simplex(4), "clock": small(1)}, like_spec)
    out[-1].slow = True
    return out


NEWICK[2] = "(A,B);"


def minimum_size_cases():
    """smallest instances: two taxa (one internal node), one rate category, one grid interval, one-element field"""
    cs = [case_coalescent("constant", 2, True, "time"), case_coalescent("skyride", 2, True, "time"),
          case_coalescent("skygrid", 2, False, "time", grid_n=1), case_coalescent("exponential", 2, False, "time"),
          case_site("Weibull", "rates", cats=1), case_site("Weibull", "rates", cats=1, with_inv=True),
          case_gmrf("plain", N=2), case_ctmc_scale(2, "time"), case_tree_model(2, "time", "branch_lengths"),
          case_tree_model(2, "shift", "node_heights"), case_bdsk(2, 1, False),
          case_tree_likelihood(2, "HKY", "Weibull", "time", "strict", cats=1)]
    for c in cs:
        c.name = c.name + "[min]"
    return cs


def soft_skygrid_distribution_case(n=4, grid_n=3):
    """the torch-Distribution level class `SoftPiecewiseConstantCoalescentGrid(theta, grid, temperature=None)` called
    directly (the model class never builds it with temperature None). The tip (sampling) times are DATA: in every
    route the library offers they are shared by all samples (TimeTreeModel expands one `sampling_times` vector), so
    the batched argument carries the same tip times in every row; the class reads them from row 0
    (`node_heights.flatten()[:taxa_count]`)."""
    from torchtree.evolution.coalescent import SoftPiecewiseConstantCoalescentGrid

    hetero = True
    tips = torch.tensor([dates_for(n, hetero)[NAMES[i]] for i in range(n)], dtype=torch.float64)
    top = max_tip(n, hetero) + 0.9 * (n - 1)
    grid = torch.linspace(0.0, top, grid_n + 1, dtype=torch.float64)[1:]
    params = {"heights": heights_param(n, hetero), "theta": pos(grid_n + 1)}

    def build(v):
        h = v["heights"]
        nh = torch.cat((tips.expand(h.shape[:-1] + (-1,)), h), -1)
        return SoftPiecewiseConstantCoalescentGrid(v["theta"], grid, None).log_prob(nh)

    return Case("SoftPiecewiseConstantCoalescentGrid[temperature=None].log_prob", params, build,
                {"taxa-1": n - 1, "grid+1": grid_n + 1})


# ----------------------------------------------------------------------------- Distribution wrappers as likelihood terms
def _fixed(shape, seed, kind):
    g = torch.Generator().manual_seed(seed)
    if kind == "simplex":
        x = u(0.5, 2.0)(g, shape)
        return x / x.sum(-1, keepdim=True)
    if kind == "pos":
        return u(0.3, 3.0)(g, shape)
    return u(-2.0, 2.0)(g, shape)


LIK_FAMILIES = {
    # name: (torch class, event rank, kind of x, {parameter: (kind, trailing shape as function of d)})
    "Normal": ("Normal", 0, "real", {"loc": ("real", ()), "scale": ("pos", ())}),
    "Gamma": ("Gamma", 0, "pos", {"concentration": ("pos", ()), "rate": ("pos", ())}),
    "Exponential": ("Exponential", 0, "pos", {"rate": ("pos", ())}),
    "Laplace": ("Laplace", 0, "real", {"loc": ("real", ()), "scale": ("pos", ())}),
    "Dirichlet": ("Dirichlet", 1, "simplex", {"concentration": ("pos", ("d",))}),
    "MultivariateNormal": ("MultivariateNormal", 1, "real", {"loc": ("real", ("d",)), "scale_tril": ("tril", ("d", "d"))}),
}


def case_likelihood_term(family, data_shape, d=4, joint=None):
    """`Distribution(torch family, x, parameters)` used as a LIKELIHOOD TERM: x is fixed data of shape
    data_shape + event_shape (data_shape = () is exactly one event, the degenerate end of the index arithmetic in
    `_sample_shape`), the parameters have one value per sample: shape [*sample] + (1,)*len(data_shape) + trailing.
    joint=None: the term itself; 'alone': JointDistributionModel([term]); 'prior': JointDistributionModel([term,
    prior on its first parameter]) — the prior is a properly batched term (its x is the batched parameter)."""
    from torchtree.distributions.distributions import Distribution
    from torchtree.distributions.joint_distribution import JointDistributionModel

    td = torch.distributions
    cls_name, ev, xkind, pspec = LIK_FAMILIES[family]
    klass = getattr(td, cls_name)
    ones = (1,) * len(data_shape)
    x = _fixed(tuple(data_shape) + ((d,) if ev else ()), 11 + len(data_shape), xkind)

    def trailing(t):
        return tuple(d if a == "d" else a for a in t)

    def pgen(kind, shape):
        if kind == "tril":
            def gen(g):
                a = torch.tril(u(-1.0, 1.0)(g, shape), -1)
                return a + torch.diag_embed(u(0.5, 2.0)(g, shape[:-1]))
            return P(shape, gen)
        return {"real": real, "pos": pos}[kind](*shape) if shape else P((), lambda g, k=kind: (u(0.3, 3.0) if k == "pos" else u(-2.0, 2.0))(g, ()))

    params = {k: pgen(kind, ones + trailing(t)) for k, (kind, t) in pspec.items()}
    first = next(iter(pspec))

    def mk_term(v):
        return Distribution("lik", klass, Parameter("x", x.clone()),
                            OrderedDict((k, Parameter(k, v[k])) for k in pspec))

    def mk_prior(v, term):
        # a prior on the first parameter: its x IS the (possibly batched) parameter object of the term
        p = term.dict_parameters[first]
        fam = td.Gamma if pspec[first][0] == "pos" else td.Normal
        pp = OrderedDict(concentration=Parameter("a", torch.tensor([2.0])), rate=Parameter("b", torch.tensor([1.5]))) \
            if fam is td.Gamma else OrderedDict(loc=Parameter("m", torch.tensor([0.2])), scale=Parameter("s", torch.tensor([1.7])))
        return Distribution("prior", fam, p, pp)

    tag = f"{family},data={'x'.join(map(str, data_shape)) or 'one-event'}" + (f",d={d}" if ev else "")
    dims = {"event": d} if ev else {}
    for i, n in enumerate(data_shape):
        dims[f"data{i}"] = n
    if joint is None:
        return Case(f"LikelihoodTerm[{tag}]", params, None, dims, mk=mk_term)
    if joint == "alone":
        def build(v):
            return JointDistributionModel("j", [mk_term(v)])()

        def spec(v):
            return mk_term(v)().sum().reshape(())

        c = Case(f"Joint[LikelihoodTerm[{tag}]]", params, build, dims)
        c.spec = spec
        c.components = [f"LikelihoodTerm[{tag}]"]
        c.claims = lambda v: [(f"LikelihoodTerm[{tag}]", tuple(mk_term(v).sample_shape))]
        return c

    def build2(v):
        t = mk_term(v)
        return JointDistributionModel("j", [t, mk_prior(v, t)])()

    def spec2(v):
        t = mk_term(v)
        return (t().sum() + mk_prior(v, t)().sum()).reshape(())

    c = Case(f"Joint[LikelihoodTerm[{tag}];PriorOn[{first}]]", params, build2, dims)
    c.spec = spec2
    c.components = [f"LikelihoodTerm[{tag}]", f"PriorOn[{first}]"]

    def claims(v):
        t = mk_term(v)
        return [(f"LikelihoodTerm[{tag}]", tuple(t.sample_shape)), (f"PriorOn[{first}]", tuple(mk_prior(v, t).sample_shape))]

    c.claims = claims
    c.first = first
    return c


def likelihood_term_cases():
    out = []
    for family, (_c, ev, _k, _p) in LIK_FAMILIES.items():
        for data_shape in ((), (3,), (2, 3)):
            for joint in (None, "alone", "prior"):
                out.append(case_likelihood_term(family, data_shape, 4, joint))
    return out


def magnitude_contrast_cases(thorough=True):
    """tree likelihoods on a 16-taxon tree with many changes per site, in single precision (the library default) and
    in double, with and without the rescaled pass switched on beforehand: used with ONE sample of the batch holding
    very short (or very long) branches / a tiny clock rate while the others are ordinary — the samples then differ by
    tens of orders of magnitude in their partials, the plain pass underflows for one of them and the rescued /
    rescaled pass must still treat every sample on its own."""
    out = []
    for single in (True, False):
        for rescale in (False, True):
            out.append(case_tree_likelihood(16, "JC69", "Constant", "unrooted", single=single, rescale=rescale))
            out.append(case_tree_likelihood(16, "HKY", "Weibull", "time", "strict", cats=2, single=single, rescale=rescale))
    out.append(case_tree_likelihood(16, "JC69", "Weibull", "time", "strict", cats=2, tip_states=True, single=True))
    out.append(case_tree_likelihood(12, "GTR", "Constant", "unrooted", single=True, rescale=True))
    if not thorough:  # quick: both precisions, both ways into the rescaled pass, partials and tip states
        keep = ("TreeLikelihood[JC69,Constant,unrooted,n=16,float32]",
                "TreeLikelihood[HKY,Weibull,time,strict,n=16,float32,rescale]",
                "TreeLikelihood[JC69,Constant,unrooted,n=16,rescale]",
                "TreeLikelihood[JC69,Weibull,time,strict,tipstates,n=16,float32]")
        out = [c for c in out if c.name in keep]
    return out
