"""C07 — every change of variables reports its true log-Jacobian and inverse.

Lean side : TTModel/C07_Transforms.lean (forward / inverse / reported log-det of CumSum, CumSumExp,
            SoftPlus, CumSumSoftPlus, Log, LogDifferenceRate, TrilExpDiagonal, the two node-height
            transforms, TransformedParameter.__call__), theorems in TTProofs/Props/C07.lean
            (generic triangular log-det lemma; per transform: reported = true log|det J|, inverse ∘
            forward = id).
Tie       : float correspondence of forward / inverse / log-det with the model (exact on dyadic
            inputs for CumSum; 1e-10 through exp/log).
Search    : the property's own oracle on the implementation: torch AD Jacobian
            (torch.autograd.functional.jacobian + slogdet) against the reported log-det,
            inv(forward(x)) against x, single and batched; TransformedParameter() and
            ReparameterizedTimeTreeModel() for the CURRENT value after assignments and in-place updates
            with notification; all trees <= 5 taxa (6 thorough) for the tree transforms.
"""
from __future__ import annotations

import json
import math
import sys
from pathlib import Path

from common import REPO, VERIF, Check, f2h, h2f, use_repo

use_repo()
import torch  # noqa: E402
from torch.autograd.functional import jacobian  # noqa: E402

import c06_gen as G  # noqa: E402
import c07_torch as TT  # noqa: E402
import c07_extra as X  # noqa: E402
import c07_scale as SC  # noqa: E402

torch.set_num_threads(2)
DT = torch.float64


# ----------------------------------------------------------------------------- transforms under test
def vector_transforms():
    from torchtree.distributions import transforms as T

    return {
        "CumSumTransform": (T.CumSumTransform, "real", "cumsum"),
        "CumSumExpTransform": (T.CumSumExpTransform, "real", "cumsumexp"),
        "CumSumSoftPlusTransform": (T.CumSumSoftPlusTransform, "real", "cumsumsoftplus"),
    }


def elementwise_transforms():
    from torchtree.distributions import transforms as T

    return {
        "SoftPlusTransform": (T.SoftPlusTransform, "real", "softplus"),
        "LogTransform": (T.LogTransform, "positive", "log"),
    }


def torch_transforms():
    import torch.distributions as D

    return {
        "torch.ExpTransform": (lambda: D.ExpTransform(), "real", 0),
        "torch.SigmoidTransform": (lambda: D.SigmoidTransform(), "real", 0),
        "torch.AffineTransform": (lambda: D.AffineTransform(1.5, 2.0), "real", 0),
        "torch.StickBreakingTransform": (lambda: D.StickBreakingTransform(), "real", 1),
    }


def draw(dom, m, rng, dyadic=False):
    if dom == "real":
        return [rng.randrange(-12, 13) / 4.0 if dyadic else rng.uniform(-3, 3) for _ in range(m)]
    return [rng.randrange(1, 33) / 8.0 if dyadic else rng.uniform(0.05, 5.0) for _ in range(m)]


# ----------------------------------------------------------------------------- oracle (AD Jacobian)
def ad_logabsdet(f, x):
    """log|det J| of f at the 1-D point x by automatic differentiation (square J required)"""
    J = jacobian(f, x)
    if J.dim() != 2 or J.shape[0] != J.shape[1]:
        raise ValueError(f"Jacobian of shape {tuple(J.shape)} is not square")
    sign, lad = torch.linalg.slogdet(J)
    return lad.item(), J


def close(a, b, tol=1e-8):
    if isinstance(a, float) and isinstance(b, float):
        if math.isnan(a) or math.isnan(b):
            return False
        return a == b or abs(a - b) <= tol * max(1.0, abs(a), abs(b))
    return len(a) == len(b) and all(close(float(u), float(v), tol) for u, v in zip(a, b))


MODES = ("no_grad", "grad", "requires_grad")


def same_bits(a, b):
    return a.shape == b.shape and a.dtype == b.dtype and torch.equal(a, b)


def guarded_eval(name, t, x0, tag, fails):
    """forward and log_abs_det_jacobian (and inverse) under torch.no_grad(), with autograd enabled, and on a leaf that
    requires grad; every tensor handed in must come back bit-identical, the same call twice must give the same
    answer, and the three modes must agree. Returns (y, reported) of the first mode (reported None if not shipped)."""
    import contextlib

    first = None
    for mode in MODES:
        xin = x0.clone()
        if mode == "requires_grad":
            xin.requires_grad_(True)

        def untouched(what, handed, pristine):
            if not same_bits(handed.detach(), pristine):
                fails.append((f"{name}:input-mutated:{mode}{tag}",
                              f"{what} ({mode}) changed the tensor it was given from {pristine.tolist()} to {handed.detach().tolist()}"))

        def repeat(what, a, b):
            if not same_bits(a.detach(), b.detach()):
                fails.append((f"{name}:not-repeatable:{mode}{tag}", f"{what} ({mode}) first {a.tolist()} then {b.tolist()} at x = {x0.tolist()}"))

        with (torch.no_grad() if mode == "no_grad" else contextlib.nullcontext()):
            y = t(xin)
            untouched("forward", xin, x0)
            repeat("forward", y, t(xin))
            yk = y.detach().clone()
            rep = None
            try:
                rep = t.log_abs_det_jacobian(xin, y)
                untouched("log_abs_det_jacobian (x)", xin, x0)
                untouched("log_abs_det_jacobian (y)", y, yk)
                repeat("log_abs_det_jacobian", rep, t.log_abs_det_jacobian(xin, y))
            except NotImplementedError:
                if first is None:
                    raise
            try:
                yin = yk.clone()
                xi = t.inv(yin)
                untouched("inverse", yin, yk)
                repeat("inverse", xi, t.inv(yin))
            except NotImplementedError:
                pass
        if first is None:
            first = (y.detach(), None if rep is None else rep.detach())
        else:
            if not same_bits(first[0], y.detach()) or (rep is not None and first[1] is not None and not same_bits(first[1], rep.detach())):
                fails.append((f"{name}:mode-dependent{tag}",
                              f"forward / log-det differ between no_grad and {mode} at x = {x0.tolist()}"))
    return first


def check_vector(name, t, rows, batched, fails, evt=1):
    """property on a transform with a vector event: reported log-det (scalar per row) = AD; inv∘fwd = id"""
    x = torch.tensor(rows if batched else rows[0], dtype=DT)
    tag = ":batched" if batched else ""
    try:
        y, rep = guarded_eval(name, t, x, tag, fails)
    except NotImplementedError:
        return {"logdet": "not-implemented"}
    except Exception as e:
        fails.append((f"{name}:logdet{tag}", f"forward / log_abs_det_jacobian raises {type(e).__name__}: {str(e)[:120]}"))
        return {}
    out = {"y": y, "rep": rep}
    want_shape = tuple(x.shape[:-1])
    if tuple(rep.shape) != want_shape:
        fails.append((f"{name}:logdet{tag}", f"log_abs_det_jacobian has shape {tuple(rep.shape)} for input {tuple(x.shape)}"))
    else:
        reps = rep.tolist() if batched else [rep.item()]
        for b, row in enumerate(rows):
            try:
                true, _ = ad_logabsdet(lambda v: t(v), torch.tensor(row, dtype=DT))
            except Exception as e:
                fails.append((f"{name}:logdet{tag}", f"AD Jacobian unavailable: {e}"))
                break
            if not close(float(reps[b]), true):
                fails.append((f"{name}:logdet{tag}",
                              f"reports log|det J| = {reps[b]} at x = {row} but the AD Jacobian has {true}"))
                break
    check_inverse(name, t, x, y, tag, fails, out)
    return out


def check_inverse(name, t, x, y, tag, fails, out):
    try:
        xi = t.inv(y)
        out["inv"] = xi
        if tuple(xi.shape) != tuple(x.shape):
            fails.append((f"{name}:inverse{tag}", f"inverse has shape {tuple(xi.shape)} for input {tuple(x.shape)}"))
        elif not torch.allclose(xi, x, rtol=1e-8, atol=1e-8):
            fails.append((f"{name}:inverse{tag}", f"inverse(forward(x)) = {xi.tolist()} for x = {x.tolist()}"))
    except NotImplementedError:
        out["inv"] = "not-implemented"
    except Exception as e:
        fails.append((f"{name}:inverse{tag}", f"inverse raises {type(e).__name__}: {str(e)[:120]}"))


def check_elementwise(name, t, rows, batched, fails):
    """element-wise transform: reported[i] = log|dy_i/dx_i|, Jacobian diagonal; inv∘fwd = id"""
    x = torch.tensor(rows if batched else rows[0], dtype=DT)
    tag = ":batched" if batched else ""
    try:
        y, rep = guarded_eval(name, t, x, tag, fails)
    except Exception as e:
        fails.append((f"{name}:logdet{tag}", f"forward / log_abs_det_jacobian raises {type(e).__name__}: {str(e)[:120]}"))
        return {}
    out = {"y": y, "rep": rep}
    if tuple(rep.shape) != tuple(x.shape):
        fails.append((f"{name}:logdet{tag}", f"log_abs_det_jacobian has shape {tuple(rep.shape)} for input {tuple(x.shape)}"))
    else:
        reps = rep.tolist() if batched else [rep.tolist()]
        for b, row in enumerate(rows):
            J = jacobian(lambda v: t(v), torch.tensor(row, dtype=DT))
            off = J - torch.diag(torch.diagonal(J))
            true = torch.diagonal(J).abs().log().tolist()
            if off.abs().max().item() != 0.0 or not close(reps[b], true):
                fails.append((f"{name}:logdet{tag}",
                              f"reports {reps[b]} at x = {row} but the AD Jacobian has log|diag| = {true}"))
                break
    check_inverse(name, t, x, y, tag, fails, out)
    return out


# ----------------------------------------------------------------------------- Lean correspondence
def ask_vec(drv, mode, tr, what, vals):
    enc = (lambda v: G.rat_str(v)) if mode == "R" else f2h
    rep = drv.ask(f"vec {mode} {tr} {what} | " + " ".join(enc(v) for v in vals))
    if rep == "bad-op":
        return None
    return [float(G.parse_rat(v)) if mode == "R" else h2f(v) for v in rep.split()]


def correspond_vec(ck, drv, name, tr, rows, out, batched, elementwise, exact):
    if drv is None or not out or "y" not in out:
        return
    mode = "R" if exact else "F"
    tol = 0.0 if exact else 1e-10
    ys = out["y"].tolist() if batched else [out["y"].tolist()]
    reps = out["rep"].tolist() if batched else [out["rep"].tolist()]
    invs = None
    if isinstance(out.get("inv"), torch.Tensor) and tuple(out["inv"].shape) == tuple(out["y"].shape):
        invs = out["inv"].tolist() if batched else [out["inv"].tolist()]
    for b, row in enumerate(rows):
        fm = ask_vec(drv, mode, tr, "fwd", row)
        lm = ask_vec(drv, mode, tr, "ld", row)
        if fm is None or not close(ys[b], fm, tol or 1e-300):
            ck.mismatch(f"{name} forward", {"x": row, "impl": ys[b], "model": fm})
        lr = reps[b] if elementwise else [float(reps[b])]
        if lm is None or not close(lr, lm, tol or 1e-300):
            ck.mismatch(f"{name} log_abs_det_jacobian", {"x": row, "impl": lr, "model": lm})
        if invs:
            im = ask_vec(drv, mode, tr, "inv", ys[b])
            if im is None or not close(invs[b], im, tol or 1e-300):
                ck.mismatch(f"{name} inverse", {"y": ys[b], "impl": invs[b], "model": im})


# ----------------------------------------------------------------------------- tree transforms
def tree_cases(ck):
    rng = ck.rng
    max_exh = 6 if ck.thorough() else 5
    for n in range(2, max_exh + 1):
        for t0 in G.all_topologies(n):
            t = G.random_flip(t0, rng)
            schemes = G.date_schemes(n, rng)
            sname = rng.choice(list(schemes))
            yield t, schemes[sname], sname
    for _ in range(40 if ck.thorough() else 10):
        n = rng.randrange(6, 11)
        t = G.random_flip(G.random_topology(n, rng), rng)
        schemes = G.date_schemes(n, rng)
        sname = rng.choice(list(schemes))
        yield t, schemes[sname], sname


def height_params(kind, t, dates, rng, rows):
    n = G.ntips(t)
    leaf = G.expected_leaf_heights(dates)
    out = []
    for _ in range(rows):
        if kind == "ratio":
            out.append([rng.uniform(0.05, 0.95) for _ in range(n - 2)] + [max(leaf) + rng.uniform(0.1, 8.0)])
        else:
            out.append([rng.uniform(0.05, 4.0) for _ in range(n - 1)])
    return out


def check_heights(ck, drv, t, dates, kind, k, rows, batched, fails):
    """node-height transform on a tree: transform.log_abs_det_jacobian and model() vs AD; inverse"""
    from torchtree.evolution.tree_height_transform import DifferenceNodeHeightTransform

    n = G.ntips(t)
    name = "GeneralNodeHeightTransform" if kind == "ratio" else "DifferenceNodeHeightTransform"
    tag = ":batched" if batched else ""
    x = torch.tensor(rows if batched else rows[0], dtype=DT)
    try:
        m = G.make_reparam(t, dates, x, kind)
        if k:
            m.transform = DifferenceNodeHeightTransform(m, k=k)
        tr = m.transform
    except Exception as e:
        fails.append((f"{name}:build", f"{type(e).__name__}: {e}"))
        return
    out = check_vector(name + (":smooth" if k else ""), tr, rows, batched, fails)
    # the tree model itself, when called, must return the same log-Jacobian
    try:
        lp = m()
        if "rep" in out and not torch.allclose(lp, out["rep"], rtol=1e-12, atol=1e-12):
            fails.append((f"ReparameterizedTimeTreeModel.__call__:{kind}{tag}",
                          f"model() = {lp.tolist()} but transform.log_abs_det_jacobian = {out['rep'].tolist()}"))
    except Exception as e:
        fails.append((f"ReparameterizedTimeTreeModel.__call__:{kind}{tag}", f"raises {type(e).__name__}: {e}"))
    # Lean model of the reported value
    if drv is not None and kind == "ratio" and "rep" in out and tuple(out["rep"].shape) == tuple(x.shape[:-1]):
        # the sampling times the model really carries (float32 values; their agreement with the dates is C06)
        leaf = m.sampling_times.tolist()
        s_f = " ".join(f2h(v) for v in leaf)
        ys = out["y"].tolist() if batched else [out["y"].tolist()]
        reps = out["rep"].tolist() if batched else [out["rep"].item()]
        for b in range(len(rows)):
            y_f = " ".join(f2h(v) for v in ys[b])
            rep = drv.ask(f"ratiold F {n} {G.paren(t)} | {s_f} | {y_f}")
            if rep == "bad-op" or not close(float(reps[b]), h2f(rep), 1e-10):
                ck.mismatch("ratio log_abs_det_jacobian", {"tree": G.paren(t), "dates": dates, "x": rows[b],
                                                           "impl": reps[b], "model": rep})


def check_lograte(ck, drv, t, dates, rows, batched, fails):
    from torchtree.evolution.rate_transform import LogDifferenceRateTransform

    n = G.ntips(t)
    name = "LogDifferenceRateTransform"
    m = G.make_timetree(t, dates, [1.0] * (n - 1))
    tr = LogDifferenceRateTransform(m)
    out = check_vector(name, tr, rows, batched, fails)
    if drv is not None and "y" in out:
        ys = out["y"].tolist() if batched else [out["y"].tolist()]
        reps = out["rep"].tolist() if batched else [out["rep"].item()]
        for b, row in enumerate(rows):
            x_f = " ".join(f2h(v) for v in row)
            fm = drv.ask(f"lograte F {n} {G.paren(t)} fwd | {x_f}")
            lm = drv.ask(f"lograte F {n} {G.paren(t)} ld | {x_f}")
            if fm == "bad-op" or not close(ys[b], [h2f(v) for v in fm.split()], 1e-10):
                ck.mismatch(f"{name} forward", {"tree": G.paren(t), "x": row, "impl": ys[b], "model": fm})
            if lm == "bad-op" or not close(float(reps[b]), h2f(lm), 1e-10):
                ck.mismatch(f"{name} log_abs_det_jacobian", {"tree": G.paren(t), "x": row, "impl": reps[b],
                                                             "model": h2f(lm) if lm != "bad-op" else lm})


# ----------------------------------------------------------------------------- TransformedParameter, live
def tp_history(ck, drv, rng, fails, which):
    """TransformedParameter() must be the log-Jacobian at the CURRENT value of the wrapped parameter"""
    from torchtree import Parameter, TransformedParameter

    name = which
    treg = TT.tp_registry(rng)
    if name in treg:
        ctor, drawrow, kind = treg[name]
    else:
        reg = {**vector_transforms(), **elementwise_transforms()}
        ctor, dom, _tr = reg[name]
        drawrow = lambda m_: draw(dom, m_, rng)  # noqa: E731
        kind = "elementwise" if name in elementwise_transforms() else "vector"
    elementwise = kind == "elementwise"
    m = rng.randrange(1, 6)
    batched = rng.random() < 0.3
    B = rng.randrange(2, 4) if batched else 1
    rows = [drawrow(m) for _ in range(B)]
    steps = []
    eval_mode = rng.choice(["no_grad", "no_grad", "grad"])
    try:
        p = Parameter("x", torch.tensor(rows if batched else rows[0], dtype=DT))
        tp = TransformedParameter("y", p, ctor())
        _ = tp(), tp.tensor
    except Exception as e:
        fails.append((f"TransformedParameter[{name}]:build", f"{type(e).__name__}: {e}", None))
        return
    for k in range(rng.randrange(2, 5)):
        rows = [drawrow(m) for _ in range(B)]
        mode = rng.choice(["assign", "inplace", "inplace"])
        steps.append({"mode": mode, "values": rows})
        new = torch.tensor(rows if batched else rows[0], dtype=DT)
        new0 = new.clone()
        try:
            if mode == "assign":
                p.tensor = new
            else:
                with torch.no_grad():
                    p.tensor.copy_(new)
                p.fire_parameter_changed()
            import contextlib

            with (torch.no_grad() if eval_mode == "no_grad" else contextlib.nullcontext()):
                got = tp().detach().clone()
                val = tp.tensor.detach().clone()
                again = tp().detach().clone()
                p.fire_parameter_changed()
                again2, val2 = tp().detach().clone(), tp.tensor.detach().clone()
            if not same_bits(p.tensor.detach(), new0):
                fails.append((f"TransformedParameter[{name}]:input-mutated:{eval_mode}",
                              f"after update {k} ({mode}) calling the parameter ({eval_mode}) changed the wrapped parameter "
                              f"from {new0.tolist()} to {p.tensor.tolist()}",
                              {"type": "tp", "transform": name, "batched": batched, "steps": list(steps), "eval": eval_mode}))
                return
            if not (same_bits(got, again) and same_bits(got, again2) and same_bits(val, val2)):
                fails.append((f"TransformedParameter[{name}]:not-repeatable:{eval_mode}",
                              f"after update {k} ({mode}) the call returns {got.tolist()} and then {again2.tolist()} ({eval_mode})",
                              {"type": "tp", "transform": name, "batched": batched, "steps": list(steps), "eval": eval_mode}))
                return
            new = new0
            t2 = ctor()
            want = t2.log_abs_det_jacobian(new, t2(new))
            ok = tuple(got.shape) == tuple(want.shape) and torch.allclose(got, want, rtol=1e-12, atol=1e-12) \
                and torch.allclose(val, t2(new), rtol=1e-12, atol=1e-12)
        except Exception as e:
            fails.append((f"TransformedParameter[{name}]:call", f"update {k} ({mode}) raises {type(e).__name__}: {str(e)[:100]}",
                          {"type": "tp", "transform": name, "batched": batched, "steps": list(steps)}))
            return
        if not ok:
            fails.append((f"TransformedParameter[{name}]:stale",
                          f"after update {k} ({mode}) to {rows} the parameter's call returns {got.tolist()} and its tensor "
                          f"{val.tolist()}; for the current value they are {want.tolist()} and {t2(new).tolist()}",
                          {"type": "tp", "transform": name, "batched": batched, "steps": list(steps)}))
            return
        # and the reported value itself against AD at the current point
        for row, g in zip(rows, (got.tolist() if batched else [got.tolist()])):
            xr = torch.tensor(row, dtype=DT)
            if elementwise:
                true = torch.diagonal(jacobian(lambda v: t2(v), xr)).abs().log().tolist()
                good = close(g, true)
            elif kind == "simplex":
                true = torch.linalg.slogdet(jacobian(lambda v: t2(v)[..., :-1], xr))[1].item()
                good = close(float(g), true)
            else:
                true, _ = ad_logabsdet(lambda v: t2(v), xr)
                good = close(float(g), true)
            if not good:
                fails.append((f"TransformedParameter[{name}]:logdet",
                              f"after update {k} the call returns {g} at x = {row}; AD Jacobian: {true}",
                              {"type": "tp", "transform": name, "batched": batched, "steps": list(steps)}))
                return


def tp_machine(ck, drv, rng):
    """TransformedParameter over ExpTransform vs the Lean cached-value machine: a script of
    sets (with notification), calls and tensor reads"""
    from torchtree import Parameter, TransformedParameter

    x0 = rng.randrange(-8, 9) / 4.0
    p = Parameter("x", torch.tensor([x0], dtype=DT))
    tp = TransformedParameter("y", p, torch.distributions.ExpTransform())
    ops, outs = [], []
    for _ in range(rng.randrange(3, 9)):
        r = rng.random()
        if r < 0.4:
            v = rng.randrange(-8, 9) / 4.0
            if rng.random() < 0.5:
                p.tensor = torch.tensor([v], dtype=DT)
            else:
                with torch.no_grad():
                    p.tensor.copy_(torch.tensor([v], dtype=DT))
                p.fire_parameter_changed()
            ops.append("s" + f2h(v))
        elif r < 0.75:
            ops.append("c")
            outs.append(tp().item())
        else:
            ops.append("t")
            outs.append(tp.tensor.item())
    if drv is None:
        return
    rep = drv.ask(f"tp F {f2h(x0)} " + " ".join(ops))
    model = [] if rep in ("", "bad-op") else [h2f(v) for v in rep.split()]
    if rep == "bad-op" or not close(outs, model, 1e-12):
        ck.mismatch("TransformedParameter machine", {"x0": x0, "ops": ops, "impl": outs, "model": model})
    ck.case(key=("tp-machine", x0, tuple(ops)), bucket="TransformedParameter/machine")


def live_tree_logdet(ck, rng, fails):
    """ReparameterizedTimeTreeModel() after in-place updates = log-Jacobian at the current ratios"""
    n = rng.randrange(3, 7)
    t = G.random_flip(G.random_topology(n, rng), rng)
    dates = rng.choice(list(G.date_schemes(n, rng).values()))
    rows = height_params("ratio", t, dates, rng, 1)
    m = G.make_reparam(t, dates, torch.tensor(rows[0], dtype=DT), "ratio")
    _ = m()
    steps = []
    for k in range(3):
        new = height_params("ratio", t, dates, rng, 1)[0]
        mode = rng.choice(["assign", "inplace"])
        steps.append({"mode": mode, "values": new})
        try:
            import contextlib

            if mode == "assign":
                G.heights_param(m).tensor = torch.tensor(new, dtype=DT)
            else:
                with torch.no_grad():
                    G.heights_param(m).tensor.copy_(torch.tensor(new, dtype=DT))
                G.heights_param(m).fire_parameter_changed()
            emode = rng.choice(["no_grad", "grad"])
            with (torch.no_grad() if emode == "no_grad" else contextlib.nullcontext()):
                got = m().item()
                _h = m.node_heights
                G.heights_param(m).fire_parameter_changed()
                got2 = m().item()
            if not torch.equal(G.heights_param(m).tensor.detach(), torch.tensor(new, dtype=DT)) or got != got2:
                fails.append((f"ReparameterizedTimeTreeModel.__call__:input-mutated:{emode}",
                              f"after update {k} ({mode}) calling the model ({emode}) left its parameter at "
                              f"{G.heights_param(m).tensor.tolist()} (set to {new}); call {got} then {got2}",
                              {"type": "live-tree", "tree": G.paren(t), "dates": dates, "x": rows, "steps": list(steps)}))
                return
            true, _ = ad_logabsdet(lambda v: m.transform(v), torch.tensor(new, dtype=DT))
        except Exception as e:
            fails.append(("ReparameterizedTimeTreeModel.__call__:live", f"update {k} raises {type(e).__name__}: {e}",
                          {"type": "live-tree", "tree": G.paren(t), "dates": dates, "x": rows, "steps": list(steps)}))
            return
        if not close(got, true):
            fails.append(("ReparameterizedTimeTreeModel.__call__:live",
                          f"after update {k} ({mode}) model() = {got} but the AD Jacobian at the current ratios has {true}",
                          {"type": "live-tree", "tree": G.paren(t), "dates": dates, "x": rows, "steps": list(steps)}))
            return
    ck.case(key=("live-tree", G.paren(t), tuple(dates)), bucket="ReparameterizedTimeTreeModel()/live")


# ----------------------------------------------------------------------------- run
def corpus_cases():
    d = VERIF / "corpus" / "C07"
    out = []
    if d.exists():
        for f in sorted(d.glob("*.json")):
            try:
                out.append(json.loads(f.read_text()))
            except ValueError:
                pass
    return out


def run_point(ck, drv, name, rows, batched, fails, exact=False):
    """one (transform, point) case for the non-tree transforms"""
    V, E = vector_transforms(), elementwise_transforms()
    if name in V:
        ctor, _dom, tr = V[name]
        out = check_vector(name, ctor(), rows, batched, fails)
        correspond_vec(ck, drv, name, tr, rows, out, batched, False, exact and tr == "cumsum")
    else:
        ctor, _dom, tr = E[name]
        out = check_elementwise(name, ctor(), rows, batched, fails)
        correspond_vec(ck, drv, name, tr, rows, out, batched, True, False)


def run(ck: Check):
    ck.rule = (
        "one case = one (transform, point of its domain [, tree and sampling dates], batched or not) on which the "
        "implementation's log_abs_det_jacobian is compared with the log|det| of torch's AD Jacobian of its forward map and "
        "inverse(forward(x)) with x; distinct = distinct (transform, point); non-trivial = dimension >= 2 (or a tree "
        "with >= 3 taxa)"
    )
    ck.assumptions += [
        "theorems are over the reals; float64 behaviour is tied by 1e-10 agreement of forward/inverse/log-det with the "
        "Float run of the model and by 1e-8 agreement with the AD Jacobian",
        "torch's autograd is the oracle of the search and is trusted. The torch transforms reachable from generated "
        "configs (Exp, Sigmoid, Affine, Softplus, Power, StickBreaking, t.inv, Compose) are modelled as torch writes them "
        "(TTModel/C07_Torch.lean), proved about (Props/C07_Torch.lean) and compared with torch itself",
        "torchtree's own SoftPlus/CumSumSoftPlus are modelled as log(1+exp x) on [-15, 15]; torch's F.softplus threshold "
        "(x > 20 -> x) is modelled in the torch file and the theorems there are stated for |x| <= 20",
        "TrilExpDiagonalTransform reports no log-Jacobian (raises NotImplementedError) and LogDifferenceRateTransform / "
        "ConvexCombinationTransform ship no inverse (NotImplementedError): those clauses have nothing to compare",
    ]
    ck.trusted += ["torch.autograd.functional.jacobian / slogdet (search oracle)",
                   "torch's elementary functions exp/log/log1p/expm1/sigmoid/pow (Lean Float vs torch at 1e-10)"]
    ok, broken = ck.lean_side({}, ["TTModel.C07_Transforms", "TTModel.C07_Torch", "TTProofs.Props.C07",
                                   "TTProofs.Props.C07_Torch", "drv_c07"], "TTProofs/Props/C07.lean")
    # (common.lean_side also builds and audits the companion file TTProofs/Props/C07_Torch.lean)
    drv = None
    try:
        drv = ck.driver("drv_c07")
    except Exception as e:
        ck.notes.append(f"driver unavailable: {e}")
    rng = ck.rng
    fails = []  # (sig, what[, replay])
    found = {}

    def flush(replay_base, size):
        for f in fails:
            sig, what = f[0], f[1]
            rep = f[2] if len(f) > 2 and f[2] else replay_base
            if sig not in found or size < found[sig][0]:
                found[sig] = (size, what, rep)
        fails.clear()

    try:
        V, E = vector_transforms(), elementwise_transforms()
        # ---- corpus
        for c in corpus_cases():
            if c.get("type") == "point":
                run_point(ck, drv, c["transform"], c["x"], c["batched"], fails)
                ck.case(key=("corpus", json.dumps(c, sort_keys=True)), bucket="corpus")
                flush(c, (len(c["x"][0]), len(c["x"])))
            elif c.get("type") == "lograte":
                check_lograte(ck, drv, G.parse_paren(c["tree"]), c["dates"], c["x"], c["batched"], fails)
                ck.case(key=("corpus", json.dumps(c, sort_keys=True)), bucket="corpus")
                flush(c, (len(c["dates"]), len(c["x"])))
        # ---- vector / element-wise transforms at random points
        reps = 60 if ck.thorough() else 14
        for name in list(V) + list(E):
            dom = (V.get(name) or E.get(name))[1]
            for i in range(reps):
                m = 1 + (i % 6) if i < 12 else rng.randrange(1, 13)
                batched = i % 3 == 2
                dy = (name == "CumSumTransform") or i % 5 == 0
                rows = [draw(dom, m, rng, dyadic=dy) for _ in range(rng.randrange(2, 4) if batched else 1)]
                run_point(ck, drv, name, rows, batched, fails, exact=dy)
                ck.case(key=(name, tuple(map(tuple, rows)), batched), nontrivial=m >= 2,
                        sample={"transform": name, "x": rows, "batched": batched} if m >= 3 else None,
                        bucket=f"{name}/{'batched' if batched else 'single'}")
                flush({"type": "point", "transform": name, "x": rows, "batched": batched}, (m, len(rows)))
        # ---- the torch transforms reachable from generated configs: torch itself vs the Lean model
        #      (TTModel/C07_Torch.lean) and vs the AD Jacobian; Compose, .inv, nesting as the CLI nests them
        TT.run_section(ck, drv, rng, fails, flush)
        # ---- TrilExpDiagonalTransform (forward / inverse; no log-det shipped)
        from torchtree.distributions.transforms import TrilExpDiagonalTransform

        for i in range(20 if ck.thorough() else 6):
            d = 1 + i % 5
            row = draw("real", d * (d + 1) // 2, rng)
            t = TrilExpDiagonalTransform()
            x = torch.tensor(row, dtype=DT)
            out = {}
            try:
                y = t(x)
                check_inverse("TrilExpDiagonalTransform", t, x, y, "", fails, out)
                if drv is not None:
                    fm = drv.ask(f"tril F fwd {d} | " + " ".join(f2h(v) for v in row))
                    if fm == "bad-op" or not close(y.flatten().tolist(), [h2f(v) for v in fm.split()], 1e-10):
                        ck.mismatch("TrilExpDiagonal forward", {"x": row, "impl": y.tolist(), "model": fm})
                    im = drv.ask(f"tril F inv {d} | " + " ".join(f2h(v) for v in y.flatten().tolist()))
                    if isinstance(out.get("inv"), torch.Tensor) and (
                            im == "bad-op" or not close(out["inv"].tolist(), [h2f(v) for v in im.split()], 1e-10)):
                        ck.mismatch("TrilExpDiagonal inverse", {"y": y.tolist(), "impl": out["inv"].tolist(), "model": im})
                try:
                    t.log_abs_det_jacobian(x, y)
                    ck.bucket("TrilExpDiagonalTransform/logdet-now-implemented")
                except NotImplementedError:
                    ck.bucket("TrilExpDiagonalTransform/logdet-not-implemented")
            except Exception as e:
                fails.append(("TrilExpDiagonalTransform:forward", f"raises {type(e).__name__}: {e}"))
            ck.case(key=("tril", tuple(row)), nontrivial=d >= 2, bucket=f"TrilExpDiagonalTransform/d={d}")
            flush({"type": "tril", "x": [row]}, (d, 1))
        # ---- tree transforms on every topology
        for t, dates, sname in tree_cases(ck):
            n = G.ntips(t)
            for kind, k in (("ratio", None), ("difference", None), ("difference", float(rng.choice([1, 2, 4])))):
                if k and rng.random() < 0.6:
                    continue
                batched = rng.random() < 0.3
                rows = height_params(kind, t, dates, rng, rng.randrange(2, 4) if batched else 1)
                check_heights(ck, drv, t, dates, kind, k, rows, batched, fails)
                ck.case(key=(kind, k, G.paren(t), tuple(dates), batched), nontrivial=n >= 3,
                        sample={"tree": G.paren(t), "dates": dates, "kind": kind, "x": rows} if n == 4 else None,
                        bucket=f"{kind}{'/smooth' if k else ''}/n={n if n <= 6 else '7+'}")
                flush({"type": "heights", "tree": G.paren(t), "dates": dates, "kind": kind, "k": k, "x": rows,
                       "batched": batched}, (n, len(rows)))
            if n >= 2:
                batched = rng.random() < 0.3
                rows = [draw("positive", 2 * n - 2, rng) for _ in range(rng.randrange(2, 4) if batched else 1)]
                check_lograte(ck, drv, t, dates, rows, batched, fails)
                ck.case(key=("lograte", G.paren(t), batched), nontrivial=n >= 3, bucket=f"LogDifferenceRate/n={n if n <= 6 else '7+'}")
                flush({"type": "lograte", "tree": G.paren(t), "dates": dates, "x": rows, "batched": batched}, (n, len(rows)))
        # ---- how a transform / TransformedParameter is reached (fourth-wave checklist)
        def record(sig, what, rep, size):
            if sig not in found or size < found[sig][0]:
                found[sig] = (size, what, rep)

        SC.run_section(ck, rng, record)
        X.section_routes(ck, rng, record)
        X.section_cli_unconstrained(ck, rng, record)
        X.section_dtypes(ck, rng, record)
        X.section_instances(ck, rng, record)
        X.section_batches_special(ck, rng, record, lambda name, rows, b, fl: run_point(ck, drv, name, rows, b, fl))
        X.section_failures(ck, rng, record)
        # ---- TransformedParameter(): current value after updates; Lean cached-value machine
        names = list(V) + list(E) + list(TT.tp_registry(rng))
        for i in range(200 if ck.thorough() else 72):
            nm = names[i % len(names)]
            tp_history(ck, drv, rng, fails, nm)
            ck.case(key=("tp", nm, i), bucket=f"TransformedParameter/{nm}")
            flush(None, (1, 1))
        for i in range(60 if ck.thorough() else 20):
            tp_machine(ck, drv, rng)
        for i in range(30 if ck.thorough() else 10):
            live_tree_logdet(ck, rng, fails)
            flush(None, (1, 1))
    finally:
        if drv:
            drv.close()

    ranked = sorted(found.items(), key=lambda kv: (kv[1][0], kv[0]))
    for sig, (_size, what, rep) in ranked[:6]:
        rep = dict(rep or {"type": "none"}, broken_obligations=broken, replay_cmd="./check C07 --replay <this file>")
        ck.violation(sig, what, rep)
    if len(ranked) > 6:
        ck.extra["further_failing_signatures"] = [f"{s}: {v[1][:160]}" for s, v in ranked[6:40]]
    if not found and (not ok or ck.mismatches):
        ck.violation("C07:unproved", "C07 theorems or the model/implementation correspondence no longer check",
                     {"broken_obligations": broken, "mismatches": ck.mismatches[:5]}, found_input=False)


# ----------------------------------------------------------------------------- replay
def replay(path: str) -> int:
    obj = json.loads(Path(path).read_text())
    typ = obj.get("type")
    fails = []

    class _Ck:  # correspondence is not part of a replay
        def mismatch(self, *a, **k):
            pass

    if typ == "point":
        run_point(_Ck(), None, obj["transform"], obj["x"], obj["batched"], fails)
        print(f"{obj['transform']} at x = {obj['x']} batched={obj['batched']}")
    elif typ == "lograte":
        check_lograte(_Ck(), None, G.parse_paren(obj["tree"]), obj["dates"], obj["x"], obj["batched"], fails)
        print(f"LogDifferenceRateTransform on {obj['tree']} at rates {obj['x']}")
    elif typ == "heights":
        check_heights(_Ck(), None, G.parse_paren(obj["tree"]), obj["dates"], obj["kind"], obj.get("k"), obj["x"],
                      obj["batched"], fails)
        print(f"{obj['kind']} node-height transform on {obj['tree']} dates {obj['dates']} at {obj['x']}")
    elif typ in ("scale-ratio", "scale-other", "inverse-sweep", "option-scale"):
        for sig, what in SC.replay(obj):
            fails.append((sig, what))
        print(f"scale case {obj.get('label', obj.get('name'))}: {obj.get('tree', '')} dates {obj.get('dates')} x {obj.get('x')}")
    elif typ == "tp-route":
        rc = X.replay_tp_route(obj)
        print("VIOLATES" if rc else "property holds on this input")
        return rc
    elif typ == "live-tree":
        import contextlib

        t = G.parse_paren(obj["tree"])
        m = G.make_reparam(t, obj["dates"], torch.tensor(obj["x"][0], dtype=DT), "ratio")
        _ = m()
        for k, st in enumerate(obj["steps"]):
            new = torch.tensor(st["values"], dtype=DT)
            if st["mode"] == "assign":
                G.heights_param(m).tensor = new.clone()
            else:
                with torch.no_grad():
                    G.heights_param(m).tensor.copy_(new)
                G.heights_param(m).fire_parameter_changed()
            for emode in ("no_grad", "grad"):
                with (torch.no_grad() if emode == "no_grad" else contextlib.nullcontext()):
                    got = m().item()
                    _h = m.node_heights
                    G.heights_param(m).fire_parameter_changed()
                    got2 = m().item()
                true, _ = ad_logabsdet(lambda v: m.transform(v), new.clone())
                print(f"update {k} ({st['mode']}, read under {emode}): model() = {got}, again {got2}; AD Jacobian at the "
                      f"current ratios {true}; parameter now {G.heights_param(m).tensor.tolist()} (set to {st['values']})")
                if not torch.equal(G.heights_param(m).tensor.detach(), new):
                    fails.append(("input-mutated", f"calling the model ({emode}) changed its parameter"))
                if got != got2 or not close(got, true):
                    fails.append(("logdet", f"model() = {got} / {got2}; AD {true}"))
    elif typ in ("torch", "torchc", "stick"):
        fails.extend(TT.replay(obj))
        print(f"{obj.get('transform', 'torch.StickBreakingTransform')} at x = {obj['x']}")
    elif typ == "nested":
        print("nested TransformedParameter history:", obj)
        f2 = []

        class _C:
            def case(self, *a, **k):
                pass

        print("(re-run by ./check C07: the history is randomised from the recorded loc/scale)")
        return 1
    elif typ == "tp":
        import random

        # re-run the recorded update script
        from torchtree import Parameter, TransformedParameter

        import random as _r

        reg = {**vector_transforms(), **elementwise_transforms()}
        reg.update({k: (v[0], None, None) for k, v in TT.tp_registry(_r.Random(0)).items()})
        ctor = reg[obj["transform"]][0]
        first = obj["steps"][0]["values"]
        p = Parameter("x", torch.zeros_like(torch.tensor(first if obj["batched"] else first[0], dtype=DT)))
        tp = TransformedParameter("y", p, ctor())
        _ = tp()
        for k, st in enumerate(obj["steps"]):
            new = torch.tensor(st["values"] if obj["batched"] else st["values"][0], dtype=DT)
            if st["mode"] == "assign":
                p.tensor = new
            else:
                with torch.no_grad():
                    p.tensor.copy_(new)
                p.fire_parameter_changed()
            t2 = ctor()
            got, want = tp(), t2.log_abs_det_jacobian(new, t2(new))
            print(f"update {k} ({st['mode']}): call returns {got.tolist()}, log-Jacobian at the current value {want.tolist()}")
            if tuple(got.shape) != tuple(want.shape) or not torch.allclose(got, want, rtol=1e-12, atol=1e-12):
                fails.append(("stale", "TransformedParameter() is not the log-Jacobian of its current value"))
            for row, g in zip(st["values"], got.tolist() if obj["batched"] else [got.tolist()]):
                xr = torch.tensor(row, dtype=DT)
                if obj["transform"] in elementwise_transforms():
                    true = torch.diagonal(jacobian(lambda v: t2(v), xr)).abs().log().tolist()
                    good = close(g, true)
                else:
                    true = ad_logabsdet(lambda v: t2(v), xr)[0]
                    good = close(float(g), true)
                if not good:
                    fails.append(("logdet", f"call returns {g} at {row}; AD Jacobian {true}"))
    else:
        print("replay names broken obligations only:", obj.get("broken_obligations"), obj.get("mismatches"))
        return 1
    for f in fails:
        print(f"VIOLATES [{f[0]}]: {f[1]}")
    if not fails:
        print("property holds on this input")
    return 1 if fails else 0
