"""C05 — among-site rate models keep the mean substitution rate at one.

Lean side : TTModel/C05_SiteModel.lean (Constant, Invariant, discretised with abstract inverse_cdf,
            Weibull instance), theorems in TTProofs/Props/C05.lean (probs_sum_one, probs_nonneg,
            rates_nonneg, invariant_rate_zero_prob_p, mean_rate, weibull_normaliser_pos).
Tie       : correspondence of rates()/probabilities() of the REAL classes with the model executed at
            Float by drv_c05: probabilities and the Constant/Invariant rates bit-exact (single IEEE
            operations), Weibull rates at rel 1e-10 (log/pow). Batched parameters: row s of the
            implementation against the model on slice s.
Search    : the property's own identities evaluated on the implementation's output (always run, and
            on a wider sweep when the Lean side or the correspondence broke).
"""
from __future__ import annotations

import copy
import json
import math
import random
from pathlib import Path

import sys

from common import REPO, VERIF, Check, f2h, h2f, use_repo

sys.path.insert(0, str(VERIF / "harness" / "translators"))
import tr_options_c04c05 as tr_options  # noqa: E402
import c04c05_holders as H  # noqa: E402

TOL = 1e-10
PSUM_TOL = 1e-12
# dtype regimes: f64 = default float64, float64 inputs; f32default = default float32, float64 inputs (results must be
# float64 and as accurate); f32in = default float64, float32 inputs (results must be float32); int = integer-typed
# parameter tensors (results in the default floating dtype)
REGIME_TOL = {"f64": (1e-10, 1e-12), "f32default": (1e-10, 1e-12), "f32in": (1e-4, 1e-6), "int": (1e-10, 1e-12)}


def regime_of(c):
    return c.get("regime", "f64")


def f32(x):
    import struct

    return struct.unpack("<f", struct.pack("<f", x))[0]
OBSERVED = []  # option/attribute disagreements of the object built last
CLASS = {"const": "ConstantSiteModel", "inv": "InvariantSiteModel", "weibull": "WeibullSiteModel"}


# ------------------------------------------------------------------ case generation
def gen_case(rng, kind=None):
    kind = kind or rng.choice(["weibull"] * 6 + ["inv"] * 2 + ["const"])
    S = rng.choice([2, 3, 5])

    def shape_v():
        r = rng.random()
        if r < 0.1:
            return rng.choice([1e-2, 1e2, 1.0, 0.5, 2.0])
        return 10 ** rng.uniform(-2, 2)

    def p_v():
        r = rng.random()
        if r < 0.15:
            return rng.choice([0.0, 0.5, 0.25, 0.999, 1 - 2.0 ** -20, 1e-9])
        return rng.random()

    def mu_v():
        r = rng.random()
        if r < 0.15:
            return rng.choice([1.0, 2.0, 0.5, 1e-3, 1e3])
        return 10 ** rng.uniform(-3, 3)

    def vec(f, batched):
        return [f() for _ in range(S if batched else 1)]

    c = {"kind": kind, "S": S}
    if kind == "const":
        has_mu = rng.random() < 0.7
        bm = has_mu and rng.random() < 0.5
        c.update(mu=vec(mu_v, bm) if has_mu else None, batch={"mu": bm})
    elif kind == "inv":
        has_mu = rng.random() < 0.5
        bi = rng.random() < 0.5
        bm = has_mu and rng.random() < 0.5
        c.update(inv=vec(p_v, bi), mu=vec(mu_v, bm) if has_mu else None, batch={"inv": bi, "mu": bm})
    else:
        has_inv = rng.random() < 0.5
        has_mu = rng.random() < 0.5
        r = rng.random()
        if r < 0.35:
            bs = bi = bm = False
        elif r < 0.8:  # a supported batched subset
            bs = True
            bi = has_inv
            bm = has_mu and rng.random() < 0.5
        else:  # any subset, including those the implementation cannot broadcast
            bs, bi, bm = rng.random() < 0.5, has_inv and rng.random() < 0.5, has_mu and rng.random() < 0.5
        c.update(
            K=rng.randint(1, 16),
            shape=vec(shape_v, bs),
            inv=vec(p_v, bi) if has_inv else None,
            mu=vec(mu_v, bm) if has_mu else None,
            batch={"shape": bs, "inv": bi, "mu": bm},
        )
    if not any(c["batch"].values()):
        c["S"] = 1
    if rng.random() < 0.6:
        add_updates(rng, c, rng.randint(1, 3))
    c["route"] = gen_route(rng)
    c["holder"] = {n: rng.choice(H.KINDS) for n in ("shape", "inv", "mu") if c.get(n) is not None}
    apply_regime(rng, c, rng.choice(["f64"] * 6 + ["f32default"] * 2 + ["f32in"] * 2))
    if rng.random() < 0.25:
        c["deepcopy"] = True
    if rng.random() < 0.25:
        c["move"] = rng.choice(["cpu", "to"])
    if c["route"].get("srd06"):
        # the CLI's SRD06 spelling: one unbatched float64 mu, held by the view of srd06.mus; it is not reassigned
        if c.get("mu") is None or c["batch"].get("mu") or c["regime"] != "f64":
            c["route"].pop("srd06")
        else:
            for u in c.get("updates", []):
                u["set"].pop("mu", None)
            c["updates"] = [u for u in c.get("updates", []) if u["set"]]
    return c


def apply_regime(rng, c, regime):
    """float32 inputs: values are rounded to float32 (so the model sees the same numbers) and kept in the range
    where float32 neither overflows nor underflows (shape in [0.1, 100], p <= 0.99, mu in [1e-3, 1e3])"""
    c["regime"] = regime
    if regime == "f32in":
        def fix(name, v):
            if name == "shape":
                v = min(max(v, 0.1), 100.0)
            if name == "inv":
                v = min(v, 0.99)
            return f32(v)

        for name in ("shape", "inv", "mu"):
            if c.get(name) is not None:
                c[name] = [fix(name, v) for v in c[name]]
        for u in c.get("updates", []):
            u["set"] = {n: [fix(n, v) for v in vs] for n, vs in u["set"].items()}
    return c


def gen_route(rng, kind=None):
    """how the object is built: positional constructor, keyword constructor (any keyword order, optional
    parameters omitted or passed as explicit None), from_json through process_object (optional keys present only
    when named, any key order, parameters inline or by reference, short or full type name), or the JSON the CLI emits"""
    kind = kind or rng.choice(["ctor", "kw", "json", "json", "json", "cli"])
    r = {"kind": kind, "order": rng.randrange(1000)}
    if kind == "kw":
        r["explicit_none"] = rng.random() < 0.5
    if kind == "json":
        r["form"] = rng.choice(["inline", "ref"])
        r["fulltype"] = rng.random() < 0.3
    if kind == "cli" and rng.random() < 0.5:
        y = rng.uniform(0.05, 0.95)
        r["srd06"] = {"y": [y, 1.0 - y], "view": rng.choice(["0:1", "1:2"])}
    return r


GEN = {}


def _gens(rng):
    def shape_v():
        return rng.choice([1e-2, 1e2, 1.0, 0.5, 2.0]) if rng.random() < 0.1 else 10 ** rng.uniform(-2, 2)

    def p_v():
        return rng.choice([0.0, 0.5, 0.25, 0.999, 1e-9]) if rng.random() < 0.15 else rng.random()

    def mu_v():
        return rng.choice([1.0, 2.0, 0.5, 1e-3, 1e3]) if rng.random() < 0.15 else 10 ** rng.uniform(-3, 3)

    return {"shape": shape_v, "inv": p_v, "mu": mu_v}


def add_updates(rng, c, k, names=None):
    """a history: k later assignments `param.tensor = new values` (same shapes), each touching one parameter
    (mostly) or several; after every assignment rates()/probabilities() are read again"""
    g = _gens(rng)
    present = [n for n in ("shape", "inv", "mu") if c.get(n) is not None]
    if not present:
        return c
    ups = []
    for _ in range(k):
        which = names or ([rng.choice(present)] if rng.random() < 0.7 else
                          [n for n in present if rng.random() < 0.6] or [rng.choice(present)])
        u = {"set": {n: [g[n]() for _ in range(len(c[n]))] for n in which},
             "order": rng.choice(["rp", "pr", "r", "p"]),
             "mode": rng.choice(["assign", "assign", "augmented", "setitem", "inplace_fire"])}
        if rng.random() < 0.5:
            # a device/dtype move (a no-op conversion on this machine) on SOME object of the graph between the
            # previous read and this assignment: the model, a parameter holder, what the holder wraps, or a sibling
            # model sharing the parameter
            u["gmove"] = {"on": rng.choice(["model", "holder", "inner", "sibling"]), "name": rng.choice(present),
                          "how": rng.choice(["cpu", "to", "to_dtype"])}
        ups.append(u)
    c["updates"] = ups
    if rng.random() < 0.5:
        c["sibling"] = True
    return c


def state_at(c, k):
    """the case as it stands after the first k updates (no history)"""
    cc = {x: y for x, y in c.items() if x != "updates"}
    for u in c.get("updates", [])[:k]:
        for n, v in u["set"].items():
            cc[n] = v
    return cc


def uses_srd06(c):
    """the CLI's SRD06 spelling of mu applies: CLI route, one unbatched float64 mu (not a one-category Weibull)"""
    r = c.get("route") or {}
    return bool(r.get("kind") == "cli" and r.get("srd06") and c.get("mu") is not None and not c["batch"].get("mu")
                and regime_of(c) == "f64" and not (c["kind"] == "weibull" and c.get("K") == 1))


_REG = [False]


def register_all():
    """what torchtree.py does before reading a JSON file: import every module so that short type names resolve"""
    if not _REG[0]:
        import importlib

        from torchtree.core.utils import package_contents

        for mod in package_contents("torchtree"):
            try:
                importlib.import_module(mod)
            except Exception:
                pass
        _REG[0] = True


def state_for(c, k, out):
    """the case as it stands at step k, with every parameter at the value its object actually holds"""
    cc = state_at(c, k)
    eff = (out[3].get("effective") if len(out) > 3 else None) or {}
    for n, vals in eff.items():
        if cc.get(n) is not None and len(vals) == len(cc[n]):
            if vals != cc[n] and not (n == "mu" and uses_srd06(c)):
                cc.setdefault("_holder_mismatch", []).append(n)
            cc[n] = vals
    return cc


def expected_unsupported(c):
    """parameter-batching subsets the implementation cannot broadcast (torch.cat of tensors of
    different rank / in-place `*=` into a smaller tensor): it raises; no value is returned."""
    b = c["batch"]
    if c["kind"] == "const":
        return False
    if c["kind"] == "inv":
        return b["mu"] and not b["inv"]
    if c.get("inv") is not None and b["shape"] != b["inv"]:
        return True
    return b["mu"] and not b["shape"]


# ------------------------------------------------------------------ implementation side
def run_impl(c):
    """build the REAL model once, read rates()/probabilities(), then apply the history of parameter
    assignments, reading again after each. -> list (one entry per step, step 0 = as constructed) of
    ('ok', rates rows, probs rows) or ('raise', type, msg)"""
    import torch
    from torchtree.core.parameter import Parameter
    from torchtree.evolution.site_model import ConstantSiteModel, InvariantSiteModel, WeibullSiteModel

    pars = {}
    supplied = {}
    graph = {}
    regime = regime_of(c)
    in_dtype = {"f64": torch.float64, "f32default": torch.float64, "f32in": torch.float32, "int": torch.int64}[regime]

    def tens(name, v):
        t = torch.tensor(v, dtype=torch.float64).to(in_dtype)
        if c["batch"].get(name):
            t = t.unsqueeze(-1)
        supplied[name] = t.clone()
        return t

    holders = c.get("holder") or {}

    def par(name):
        v = c.get(name)
        if v is None:
            return None
        pars[name] = H.make(holders.get(name, "plain"), "sm." + name, tens(name, v))
        return pars[name]

    def build():
        """the object, through the construction route named by c['route']"""
        route = c.get("route") or {"kind": "ctor"}
        kind = route["kind"]
        if kind == "cli" and c["kind"] == "weibull" and c["K"] == 1:
            kind = "json"  # the CLI never emits a one-category Weibull model (it emits Constant/Invariant)
        if kind == "ctor":
            if c["kind"] == "const":
                return ConstantSiteModel("sm", par("mu"))
            if c["kind"] == "inv":
                return InvariantSiteModel("sm", par("inv"), par("mu"))
            return WeibullSiteModel("sm", par("shape"), c["K"], par("inv"), par("mu"))
        if kind == "kw":
            kw = {"id_": "sm"}
            if c.get("mu") is not None or route.get("explicit_none"):
                kw["mu"] = par("mu")
            if c["kind"] == "inv":
                kw["invariant"] = par("inv")
            if c["kind"] == "weibull":
                kw.update(parameter=par("shape"), categories=c["K"])
                if c.get("inv") is not None or route.get("explicit_none"):
                    kw["invariant"] = par("inv")
            items = list(kw.items())
            random.Random(route.get("order", 0)).shuffle(items)
            cls = {"const": ConstantSiteModel, "inv": InvariantSiteModel, "weibull": WeibullSiteModel}[c["kind"]]
            return cls(**dict(items))
        # ---- from_json routes
        from torchtree.core.utils import process_object

        register_all()
        dic = {}
        JSON_KEY = {"shape": "shape", "inv": "invariant", "mu": "mu"}

        def pjson(name):
            # the JSON names the dtype when it is not the default one
            return H.make_json(holders.get(name, "plain"), "sm." + name, tens(name, c[name]),
                               str(in_dtype) if regime != "f64" else None)

        tname = CLASS[c["kind"]]
        if kind == "cli":
            from types import SimpleNamespace

            from torchtree.cli import evolution as cli_evolution

            arg = SimpleNamespace(categories=c.get("K", 1) if c["kind"] == "weibull" else 1,
                                  invariant=c.get("inv") is not None,
                                  model="SRD06" if c.get("mu") is not None else "JC69")
            w = pjson("mu") if c.get("mu") is not None else None
            if uses_srd06(c):
                # exactly what torchtree-cli -m SRD06 emits: mu is the view "0:1" / "1:2" of the shared, transformed
                # vector srd06.mus (the case's mu value is then whatever that object holds: see `effective`)
                mus = cli_evolution.create_site_model_srd06_mus("srd06.mus")
                mus["x"]["tensor"] = list(route["srd06"]["y"])
                process_object(json.loads(json.dumps(mus)), dic)
                from torchtree.core.parameter import ViewParameter

                w = ViewParameter.json_factory("sm.mu", "srd06.mus", route["srd06"]["view"])
            data = cli_evolution.create_site_model("sm", arg, w=w)
            if data.get("type") != tname:
                raise RuntimeError(f"CLI emitted {data.get('type')} for a {tname} request")
            for name in ("shape", "inv"):
                if c.get(name) is not None:
                    keep = {k: v for k, v in data[JSON_KEY[name]].items() if k.startswith("@")}  # the CLI's constraints
                    data[JSON_KEY[name]] = dict(pjson(name), **keep)
        else:
            data = {"id": "sm", "type": ("torchtree.evolution.site_model." + tname) if route.get("fulltype") else tname}
            if c["kind"] == "weibull":
                data["categories"] = c["K"]
            for name in ("shape", "inv", "mu"):
                if c.get(name) is not None:
                    if route.get("form") == "ref":
                        process_object(pjson(name), dic)
                        data[JSON_KEY[name]] = "sm." + name
                    else:
                        data[JSON_KEY[name]] = pjson(name)
            items = list(data.items())
            random.Random(route.get("order", 0)).shuffle(items)
            data = dict(items)
        m = process_object(json.loads(json.dumps(data)), dic)
        for name in ("shape", "inv", "mu"):
            if c.get(name) is not None:
                pars[name] = dic["sm." + name]
        graph["dic"] = dic
        return m

    def observe(m):
        """what the options name must be what the object holds (attributes read defensively)"""
        bad = []
        want_inv = c.get("inv") is not None
        want_mu = c.get("mu") is not None
        if hasattr(m, "_mu") and (m._mu is not None) != want_mu:
            bad.append(f"mu {'given' if want_mu else 'absent'} but object holds mu={m._mu is not None}")
        if want_mu and getattr(m, "_mu", None) is not None and not uses_srd06(c) \
                and not torch.equal(m._mu.tensor, tens("mu", c["mu"])):
            bad.append("mu holds other values than given")
        if c["kind"] != "const":
            inv = getattr(m, "invariant", None)
            if (inv is not None) != want_inv:
                bad.append(f"invariant {'given' if want_inv else 'absent'} but object holds invariant={inv is not None}")
            elif want_inv and not torch.equal(inv, tens("inv", c["inv"])):
                bad.append("invariant holds other values than given")
        if c["kind"] == "weibull":
            if hasattr(m, "shape") and not torch.equal(m.shape, tens("shape", c["shape"])):
                bad.append("shape holds other values than given")
            if hasattr(m, "_categories") and m._categories != c["K"] + (1 if want_inv else 0):
                bad.append(f"categories={m._categories} for K={c['K']}, invariant={want_inv}")
        return bad

    def read(m, order):
        r = p = None
        for ch in order:
            if ch == "r":
                r = m.rates()
            else:
                p = m.probabilities()
        if r is None:
            r = m.rates()
        if p is None:
            p = m.probabilities()
        if not isinstance(r, torch.Tensor) or not isinstance(p, torch.Tensor) or r.dim() < 1 or p.dim() < 1:
            return ("raise", "TypeError", f"rates()/probabilities() returned {type(r).__name__}/{type(p).__name__}")
        meta = {"rates_dtype": str(r.dtype), "probs_dtype": str(p.dtype),
                # the values the parameter objects hold right now (what the options name, read back)
                "effective": {n: par_.tensor.detach().double().reshape(-1).tolist() for n, par_ in pars.items()}}
        # the same call twice gives the same answer
        r2, p2 = m.rates(), m.probabilities()
        if not (torch.equal(torch.nan_to_num(r), torch.nan_to_num(r2)) and torch.equal(torch.nan_to_num(p), torch.nan_to_num(p2))):
            meta["not_repeatable"] = True
        # nothing handed in was modified
        mutated = [n for n, par_ in pars.items() if n in supplied and not (n == "mu" and uses_srd06(c)) and
                   (par_.tensor.shape != supplied[n].shape or not torch.equal(par_.tensor, supplied[n]))]
        if mutated:
            meta["mutated_inputs"] = mutated
        return ("ok", r.detach().double().reshape(-1, r.shape[-1]).tolist(),
                p.detach().double().reshape(-1, p.shape[-1]).tolist(), meta)

    def assign(holder, t, mode):
        """the ways a user changes a parameter: a new tensor; augmented assignment on the property (`p.tensor *= 0;
        p.tensor += t` hands the SAME tensor object back to the setter); item assignment followed by
        `p.tensor = p.tensor`; in-place copy followed by fire_parameter_changed()"""
        plain = type(holder).__name__ == "Parameter"
        if mode == "assign" or not plain or not t.is_floating_point() or holder.tensor.shape != t.shape \
                or holder.tensor.dtype != t.dtype:
            holder.tensor = t
        elif mode == "augmented":
            holder.tensor *= 0.0
            holder.tensor += t
        elif mode == "setitem":
            holder.tensor[...] = t
            holder.tensor = holder.tensor
        else:
            holder.tensor.copy_(t)
            holder.fire_parameter_changed()

    def do_move(obj, how):
        if how == "cpu":
            obj.cpu()
        elif how == "to":
            obj.to(torch.device("cpu"))
        else:
            obj.to(in_dtype if in_dtype.is_floating_point else torch.float64)

    def inner_of(holder):
        """what a holder wraps: x of a TransformedParameter, the shared vector of a view, the pieces of a cat"""
        for attr in ("x", "parameter"):
            if hasattr(holder, attr) and hasattr(getattr(holder, attr), "fire_parameter_changed"):
                return [getattr(holder, attr)]
        cont = getattr(holder, "_parameter_container", None)
        if cont is not None:
            try:
                return list(cont.params())
            except Exception:
                return []
        return []

    def graph_move(m, gm):
        name = gm["name"] if gm.get("name") in pars else (sorted(pars)[0] if pars else None)
        on = gm["on"]
        if on == "model" or name is None:
            do_move(m, gm["how"])
        elif on == "holder":
            do_move(pars[name], gm["how"])
        elif on == "inner":
            targets = inner_of(pars[name])
            if uses_srd06(c) and name == "mu" and graph.get("dic"):
                targets = [graph["dic"]["srd06.mus"]]
            for t_ in targets or [pars[name]]:
                do_move(t_, gm["how"])
        elif on == "sibling":
            sib = graph.get("sibling")
            do_move(sib if sib is not None else m, gm["how"])

    def move(m):
        if c.get("move") == "cpu":
            m.cpu()
        elif c.get("move") == "to":
            m.to(torch.device("cpu"))

    outs = []
    old_default = torch.get_default_dtype()
    old_grad = torch.is_grad_enabled()
    torch.set_default_dtype(torch.float32 if regime == "f32default" else torch.float64)
    torch.set_grad_enabled(c.get("grad") != "no_grad")
    try:
        try:
            m = build()
            OBSERVED[:] = observe(m)
            if c.get("sibling") and pars:
                # a second model sharing a parameter object with the one under test
                share = "mu" if "mu" in pars else sorted(pars)[0]
                graph["sibling"] = ConstantSiteModel("sib", pars[share]) if share == "mu" else \
                    InvariantSiteModel("sib", pars[share] if share == "inv" else Parameter("sib.p", torch.tensor([0.5])),
                                       None) if share == "inv" else WeibullSiteModel("sib", pars[share], 3)
            if c.get("grad") == "requires_grad":
                for par_ in pars.values():
                    if par_.tensor.is_floating_point():
                        try:
                            par_.requires_grad = True
                        except Exception:
                            # a view cannot be made a leaf: the vector it views is
                            getattr(par_, "parameter", par_).requires_grad = True
            if c.get("move"):
                move(m)  # a device move before the first evaluation
            outs.append(read(m, "rp"))
        except Exception as e:  # the implementation raised: an outcome to be judged, not a harness crash
            OBSERVED[:] = []
            return [("raise", type(e).__name__, str(e)[:200])]
        original = None
        if c.get("deepcopy") and c.get("updates"):
            # the history is applied to a deep copy; the original must keep answering as before
            try:
                original = (m, outs[0])
                m, pars = copy.deepcopy((m, pars))
            except Exception as e:
                outs.append(("raise", type(e).__name__, "deepcopy: " + str(e)[:180]))
                return outs
        for i, u in enumerate(c.get("updates", [])):
            try:
                if u.get("gmove"):
                    graph_move(m, u["gmove"])
                for name, v in u["set"].items():
                    if name == "mu" and uses_srd06(c):
                        continue  # the shared SRD06 vector is not reassigned through its view
                    if u.get("via") == "inner" and hasattr(pars[name], "x") and hasattr(pars[name], "transform"):
                        pars[name].x.tensor = pars[name].transform.inv(tens(name, v))  # the wrapped parameter itself
                    else:
                        assign(pars[name], tens(name, v), u.get("mode", "assign") if c.get("grad") != "requires_grad" else "assign")
                if u.get("srd06_y") and uses_srd06(c) and graph.get("dic"):
                    # the CLI layout: the simplex srd06.mu under the ConvexCombinationTransform is what moves
                    graph["dic"]["srd06.mu"].tensor = torch.tensor(u["srd06_y"], dtype=torch.float64)
                if c.get("move") and i % 2 == 0:
                    move(m)
                outs.append(read(m, u.get("order", "rp")))
            except Exception as e:
                outs.append(("raise", type(e).__name__, str(e)[:200]))
                break
        if original is not None and outs[-1][0] == "ok":
            again = read(original[0], "rp")
            if again[0] != "ok" or again[1] != original[1][1] or again[2] != original[1][2]:
                outs[-1][3]["original_changed_by_updates_on_its_deepcopy"] = True
        return outs
    finally:
        torch.set_default_dtype(old_default)
        torch.set_grad_enabled(old_grad)


def slice_params(c, s):
    def g(name):
        v = c.get(name)
        if v is None:
            return None
        return v[s] if c["batch"].get(name) else v[0]

    return {"shape": g("shape"), "inv": g("inv"), "mu": g("mu")}


def weibull_spec(K, shape, inv, mu):
    """the mechanism the property names, written independently: rates proportional to the Weibull quantile function at
    the median quantiles (2i+1)/(2K), scaled so that the probability-weighted mean is 1 (or mu)"""
    raw = [(-math.log(1.0 - (2 * i + 1) / (2.0 * K))) ** (1.0 / shape) for i in range(K)]
    w = (1.0 - (inv or 0.0)) / K
    tot = math.fsum(x * w for x in raw)
    r = [x / tot * (1.0 if mu is None else mu) for x in raw]
    return ([0.0] + r) if inv is not None else r


def oracle(c, rates, probs, meta=None):
    """the property's own identities on the implementation's output. -> list of (name, detail)"""
    bad = []
    S = c["S"]
    TOL, PSUM_TOL = REGIME_TOL[regime_of(c)]
    if meta:
        want = "torch.float32" if regime_of(c) == "f32in" else "torch.float64"
        if regime_of(c) == "int":
            want = meta.get("rates_dtype") if c["kind"] == "const" else "torch.float64"
            meta = dict(meta, probs_dtype=want if c["kind"] == "const" else meta.get("probs_dtype"))
        if c["kind"] == "const" and c.get("mu") is None:
            # no input at all: the single rate and its probability are created in the default dtype
            want = "torch.float32" if regime_of(c) == "f32default" else "torch.float64"
        if meta.get("rates_dtype") != want or meta.get("probs_dtype") != want:
            bad.append(("result_dtype", {"regime": regime_of(c), "rates": meta.get("rates_dtype"),
                                         "probs": meta.get("probs_dtype"), "expected": want}))
        for key in ("not_repeatable", "mutated_inputs", "original_changed_by_updates_on_its_deepcopy"):
            if meta.get(key):
                bad.append((key, {"value": meta[key]}))
    for s in range(S):
        q = slice_params(c, s)
        r = rates[s] if len(rates) > 1 else rates[0]
        p = probs[s] if len(probs) > 1 else probs[0]
        if len(rates) not in (1, S) or len(probs) not in (1, S) or len(r) != len(p):
            bad.append(("shape", {"rates_rows": len(rates), "probs_rows": len(probs), "S": S}))
            break
        if not all(math.isfinite(x) for x in r + p):
            bad.append(("finite", {"slice": s, "rates": r, "probs": p}))
            continue
        if any(x < 0 for x in p):
            bad.append(("probs_nonneg", {"slice": s, "probs": p}))
        if abs(sum(p) - 1.0) > PSUM_TOL:
            bad.append(("probs_sum_one", {"slice": s, "sum": sum(p)}))
        if any(x < 0 for x in r):
            bad.append(("rates_nonneg", {"slice": s, "rates": r}))
        if q["inv"] is not None:
            if r[0] != 0.0 or p[0] != q["inv"]:
                bad.append(("invariant_rate_zero_prob_p", {"slice": s, "rate0": r[0], "prob0": p[0], "p": q["inv"]}))
        target = 1.0 if q["mu"] is None else q["mu"]
        mean = math.fsum(a * b for a, b in zip(p, r))
        if abs(mean - target) > TOL * max(abs(target), 1e-300):
            bad.append(("mean_rate", {"slice": s, "mean": mean, "target": target}))
        if c["kind"] == "weibull":
            spec = weibull_spec(c["K"], q["shape"], q["inv"], q["mu"])
            dev = max((abs(a - b) / max(abs(b), 1e-300) for a, b in zip(r, spec) if b != 0.0), default=0.0)
            if len(spec) != len(r) or dev > 10 * TOL:
                bad.append(("rates_are_median_quantiles", {"slice": s, "max_rel_dev": dev, "rates": r, "spec": spec}))
    return bad


# ------------------------------------------------------------------ model side
def opt(x):
    return "-" if x is None else f2h(x)


def model_request(c, s):
    q = slice_params(c, s)
    if c["kind"] == "const":
        return f"const {opt(q['mu'])}"
    if c["kind"] == "inv":
        return f"inv {f2h(q['inv'])} {opt(q['mu'])}"
    return f"weibull {c['K']} {f2h(q['shape'])} {opt(q['inv'])} {opt(q['mu'])}"


def parse_model(rep):
    w = rep.split()
    n = int(w[0])
    vals = [h2f(x) for x in w[1:]]
    return n, vals[:n], vals[n : 2 * n], vals[2 * n], vals[2 * n + 1]


def close(a, b, exact, tol=TOL):
    if exact:
        return a == b
    return a == b or abs(a - b) <= tol * max(abs(a), abs(b))


def compare(ck, drv, c, rates, probs, step=0, whole=None):
    reqs = [model_request(c, s) for s in range(c["S"])]
    reps = drv.ask_many(reqs)
    tag = {"step": step, "history": whole.get("updates")} if whole is not None and whole.get("updates") else {}
    for s, rep in enumerate(reps):
        if rep == "bad-op":
            ck.mismatch("driver refused request", {"case": c, "request": reqs[s]})
            return False
        n, mp, mr, mmean, mpsum = parse_model(rep)
        r = rates[s] if len(rates) > 1 else rates[0]
        p = probs[s] if len(probs) > 1 else probs[0]
        f32in = regime_of(c) == "f32in"
        tol = REGIME_TOL[regime_of(c)][0]
        exact_rates = c["kind"] != "weibull" and not f32in
        if len(r) != n or len(p) != n:
            ck.mismatch("category count differs", {"case": c, "slice": s, "impl": len(r), "model": n})
            return False
        if not all(close(a, b, not f32in, tol) for a, b in zip(p, mp)):
            ck.mismatch("probabilities differ", {**tag, "case": c, "slice": s, "impl": p, "model": mp})
            return False
        if not all(close(a, b, exact_rates, tol) for a, b in zip(r, mr)):
            ck.mismatch("rates differ", {**tag, "case": c, "slice": s, "impl": r, "model": mr})
            return False
    return True


def key_of(c):
    def b(x):
        return None if x is None else tuple(round(math.log10(v) * 4) if v > 0 else -999 for v in x)

    return (c["kind"], c.get("K"), tuple(sorted(c["batch"].items())), b(c.get("shape")),
            None if c.get("inv") is None else tuple(round(v * 50) for v in c["inv"]), b(c.get("mu")))


def bucket_of(c):
    return "%s/K%s/inv=%s/mu=%s/batched=%s" % (
        c["kind"], c.get("K", "-"), c.get("inv") is not None, c.get("mu") is not None,
        "+".join(k for k, v in sorted(c["batch"].items()) if v) or "none")


def failing_steps(c, name):
    outs = run_impl(c)
    bad = []
    for k, out in enumerate(outs):
        if out[0] != "ok":
            if name == "raises":
                bad.append(k)
        elif any(n == name for n, _ in oracle(state_for(c, k, out), out[1], out[2], out[3] if len(out) > 3 else None)):
            bad.append(k)
    return bad


def shrink(c, name):
    """smallest variant of a failing case that still fails oracle `name`"""
    def fails(cc):
        return bool(failing_steps(cc, name))

    best = c
    if c.get("updates"):
        k = min(failing_steps(c, name) or [0])
        best = dict(c, updates=c["updates"][:k])
        if k == 0:
            best = state_at(c, 0)
        else:
            # drop earlier assignments that are not needed
            for i in range(k - 2, -1, -1):
                cc = dict(best, updates=best["updates"][:i] + best["updates"][i + 1:])
                if fails(cc):
                    best = cc
            return best
    c = best
    # single slice
    for s in range(c["S"]):
        q = slice_params(c, s)
        cc = {"kind": c["kind"], "S": 1, "batch": {k: False for k in c["batch"]}}
        for k in ("shape", "inv", "mu"):
            if c.get(k) is not None:
                cc[k] = [q[k]]
            elif k in c:
                cc[k] = None
        if "K" in c:
            cc["K"] = c["K"]
        if fails(cc):
            best = cc
            break
    if best.get("mu") is not None:
        cc = dict(best, mu=None)
        if fails(cc):
            best = cc
    if "K" in best:
        for k in range(1, best["K"]):
            cc = dict(best, K=k)
            if fails(cc):
                best = cc
                break
    return best


def scan_constructors(rels):
    """tensor constructors in the anchored files that name no dtype (they follow the default dtype, not the inputs)"""
    import ast

    out = []
    names = {"tensor", "zeros", "ones", "full", "eye", "arange", "empty", "linspace", "rand", "randn"}
    for rel in rels:
        try:
            tree = ast.parse((REPO / rel).read_text())
        except Exception as e:
            out.append(f"{rel}: unreadable ({e})")
            continue
        for node in ast.walk(tree):
            if isinstance(node, ast.Call) and isinstance(node.func, ast.Attribute) and node.func.attr in names \
                    and isinstance(node.func.value, ast.Name) and node.func.value.id == "torch" \
                    and not any(kw.arg == "dtype" for kw in node.keywords):
                out.append(f"{rel}:{node.lineno} torch.{node.func.attr}")
    return sorted(out)


def load_corpus():
    d = VERIF / "corpus" / "C05"
    out = []
    if d.is_dir():
        for f in sorted(d.glob("*.json")):
            try:
                out.append(json.loads(f.read_text())["case"])
            except Exception:
                pass
    return out


def run(ck: Check):
    use_repo()
    import torch

    torch.set_num_threads(2)
    torch.set_default_dtype(torch.float64)
    ck.rule = (
        "one case = one site model (class, K, shape, invariant proportion, mu, which parameters carry a sample "
        "dimension) built from the REAL classes; rates()/probabilities() compared per slice with the Lean model "
        "run at Float and checked against the property's identities; distinct = distinct (class, K, batching "
        "pattern, quantised parameter values); non-trivial = every case (each has >= 1 category and real parameters)"
    )
    ck.assumptions += [
        "float64 parameters with torch default dtype float64 (as the torchtree CLI sets it); under a float32 default "
        "the quantiles are rounded to float32 before log/pow (the normalisation identity is unaffected)",
        "theorems are over exact fields / the reals; IEEE rounding is covered by the correspondence (bit-exact where "
        "only single operations are involved, rel 1e-10 through log/pow) and by evaluating the identities on the "
        "implementation (rel 1e-10 for the mean rate, 1e-12 for the probability sum)",
        "parameter subsets whose batching the implementation cannot broadcast (e.g. batched shape with an unbatched "
        "invariant proportion) raise inside torch.cat / in-place multiply; no value is returned, nothing to compare",
    ]
    ck.trusted += ["torch.log, torch.pow, torch.cat, sum, broadcasting (modelled, not verified)",
                   "libm exp/log/pow behind Lean Float (used to run the model only)"]
    opt_src, opt_ok, opt_note, _ = tr_options.translate(REPO, "C05")
    if not opt_ok:
        ck.notes.append("options translator: " + opt_note)
    ck.extra["options_translator_recognised_source"] = opt_ok
    ok, broken = ck.lean_side({"TTGen/C05Options.lean": opt_src},
                              ["TTModel.C05_SiteModel", "TTGen.C05Options", "TTProofs.Props.C05", "drv_c05"],
                              "TTProofs/Props/C05.lean")
    ck.extra["tensor_constructors_without_dtype"] = scan_constructors(["torchtree/evolution/site_model.py"])
    drv = None
    try:
        drv = ck.driver("drv_c05")
    except Exception as e:
        ck.notes.append(f"driver unavailable: {e}")

    n_cases = 4000 if ck.thorough() else 700
    cases = [(c, "corpus") for c in load_corpus()]
    # systematic grid first: every K, with/without invariant and mu, unbatched and fully batched
    for K in range(1, 17):
        for has_inv in (False, True):
            for has_mu in (False, True):
                for batched in (False, True):
                    c = gen_case(ck.rng, "weibull")
                    for key in ("updates", "deepcopy", "move"):
                        c.pop(key, None)
                    c["regime"] = "f64"
                    S = 3 if batched else 1
                    c.update(K=K, S=S, shape=[10 ** ck.rng.uniform(-2, 2) for _ in range(S)],
                             inv=[ck.rng.random() for _ in range(S)] if has_inv else None,
                             mu=[10 ** ck.rng.uniform(-3, 3) for _ in range(S)] if has_mu else None,
                             batch={"shape": batched, "inv": batched and has_inv, "mu": batched and has_mu})
                    cases.append((c, "grid"))
    for shape in (1e-2, 1e2):
        for K in (1, 4, 16):
            for inv in (None, [0.0], [0.999]):
                cases.append(({"kind": "weibull", "S": 1, "K": K, "shape": [shape], "inv": inv, "mu": None,
                               "batch": {"shape": False, "inv": False, "mu": False}}, "extreme"))
    # live objects: every class x invariant x mu x (unbatched / batched): assign each parameter alone, then all
    for kind in ("const", "inv", "weibull"):
        for has_inv in ((False, True) if kind == "weibull" else (kind == "inv",)):
            for has_mu in (False, True):
                for batched in (False, True):
                    for order in ("rp", "pr"):
                        S = 3 if batched else 1
                        g = _gens(ck.rng)
                        c = {"kind": kind, "S": S}
                        if kind == "weibull":
                            c.update(K=ck.rng.randint(1, 8), shape=[g["shape"]() for _ in range(S)])
                        if kind != "const":
                            c["inv"] = [g["inv"]() for _ in range(S)] if has_inv else None
                        c["mu"] = [g["mu"]() for _ in range(S)] if has_mu else None
                        c["batch"] = {n: batched and c.get(n) is not None for n in ("shape", "inv", "mu") if n in c}
                        present = [n for n in ("shape", "inv", "mu") if c.get(n) is not None]
                        if not present:
                            continue
                        ups = []
                        for n in present + [None]:
                            which = [n] if n else present
                            ups.append({"set": {w: [g[w]() for _ in range(S)] for w in which}, "order": order,
                                        "mode": ("assign", "augmented", "setitem", "inplace_fire")[len(ups) % 4]})
                        ck.rng.shuffle(ups)
                        c["updates"] = ups
                        cases.append((c, "hgrid"))
    # construction routes: every class x every subset of the optional keys x every route (two key orders)
    for kind in ("const", "inv", "weibull"):
        for has_inv in ((False, True) if kind == "weibull" else (kind == "inv",)):
            for has_mu in (False, True):
                for rkind, extra in (("kw", {"explicit_none": False}), ("kw", {"explicit_none": True}),
                                     ("json", {"form": "inline", "fulltype": False}),
                                     ("json", {"form": "ref", "fulltype": True}), ("cli", {})):
                    for order in (0, 1):
                        g = _gens(ck.rng)
                        c = {"kind": kind, "S": 1}
                        if kind == "weibull":
                            c.update(K=ck.rng.randint(1, 8), shape=[g["shape"]()])
                        if kind != "const":
                            c["inv"] = [g["inv"]()] if has_inv else None
                        c["mu"] = [g["mu"]()] if has_mu else None
                        c["batch"] = {n: False for n in ("shape", "inv", "mu") if n in c}
                        c["route"] = dict(kind=rkind, order=ck.rng.randrange(1000), **extra)
                        if order and any(c.get(n) is not None for n in ("shape", "inv", "mu")):
                            add_updates(ck.rng, c, 2)
                        cases.append((c, "routes"))
    # every parameter argument as every AbstractParameter subclass (plain, view of a shared vector, transformed, cat),
    # python objects and JSON; and the exact JSON torchtree-cli -m SRD06 emits (mu = view of the transformed srd06.mus)
    for kind in ("const", "inv", "weibull"):
        names = {"const": ["mu"], "inv": ["inv", "mu"], "weibull": ["shape", "inv", "mu"]}[kind]
        for target in names:
            for hk in H.KINDS[1:]:
                for rk in ("ctor", "json"):
                    for batched in (False, True):
                        g = _gens(ck.rng)
                        S = 3 if batched else 1
                        c = {"kind": kind, "S": S, "regime": "f64"}
                        if kind == "weibull":
                            c.update(K=ck.rng.randint(2, 6), shape=[g["shape"]() for _ in range(S)])
                        if kind != "const":
                            c["inv"] = [g["inv"]() for _ in range(S)]
                        c["mu"] = [g["mu"]() for _ in range(S)]
                        c["batch"] = {n: batched for n in names}
                        c["holder"] = {n: (hk if n == target else "plain") for n in names}
                        c["route"] = {"kind": rk, "order": ck.rng.randrange(1000), "form": "inline", "fulltype": False}
                        add_updates(ck.rng, c, 3, names=[target])
                        c["sibling"] = True
                        for u, on in zip(c["updates"], ck.rng.sample(["inner", "holder", "sibling", "model"], 3)):
                            u["gmove"] = {"on": on, "name": target, "how": ck.rng.choice(["cpu", "to", "to_dtype"])}
                            u["via"] = ck.rng.choice(["holder", "inner"])
                        cases.append((c, "holders"))
    for kind, K in (("const", None), ("inv", None), ("weibull", 4)):
        for view in ("0:1", "1:2"):
            y = ck.rng.uniform(0.1, 0.9)
            g = _gens(ck.rng)
            c = {"kind": kind, "S": 1, "regime": "f64", "mu": [1.0],
                 "route": {"kind": "cli", "order": 0, "srd06": {"y": [y, 1.0 - y], "view": view}}}
            if kind == "weibull":
                c.update(K=K, shape=[g["shape"]()], inv=[g["inv"]()])
            if kind == "inv":
                c["inv"] = [g["inv"]()]
            c["batch"] = {n: False for n in ("shape", "inv", "mu") if n in c}
            c["sibling"] = True
            # read -> a (no-op) move somewhere in the graph -> the simplex under the transform moves -> read
            ups = []
            for on in ("inner", "holder", "model", "sibling"):
                y2 = ck.rng.uniform(0.1, 0.9)
                ups.append({"set": {}, "srd06_y": [y2, 1.0 - y2], "order": ck.rng.choice(["rp", "pr"]),
                            "gmove": {"on": on, "name": "mu", "how": ck.rng.choice(["cpu", "to", "to_dtype"])}})
            ck.rng.shuffle(ups)
            c["updates"] = ups
            cases.append((c, "srd06"))
    # integer-typed parameter tensors (accepted by the API): the values are those of the same floats
    for K in (1, 3, 4):
        for shape in (1, 2):
            for inv in (None, [0]):
                for mu in (None, [3]):
                    cases.append(({"kind": "weibull", "S": 1, "K": K, "shape": [float(shape)],
                                   "inv": None if inv is None else [0.0], "mu": None if mu is None else [3.0],
                                   "batch": {"shape": False, "inv": False, "mu": False}, "regime": "int",
                                   "route": {"kind": "ctor"}}, "int"))
    cases.append(({"kind": "const", "S": 1, "mu": [3.0], "batch": {"mu": False}, "regime": "int",
                   "route": {"kind": "ctor"}}, "int"))
    cases.append(({"kind": "inv", "S": 1, "inv": [0.0], "mu": [2.0], "batch": {"inv": False, "mu": False},
                   "regime": "int", "route": {"kind": "kw", "order": 1}}, "int"))
    # sample count equal to the number of categories (K, K+1), ONE row holding a special value (p = 0, mu = 1,
    # shape = 1) while the others do not: every row against the model
    for K in (2, 3, 5):
        for has_inv in (False, True):
            S = K + (1 if has_inv else 0)
            for special in ("shape", "inv", "mu"):
                if special == "inv" and not has_inv:
                    continue
                g = _gens(ck.rng)
                c = {"kind": "weibull", "K": K, "S": S, "shape": [10 ** ck.rng.uniform(-1.5, 1.5) for _ in range(S)],
                     "inv": [ck.rng.uniform(0.05, 0.9) for _ in range(S)] if has_inv else None,
                     "mu": [10 ** ck.rng.uniform(-2, 2) for _ in range(S)],
                     "batch": {"shape": True, "inv": has_inv, "mu": True}, "regime": "f64", "route": {"kind": "ctor"}}
                row = ck.rng.randrange(S)
                c[special][row] = {"shape": 1.0, "inv": 0.0, "mu": 1.0}[special]
                cases.append((c, "special-row"))
    while len(cases) < n_cases:
        cases.append((gen_case(ck.rng), "random"))

    failures = []  # (case, oracle name, detail)
    unexpected = 0

    gradcount = [0]

    def explore(c, origin, with_model=True):
        # anything unexpected read from the implementation is a recorded mismatch, never a harness crash
        try:
            _explore(c, origin, with_model)
        except Exception as e:
            ck.mismatch("harness could not interpret the implementation's output", {"case": c, "error": repr(e)[:300]})

    def _explore(c, origin, with_model=True):
        nonlocal unexpected
        outs = run_impl(c)
        unsupported = expected_unsupported(c)
        rk = (c.get("route") or {"kind": "ctor"})["kind"]
        ck.bucket("route=" + rk)
        if OBSERVED and outs[0][0] == "ok":
            ck.mismatch("object built through this route does not hold the options it was given",
                        {"case": c, "observed": list(OBSERVED)})
        if outs[0][0] == "ok" and gradcount[0] % 3 == 0:
            # evaluation under no_grad / with leaves requiring grad must agree bitwise with the plain one
            for mode in ("no_grad", "requires_grad"):
                # (deepcopy of an object holding graph tensors is a torch limitation: not combined)
                cc = dict(c, grad=mode, deepcopy=False)
                want = outs
                if mode == "requires_grad" and "view" in (c.get("holder") or {}).values():
                    # assigning through a view writes in place into the shared leaf, which torch forbids once that
                    # leaf requires grad (ViewParameter's business, not the site model's): first evaluation only
                    cc["updates"], want = [], outs[:1]
                alt = run_impl(cc)
                if [o[:3] for o in alt] != [o[:3] for o in want]:
                    ck.mismatch("evaluation differs under grad mode " + mode, {"case": c})
                    failures.append((dict(c, grad=mode), "grad_mode_changes_values", {"mode": mode}))
        gradcount[0] += 1
        if rk != "ctor" and outs[0][0] == "ok":
            base = {x: y for x, y in state_for(c, 0, outs[0]).items() if x not in ("route", "updates", "holder")}
            ref = run_impl(base)[0]
            if ref[0] != "ok" or ref[1] != outs[0][1] or ref[2] != outs[0][2]:
                ck.mismatch("object built through this route evaluates differently from the constructor-built one",
                            {"case": c, "route_built": outs[0][1:], "constructor_built": ref[1:]})
        for k, out in enumerate(outs):
            ck_ = state_for(c, k, out) if out[0] == "ok" else state_at(c, k)
            if ck_.pop("_holder_mismatch", None):
                ck.mismatch("a parameter object does not hold the values it was given", {"case": c, "step": k})
            hist = "/update:" + "+".join(sorted(c["updates"][k - 1]["set"])) if k else ""
            ck.case(key=key_of(ck_) + (k,), bucket=bucket_of(c) + hist + ("/raises" if out[0] == "raise" else ""),
                    sample={"case": c, "step": k, "impl": "raises " + out[1] if out[0] == "raise" else
                            {"rates": out[1][0], "probs": out[2][0]}} if origin not in ("grid", "hgrid") or k else None)
            if out[0] == "raise":
                if not unsupported:
                    unexpected += 1
                    ck.mismatch("implementation raised on a supported parameter set", {"case": c, "step": k, "error": out[1:]})
                    failures.append((c, "raises", {"step": k, "error": out[1:]}))
                return
            for name, detail in oracle(ck_, out[1], out[2], out[3] if len(out) > 3 else None):
                failures.append((c, name, dict(detail, step=k)))
            if with_model and drv is not None:
                compare(ck, drv, ck_, out[1], out[2], step=k, whole=c)

    for c, origin in cases:
        explore(c, origin)
    # ---- search: when anything on the Lean side or in the correspondence broke, widen the sweep of the
    # property's identities on the implementation
    if (not ok or ck.mismatches) and not failures:
        for _ in range(6000 if ck.thorough() else 2500):
            explore(gen_case(ck.rng), "search", with_model=False)
            if failures:
                break
    if drv:
        drv.close()
    ck.extra["unexpected_raises"] = unexpected

    if failures:
        seen = set()
        for c, name, detail in failures:
            sig = f"{CLASS[c['kind']]}:{name}"
            if sig in seen:
                continue
            seen.add(sig)
            small = shrink(c, name)
            outs = run_impl(small)
            k = len(outs) - 1
            out = outs[k]
            det = oracle(state_for(small, k, out), out[1], out[2], out[3] if len(out) > 3 else None) if out[0] == "ok" else [("raises", out[1:])]
            det = [d for d in det if d[0] == name] or det
            after = f" after {len(small.get('updates', []))} parameter assignment(s) on a live object" if small.get("updates") else ""
            ck.violation(sig, f"{CLASS[c['kind']]} violates {name}{after}: {json.dumps(det[:1], default=str)[:300]}",
                         {"case": small, "original_case": c, "detail": det[:3], "broken_obligations": broken,
                          "replay_cmd": "./check C05 --replay <this file>"})
    elif not ok or ck.mismatches:
        ck.violation("site_model:unproved",
                     "C05 theorems or the model/implementation correspondence no longer check",
                     {"broken_obligations": broken, "mismatches": ck.mismatches[:5]}, found_input=False)


def replay(path: str) -> int:
    use_repo()
    import torch

    torch.set_num_threads(2)
    torch.set_default_dtype(torch.float64)
    obj = json.loads(Path(path).read_text())
    c = obj.get("case")
    if not c:
        print("replay names broken obligations only:", obj.get("broken_obligations"), obj.get("mismatches"))
        return 1
    outs = run_impl(c)
    print("case:", json.dumps(c))
    rc = 0
    for k, out in enumerate(outs):
        print(f"-- step {k}" + (f": after assigning {c['updates'][k - 1]['set']}" if k else ": as constructed"))
        if out[0] == "raise":
            print("implementation raises:", out[1:])
            return 1
        print("rates:", out[1])
        print("probabilities:", out[2])
        bad = oracle(state_for(c, k, out), out[1], out[2], out[3] if len(out) > 3 else None)
        for name, detail in bad:
            print("VIOLATES", name, detail)
            rc = 1
        if not bad:
            print("all identities hold")
    return rc
