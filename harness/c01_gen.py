"""Generators, JSON spec builder, independent brute-force oracle and Lean bridge shared by the
C01 and C02 checks.  Nothing here uses dendropy or torchtree's traversal code: trees are parsed and
written by the small parser below, node numbering is recomputed from the documented convention
(leaf = position in Taxa, internal = n + post-order rank), so that the oracle is independent of
the implementation under check.
"""
from __future__ import annotations

import itertools
import math
from fractions import Fraction

import numpy as np

from common import f2h, h2f

NUC18 = "ACGTUKMRSWYBDHVN?-"
AA_ALL = "ACDEFGHIKLMNPQRSTVWYBZXJOU*?-"
IUPAC = {  # written independently of datatype.py
    "A": "A", "C": "C", "G": "G", "T": "T", "U": "T",
    "R": "AG", "Y": "CT", "M": "AC", "W": "AT", "S": "CG", "K": "GT",
    "B": "CGT", "D": "AGT", "H": "ACT", "V": "ACG", "N": "ACGT", "?": "ACGT", "-": "ACGT",
}
AA20 = "ACDEFGHIKLMNPQRSTVWY"
AA_AMBIG = {"B": "DN", "Z": "EQ"}
UNIVERSAL = "KNKNTTTTRSRSIIMIQHQHPPPPRRRRLLLLEDEDAAAAGGGGVVVV*Y*YSSSS*CWCLFLF"  # AAA,AAC,AAG,AAT,ACA,...
# NCBI translation tables in NCBI's own presentation (first base T,C,A,G; second T,C,A,G; third T,C,A,G), written
# independently of datatype.py (which lists them in A,C,G,T order, after BEAST)
NCBI = {
    1: "FFLLSSSSYY**CC*WLLLLPPPPHHQQRRRRIIIMTTTTNNKKSSRRVVVVAAAADDEEGGGG",
    2: "FFLLSSSSYY**CCWWLLLLPPPPHHQQRRRRIIMMTTTTNNKKSS**VVVVAAAADDEEGGGG",
    3: "FFLLSSSSYY**CCWWTTTTPPPPHHQQRRRRIIMMTTTTNNKKSSRRVVVVAAAADDEEGGGG",
    4: "FFLLSSSSYY**CCWWLLLLPPPPHHQQRRRRIIIMTTTTNNKKSSRRVVVVAAAADDEEGGGG",
    5: "FFLLSSSSYY**CCWWLLLLPPPPHHQQRRRRIIMMTTTTNNKKSSSSVVVVAAAADDEEGGGG",
    6: "FFLLSSSSYYQQCC*WLLLLPPPPHHQQRRRRIIIMTTTTNNKKSSRRVVVVAAAADDEEGGGG",
    9: "FFLLSSSSYY**CCWWLLLLPPPPHHQQRRRRIIIMTTTTNNNKSSSSVVVVAAAADDEEGGGG",
    10: "FFLLSSSSYY**CCCWLLLLPPPPHHQQRRRRIIIMTTTTNNKKSSRRVVVVAAAADDEEGGGG",
    11: "FFLLSSSSYY**CC*WLLLLPPPPHHQQRRRRIIIMTTTTNNKKSSRRVVVVAAAADDEEGGGG",
    12: "FFLLSSSSYY**CC*WLLLSPPPPHHQQRRRRIIIMTTTTNNKKSSRRVVVVAAAADDEEGGGG",
    13: "FFLLSSSSYY**CCWWLLLLPPPPHHQQRRRRIIMMTTTTNNKKSSGGVVVVAAAADDEEGGGG",
    14: "FFLLSSSSYYY*CCWWLLLLPPPPHHQQRRRRIIIMTTTTNNNKSSSSVVVVAAAADDEEGGGG",
    15: "FFLLSSSSYY*QCC*WLLLLPPPPHHQQRRRRIIIMTTTTNNKKSSRRVVVVAAAADDEEGGGG",
}
# the genetic codes torchtree ships, by name, with the NCBI table each one is (None: no NCBI counterpart, no stops)
GENETIC_CODES = [("Universal", 1), ("Vertebrate Mitochondrial", 2), ("Yeast", 3), ("Mold Protozoan Mitochondrial", 4),
                 ("Mycoplasma", 4), ("Invertebrate Mitochondrial", 5), ("Ciliate", 6), ("Echinoderm Mitochondrial", 9),
                 ("Euplotid Nuclear", 10), ("Bacterial", 11), ("Alternative Yeast", 12), ("Ascidian Mitochondrial", 13),
                 ("Flatworm Mitochondrial", 14), ("Blepharisma Nuclear", 15), ("No stops", None)]


def ncbi_aa(table_id, triplet):
    """amino acid (or '*') of a triplet over ACGT under an NCBI table"""
    if table_id is None:
        return "X"
    o = "TCAG"
    return NCBI[table_id][o.index(triplet[0]) * 16 + o.index(triplet[1]) * 4 + o.index(triplet[2])]


# ----------------------------------------------------------------------------- trees
class Node:
    __slots__ = ("name", "kids", "length", "height", "index", "rate")

    def __init__(self, name=None, kids=None, length=None):
        self.name = name
        self.kids = kids or []
        self.length = length
        self.height = None
        self.index = None
        self.rate = None

    def is_leaf(self):
        return not self.kids

    def leaves(self):
        if self.is_leaf():
            return [self]
        return [x for k in self.kids for x in k.leaves()]

    def postorder(self):
        for k in self.kids:
            yield from k.postorder()
        yield self

    def preorder(self):
        yield self
        for k in self.kids:
            yield from k.preorder()

    def copy(self):
        n = Node(self.name, [k.copy() for k in self.kids], self.length)
        n.height = self.height
        n.rate = self.rate
        return n


def parse_newick(s: str) -> Node:
    s = s.strip()
    assert s.endswith(";")
    pos = [0]

    def node():
        n = Node()
        if s[pos[0]] == "(":
            pos[0] += 1
            n.kids.append(node())
            while s[pos[0]] == ",":
                pos[0] += 1
                n.kids.append(node())
            assert s[pos[0]] == ")"
            pos[0] += 1
        j = pos[0]
        while s[j] not in ",():;":
            j += 1
        if j > pos[0]:
            n.name = s[pos[0]:j]
        pos[0] = j
        if s[j] == ":":
            j += 1
            k = j
            while s[k] not in ",();":
                k += 1
            n.length = float(s[j:k])
            pos[0] = k
        return n

    t = node()
    assert s[pos[0]] == ";"
    return t


def fmt_len(x: float) -> str:
    return repr(float(x))


def newick(n: Node, lengths=True) -> str:
    def w(x):
        s = "(" + ",".join(w(k) for k in x.kids) + ")" if x.kids else x.name
        if lengths and x.length is not None:
            s += ":" + fmt_len(x.length)
        return s

    return w(n) + ";"


def tokens(n: Node) -> str:
    if n.is_leaf():
        return n.name
    return "( " + " ".join(tokens(k) for k in n.kids) + " )"


def random_topology(rng, names) -> Node:
    """random rooted binary tree by random joins (every labelled history has positive probability)"""
    pool = [Node(nm) for nm in names]
    while len(pool) > 1:
        i, j = rng.sample(range(len(pool)), 2)
        a, b = pool[i], pool[j]
        pool = [x for k, x in enumerate(pool) if k not in (i, j)]
        pool.append(Node(None, [a, b]))
    return pool[0]


def caterpillar(names) -> Node:
    t = Node(names[0])
    for nm in names[1:]:
        t = Node(None, [t, Node(nm)])
    return t


def all_topologies(names):
    """every labelled rooted binary topology on `names` ((2n-3)!! of them), children in one order"""
    def insert_everywhere(t: Node, leaf: str):
        # attach the new leaf on the edge above every node of t (including above the root)
        def rec(x: Node):
            yield Node(None, [x.copy(), Node(leaf)])
            if x.kids:
                a, b = x.kids
                for a2 in rec(a):
                    yield Node(None, [a2, b.copy()])
                for b2 in rec(b):
                    yield Node(None, [a.copy(), b2])
        yield from rec(t)

    trees = [Node(None, [Node(names[0]), Node(names[1])])]
    for nm in names[2:]:
        trees = [t2 for t in trees for t2 in insert_everywhere(t, nm)]
    return trees


def shuffle_children(rng, t: Node):
    for x in t.postorder():
        if x.kids and rng.random() < 0.5:
            x.kids.reverse()
    return t


def set_indices(t: Node, taxa: list[str]):
    """documented convention: leaf -> position in Taxa; internal -> n, n+1, ... in post-order"""
    n = len(taxa)
    k = n
    pos = {nm: i for i, nm in enumerate(taxa)}
    for x in t.postorder():
        if x.is_leaf():
            x.index = pos[x.name]
        else:
            x.index = k
            k += 1
    return t


def assign_lengths(rng, t: Node, lo=0.01, hi=0.6, grid=False):
    for x in t.postorder():
        x.length = rng.choice([0.05, 0.1, 0.25, 0.5]) if grid else rng.uniform(lo, hi)
    t.length = None
    return t


def assign_heights(rng, t: Node, leaf_height: dict):
    """valid node heights: every internal node strictly above its children"""
    for x in t.postorder():
        if x.is_leaf():
            x.height = float(leaf_height[x.name])
        else:
            x.height = max(k.height for k in x.kids) + rng.uniform(0.05, 1.0)
    for x in t.preorder():
        for k in x.kids:
            k.length = x.height - k.height
    t.length = None
    return t


# ----------------------------------------------------------------------------- alignments
PARTIAL_AMB = "RYMWSKBDHV"


def twin_columns(rng, names, plain, ambig):
    """two or three columns that differ ONLY in which ambiguity code ONE tip carries (same `encoding`, different tip
    vector — e.g. R in one, Y in the other, a gap in the third), each with its own multiplicity; all other tips show
    plain states.  Merging such columns into one pattern changes the likelihood."""
    base = rng.choice(plain)
    col = [base if rng.random() < 0.6 else rng.choice(plain) for _ in names]
    i = rng.randrange(len(names))
    k = min(len(ambig), rng.choice([2, 2, 3]))
    out = []
    for sym in rng.sample(list(ambig), k):
        c = list(col)
        c[i] = sym
        out += ["".join(c)] * rng.choice([1, 1, 2, 3])
    return out


def random_alignment(rng, names, nsites, alphabet=NUC18, plain="ACGT", p_amb=0.25, repeat=True, lower=False, special=False,
                     twins=None):
    """columns as strings (one character per name). With `special` (nucleotides) the alignment is guaranteed to
    contain: a column in which NO taxon is unambiguous (every tip a partial ambiguity code R,Y,M,W,S,K,B,D,H,V),
    one where those are mixed with N/-/?, an all-gap column, a column repeated many times, RNA-style U/u."""
    cols = []
    for _ in range(nsites):
        if repeat and cols and rng.random() < 0.3:
            cols.append(rng.choice(cols))
            continue
        base = rng.choice(plain)
        col = []
        for _nm in names:
            r = rng.random()
            if r < p_amb:
                c = rng.choice(alphabet)
            elif r < p_amb + 0.45:
                c = base
            else:
                c = rng.choice(plain)
            if lower and rng.random() < 0.15:
                c = c.lower()
            col.append(c)
        cols.append("".join(col))
    if special:
        def lw(c):
            return c.lower() if lower and rng.random() < 0.2 else c
        extra = ["".join(lw(rng.choice(PARTIAL_AMB)) for _ in names)]
        if rng.random() < 0.7:
            extra.append("".join(lw(rng.choice(PARTIAL_AMB + "N-?")) for _ in names))
        if rng.random() < 0.6:
            extra.append(rng.choice(["-", "?", "N"]) * len(names))
        if rng.random() < 0.6:
            extra.append("".join(rng.choice("UuACG") for _ in names))
        if rng.random() < 0.6:
            c = rng.choice(extra + cols)
            extra += [c] * rng.randint(4, 12)
        if rng.random() < 0.3:
            extra += [extra[0]] * rng.randint(2, 5)
        for c in extra:
            cols.insert(rng.randint(0, len(cols)), c)
    if twins:
        for _ in range(rng.choice([1, 1, 2])):
            for c in twin_columns(rng, names, plain, twins):
                cols.insert(rng.randint(0, len(cols)), c)
    return {nm: "".join(c[i] for c in cols) for i, nm in enumerate(names)}


def random_codon_alignment(rng, names, nsites, k=0):
    sense = codon_sense(k)
    cols = []
    for _ in range(nsites):
        if cols and rng.random() < 0.3:
            cols.append(rng.choice(cols))
            continue
        base = rng.choice(sense)
        col = []
        for _nm in names:
            r = rng.random()
            if r < 0.12:
                col.append(rng.choice(["---", "???", "A-G", "NNN", "ACR", "acn", "Y??"]))
            elif r < 0.6:
                col.append(base)
            else:
                t = rng.choice(sense)
                if rng.random() < 0.2:
                    t = t.lower() if rng.random() < 0.5 else t.replace("T", "U")
                col.append(t)
        cols.append(col)
    return {nm: "".join(c[i] for c in cols) for i, nm in enumerate(names)}


# ----------------------------------------------------------------------------- independent tip vectors
def nuc_vec(c: str, use_amb: bool):
    u = c.upper()
    if not use_amb:
        if u in "ACGTU":
            return [1.0 if x in IUPAC[u] else 0.0 for x in "ACGT"]
        return [1.0] * 4
    if u in IUPAC:
        return [1.0 if x in IUPAC[u] else 0.0 for x in "ACGT"]
    return [1.0] * 4


def nuc_state(c: str) -> int:
    u = c.upper()
    return "ACGT".index(IUPAC[u]) if u in "ACGTU" else 4


def aa_vec(c: str, use_amb: bool):
    u = c.upper()
    if u in AA20:
        return [1.0 if x == u else 0.0 for x in AA20]
    if use_amb and u in AA_AMBIG:
        return [1.0 if x in AA_AMBIG[u] else 0.0 for x in AA20]
    return [1.0] * 20


def aa_state(c: str) -> int:
    u = c.upper()
    return AA20.index(u) if u in AA20 else 20


def codon_sense(k=0):
    """the states of the codon model for genetic code number k: the non-stop triplets in A,C,G,T order"""
    trip = [a + b + c for a in "ACGT" for b in "ACGT" for c in "ACGT"]
    tid = GENETIC_CODES[k][1]
    return [t for t in trip if ncbi_aa(tid, t) != "*"]


def codon_vec(c: str, _use_amb: bool, k=0):
    sense = codon_sense(k)
    u = c.upper().replace("U", "T")
    if len(u) == 3 and all(x in "ACGT" for x in u):
        if u in sense:
            return [1.0 if t == u else 0.0 for t in sense]
        return None  # stop codon: outside the model's state space (not generated)
    return [1.0] * len(sense)


def codon_state(c: str, k=0) -> int:
    sense = codon_sense(k)
    u = c.upper().replace("U", "T")
    return sense.index(u) if u in sense else len(sense)


def general_vec(gen, c: str):
    """GeneralDataType: a code is itself, an ambiguity key is the union of the codes it lists, anything else is
    missing (the class has no way to switch ambiguities off)"""
    codes, amb = gen["codes"], gen["ambiguities"]
    if c in amb:
        members = [amb[c]] if isinstance(amb[c], str) else list(amb[c])
        return [1.0 if x in members else 0.0 for x in codes]
    if c in codes:
        return [1.0 if x == c else 0.0 for x in codes]
    return [1.0] * len(codes)


def general_state(gen, c: str) -> int:
    codes, amb = gen["codes"], gen["ambiguities"]
    if c in amb:
        return codes.index(amb[c]) if isinstance(amb[c], str) else len(codes)  # only aliases keep a state
    return codes.index(c) if c in codes else len(codes)


DATATYPES = {
    "nucleotide": dict(size=1, S=4, vec=nuc_vec, state=nuc_state),
    "aa": dict(size=1, S=20, vec=aa_vec, state=aa_state),
    "codon": dict(size=3, S=61, vec=codon_vec, state=codon_state),
}


def dt_of(case):
    """size / number of states / independent tip vector and tip state functions of the data type of a case"""
    d = case["datatype"]
    if d == "codon":
        k = case.get("genetic_code", 0)
        return dict(size=3, S=len(codon_sense(k)), vec=lambda c, ua: codon_vec(c, ua, k), state=lambda c: codon_state(c, k))
    if d == "general":
        g = case["general"]
        return dict(size=1, S=len(g["codes"]), vec=lambda c, ua: general_vec(g, c), state=lambda c: general_state(g, c))
    return DATATYPES[d]


def tip_vector(case, dt, sym, use_amb):
    """the tip compatibility vector the property prescribes for a symbol: with tip states a symbol is its state or
    missing; with tip partials it is the union of the states it may stand for (ambiguities on) or missing"""
    if case.get("use_tip_states"):
        st = dt["state"](sym)
        return [1.0] * dt["S"] if st >= dt["S"] else [1.0 if j == st else 0.0 for j in range(dt["S"])]
    return dt["vec"](sym, use_amb)


def parse_indices(text):
    """SitePattern `indices`: comma separated `i` or `start:stop:step` — Python's own indexing is the specification"""
    out = []
    for tok in text.split(","):
        parts = tok.split(":")
        if len(parts) == 1:
            out.append(int(parts[0]))
        else:
            parts += [""] * (3 - len(parts))
            out.append(slice(*[None if x == "" else int(x) for x in parts[:3]]))
    return out


def site_symbols(case):
    """the alignment as the list of its sites, each a dict name -> symbol (after the optional column selection)"""
    size = dt_of(case)["size"]
    rows = {}
    for nm, sq in case["seqs"].items():
        syms = [sq[j * size:(j + 1) * size] for j in range(len(sq) // size)]
        if case.get("indices"):
            sel = []
            for ix in parse_indices(case["indices"]):
                sel += [syms[ix]] if isinstance(ix, int) else syms[ix]
            syms = sel
        rows[nm] = syms
    n = min(len(v) for v in rows.values())
    return [{nm: rows[nm][j] for nm in rows} for j in range(n)]


# ----------------------------------------------------------------------------- JSON spec
def P(id_, v):
    return {"id": id_, "type": "Parameter", "tensor": v, "dtype": "torch.float64"}


def subst_json(sub: dict):
    k = sub["kind"]
    if k == "JC69":
        return {"id": "m", "type": "JC69"}
    if k == "HKY":
        return {"id": "m", "type": "HKY", "kappa": P("kappa", [sub["kappa"]]), "frequencies": P("freqs", sub["freqs"])}
    if k == "GTR":
        return {"id": "m", "type": "GTR", "rates": P("rates", sub["rates"]), "frequencies": P("freqs", sub["freqs"])}
    if k == "GeneralJC69":
        return {"id": "m", "type": "GeneralJC69", "state_count": sub["states"]}
    if k in ("GeneralSymmetric", "GeneralNonSymmetric"):
        dtj = {"id": "dt", "type": "NucleotideDataType"} if sub.get("general") is None else \
            {"id": "dt", "type": "GeneralDataType", "codes": sub["general"]["codes"], "ambiguities": sub["general"]["ambiguities"]}
        d = {"id": "m", "type": k + "SubstitutionModel", "data_type": dtj,
             "rates": P("rates", sub["rates"]), "frequencies": P("freqs", sub["freqs"]), "mapping": sub["mapping"]}
        if k == "GeneralNonSymmetric":
            d["normalize"] = True
        return d
    if k in ("LG", "WAG"):
        return {"id": "m", "type": "torchtree.evolution.substitution_model." + k}
    if k == "MG94":
        return {"id": "m", "type": "MG94", "data_type": {"id": "dt", "type": "CodonDataType", "genetic_code": GENETIC_CODES[sub.get("genetic_code", 0)][0]},
                "kappa": P("kappa", [sub["kappa"]]), "alpha": P("alpha", [sub["alpha"]]), "beta": P("beta", [sub["beta"]]),
                "frequencies": P("freqs", sub["freqs"])}
    raise ValueError(k)


def site_json(site: dict):
    k = site["kind"]
    if k == "constant":
        return {"id": "sm", "type": "ConstantSiteModel"}
    if k == "invariant":
        return {"id": "sm", "type": "InvariantSiteModel", "invariant": P("pinv", [site["pinv"]])}
    if k == "weibull":
        d = {"id": "sm", "type": "WeibullSiteModel", "categories": site["K"], "shape": P("shape", [site["shape"]])}
        if site.get("pinv") is not None:
            d["invariant"] = P("pinv", [site["pinv"]])
        return d
    raise ValueError(k)


def datatype_json(dt: str, case=None):
    if dt == "general":
        if case["subst"]["kind"] == "GeneralJC69":  # no data type inside the substitution model: define it here
            return {"id": "dt", "type": "GeneralDataType", "codes": case["general"]["codes"], "ambiguities": case["general"]["ambiguities"]}
        return "dt"
    if dt == "nucleotide":
        return "nucleotide"
    if dt == "aa":
        return {"id": "dt", "type": "AminoAcidDataType"}
    if dt == "codon":
        return "dt"  # defined inside the substitution model, which from_json processes first
    raise ValueError(dt)


def build_spec(case: dict) -> dict:
    """JSON accepted by TreeLikelihoodModel.from_json for a case description (see gen_case)"""
    taxa = {"id": "taxa", "type": "Taxa", "taxa": [
        {"id": nm, "type": "Taxon", "attributes": {"date": case["dates"][nm]}} if case.get("dates") else
        {"id": nm, "type": "Taxon"} for nm in case["taxa"]]}
    aln = {"id": "aln", "type": "Alignment", "datatype": datatype_json(case["datatype"], case), "taxa": "taxa",
           "sequences": [{"taxon": nm, "sequence": case["seqs"][nm]} for nm in case["seq_order"]]}
    if case["rooting"] == "unrooted":
        if case.get("branch_lengths") is not None:
            tree = {"id": "tree", "type": "UnRootedTreeModel", "newick": case["newick"],
                    "branch_lengths": P("bl", case["branch_lengths"]), "taxa": taxa}
        else:
            tree = {"id": "tree", "type": "UnRootedTreeModel", "newick": case["newick"],
                    "branch_lengths": P("bl", [0.0]), "keep_branch_lengths": True, "taxa": taxa}
    elif case.get("ratios") is not None:
        tree = {"id": "tree", "type": "ReparameterizedTimeTreeModel", "newick": case["newick"], "taxa": taxa,
                "ratios": P("ratios", case["ratios"]), "root_height": P("root_height", [case["root_height"]])}
    else:
        tree = {"id": "tree", "type": "TimeTreeModel", "newick": case["newick"], "taxa": taxa}
        if case.get("internal_heights") is not None:
            tree["internal_heights"] = P("heights", case["internal_heights"])
        else:
            tree["internal_heights"] = P("heights", [0.0])
            tree["keep_branch_lengths"] = True
    if case.get("tree_options"):
        tree.update(case["tree_options"])
    spec = {"id": "like", "type": "TreeLikelihoodModel", "tree_model": tree,
            "site_model": site_json(case["site"]),
            "site_pattern": ({"id": "sp", "type": "SitePattern", "alignment": aln, "indices": case["indices"]} if case.get("indices")
                             else {"id": "sp", "type": "SitePattern", "alignment": aln}),
            "substitution_model": subst_json(case["subst"])}
    if case.get("clock"):
        ck = case["clock"]
        if ck["kind"] == "strict":
            spec["branch_model"] = {"id": "clock", "type": "StrictClockModel", "tree_model": "tree", "rate": P("rate", [ck["rate"]])}
        else:
            spec["branch_model"] = {"id": "clock", "type": "SimpleClockModel", "tree_model": "tree", "rate": P("rate", ck["rates"])}
    if case.get("use_ambiguities") is not None:
        spec["use_ambiguities"] = case["use_ambiguities"]
    if case.get("use_tip_states") is not None:
        spec["use_tip_states"] = bool(case["use_tip_states"])
    return spec


def build_model(case: dict):
    """the REAL TreeLikelihoodModel for the case (float64)"""
    import torch
    from torchtree.evolution.tree_likelihood import TreeLikelihoodModel

    torch.set_default_dtype(torch.float64)
    return TreeLikelihoodModel.from_json(build_spec(case), {})


# ----------------------------------------------------------------------------- case generation
def rand_freqs(rng, n):
    x = [rng.uniform(0.5, 2.0) for _ in range(n)]
    s = sum(x)
    return [v / s for v in x]


def gen_subst(rng, kind, general=None):
    if kind == "JC69":
        return {"kind": kind}
    if kind == "HKY":
        return {"kind": kind, "kappa": rng.uniform(0.5, 6.0), "freqs": rand_freqs(rng, 4)}
    if kind == "GTR":
        return {"kind": kind, "rates": [rng.uniform(0.3, 3.0) for _ in range(6)], "freqs": rand_freqs(rng, 4)}
    if kind == "GeneralSymmetric":
        S = 4 if general is None else len(general["codes"])
        pairs = S * (S - 1) // 2
        nr = rng.choice([2, 3, pairs])
        mapping = list(range(pairs)) if nr == pairs else [rng.randrange(nr) for _ in range(pairs)]
        return {"kind": kind, "rates": [rng.uniform(0.3, 3.0) for _ in range(nr)], "freqs": rand_freqs(rng, S), "mapping": mapping,
                "general": general}
    if kind == "GeneralNonSymmetric" and general is None and rng.random() < 0.35:
        # STRUCTURED, strictly positive, perfectly valid parameters: rates tied through `mapping` with equal frequencies — ordered
        # characters (i -> i+1 at one rate, every other change at a background rate), forward / backward rates, a single rate.
        # Such rate matrices can have repeated eigenvalues and need not be diagonalisable.
        fam = rng.choice(["ordered", "ordered", "forward-backward", "one-rate"])
        if fam == "ordered":
            mapping, rates = [0, 1, 1, 0, 1, 0, 1, 1, 1, 1, 1, 1], [1.0, rng.choice([0.01, 0.2, 0.5, 1e-4])]
        elif fam == "forward-backward":
            mapping, rates = [0] * 6 + [1] * 6, [rng.choice([1.0, 2.0]), rng.choice([0.05, 0.5])]
        else:
            mapping, rates = [0] * 12, [1.0]
        return {"kind": kind, "rates": rates, "freqs": [0.25] * 4, "mapping": mapping, "general": None, "family": fam}
    if kind == "GeneralNonSymmetric":
        S = 4 if general is None else len(general["codes"])
        pairs = S * (S - 1)
        nr = rng.choice([3, pairs])
        mapping = list(range(pairs)) if nr == pairs else [rng.randrange(nr) for _ in range(pairs)]
        return {"kind": kind, "rates": [rng.uniform(0.3, 3.0) for _ in range(nr)], "freqs": rand_freqs(rng, S), "mapping": mapping,
                "general": general}
    if kind in ("LG", "WAG"):
        return {"kind": kind}
    if kind == "MG94":
        k = 0 if general is None else general
        return {"kind": kind, "kappa": rng.uniform(1.0, 4.0), "alpha": rng.uniform(0.5, 2.0), "beta": rng.uniform(0.1, 1.5),
                "freqs": rand_freqs(rng, len(codon_sense(k))), "genetic_code": k}
    if kind == "GeneralJC69":
        return {"kind": kind, "states": len(general["codes"])}
    raise ValueError(kind)


def gen_site(rng, kind):
    if kind == "constant":
        return {"kind": "constant"}
    if kind == "invariant":
        return {"kind": "invariant", "pinv": rng.uniform(0.05, 0.6)}
    if kind == "weibull":
        return {"kind": "weibull", "K": rng.choice([2, 3, 4]), "shape": rng.uniform(0.3, 2.5), "pinv": None}
    if kind == "weibull+inv":
        return {"kind": "weibull", "K": rng.choice([2, 3, 4]), "shape": rng.uniform(0.3, 2.5), "pinv": rng.uniform(0.05, 0.5)}
    raise ValueError(kind)


SUBST_DT = {"GeneralJC69": "general", "JC69": "nucleotide", "HKY": "nucleotide", "GTR": "nucleotide", "GeneralSymmetric": "nucleotide",
            "GeneralNonSymmetric": "nucleotide", "LG": "aa", "WAG": "aa", "MG94": "codon"}
NAMES = ["A", "b_1", "C", "D9", "e", "F_x", "G", "H", "taxon_I", "J", "K", "L2", "M", "n", "O", "P", "Q", "R", "S", "T"]


def make_names(rng, n):
    if n <= len(NAMES):
        names = rng.sample(NAMES, n)
    else:
        names = ["t%d" % i for i in range(n)]
    return names


def gen_case(rng, n, topo: Node | None = None, subst=None, site=None, rooting=None, tip_states=None,
             use_amb=None, nsites=None, clock=None, explicit_heights=None, special=None, use_amb_fixed=False,
             general=False, genetic_code=None, indices=None) -> dict:
    """one JSON-serialisable case description. `general`: use a GeneralDataType (random codes / ambiguity map) with a
    GeneralSymmetric / GeneralNonSymmetric / GeneralJC69 model; `genetic_code`: number of the genetic code for MG94;
    `indices`: True = add a random SitePattern column selection"""
    subst = subst or rng.choice(["JC69", "HKY", "GTR", "GeneralSymmetric", "GeneralNonSymmetric"])
    site = site or rng.choice(["constant", "invariant", "weibull", "weibull+inv"])
    rooting = rooting or rng.choice(["unrooted", "time"])
    dt = SUBST_DT[subst]
    gen = None
    if general:
        dt = "general"
        S = rng.choice([2, 3, 3, 4, 5])
        codes = rng.sample(list("0123456789ABCDEFGHXYZabc"), S)
        spare = [c for c in "KLMNPQRSTUVWklmn" if c not in codes]
        rng.shuffle(spare)
        amb = {}
        if S >= 3:
            amb[spare.pop()] = rng.sample(codes, 2)
            if rng.random() < 0.75:
                other = rng.sample(codes, S - 1 if S > 3 else 2)
                while sorted(other) in [sorted(v) for v in amb.values()]:
                    other = rng.sample(codes, 2)
                amb[spare.pop()] = other
        if rng.random() < 0.7:
            amb[spare.pop()] = rng.choice(codes)  # alias, e.g. {'U': 'T'}
        gen = {"codes": codes, "ambiguities": amb}
        if subst not in ("GeneralSymmetric", "GeneralNonSymmetric", "GeneralJC69"):
            subst = rng.choice(["GeneralSymmetric", "GeneralNonSymmetric", "GeneralJC69"])
    if dt == "codon" and genetic_code is None:
        genetic_code = rng.randrange(len(GENETIC_CODES))
    if topo is None:
        names = make_names(rng, n)
        topo = shuffle_children(rng, random_topology(rng, names))
    else:
        names = [x.name for x in topo.leaves()]
    taxa = list(names)
    rng.shuffle(taxa)
    seq_order = list(names)
    rng.shuffle(seq_order)
    if nsites is None:
        nsites = rng.randint(4, 9) if dt != "codon" else rng.randint(2, 4)
    if dt == "nucleotide":
        sp = (rng.random() < 0.6) if special is None else special
        seqs = random_alignment(rng, names, nsites, NUC18, "ACGT", lower=True, special=sp,
                                twins=(PARTIAL_AMB + "N-?") if sp else None)
    elif dt == "aa":
        seqs = random_alignment(rng, names, nsites, AA_ALL, AA20, p_amb=0.3, lower=True)
    elif dt == "general":
        alphabet = gen["codes"] + list(gen["ambiguities"]) + ["?", "-"]
        same_enc = [k for k, v in gen["ambiguities"].items() if not isinstance(v, str)] + ["?", "-"]  # encoding = state_count
        seqs = random_alignment(rng, names, nsites, "".join(alphabet), "".join(gen["codes"]), p_amb=0.35,
                                twins=same_enc if len(gen["codes"]) >= 3 else None)
    else:
        seqs = random_codon_alignment(rng, names, nsites, genetic_code)
    case = {"taxa": taxa, "seq_order": seq_order, "seqs": seqs, "datatype": dt, "rooting": rooting,
            "subst": gen_subst(rng, subst, general=(gen if dt == "general" else genetic_code)), "site": gen_site(rng, site)}
    if dt == "general":
        case["general"] = gen
    if dt == "codon":
        case["genetic_code"] = genetic_code
    if indices and dt != "codon":
        L = min(len(x) for x in seqs.values())
        toks = []
        for _ in range(rng.randint(1, 3)):
            r = rng.random()
            if r < 0.35:
                toks.append(str(rng.randint(-L, L - 1)))
            else:
                a = rng.choice(["", str(rng.randint(-L - 1, L + 1))])
                b = rng.choice(["", str(rng.randint(-L - 1, L + 1))])
                c = rng.choice(["", "", "1", "2", "3", "-1", "-2"])
                toks.append(f"{a}:{b}" + (f":{c}" if c or rng.random() < 0.2 else ""))
        case["indices"] = ",".join(toks)
        if not site_symbols(case):  # an empty selection cannot be compressed (zip of nothing): select everything too
            case["indices"] += ",:"
    if tip_states is None:
        tip_states = True if rng.random() < 0.35 else rng.choice([False, "absent"])
    if tip_states == "absent":
        tip_states = None
    case["use_tip_states"] = tip_states if tip_states is None else bool(tip_states)
    if use_amb is None and not use_amb_fixed:
        use_amb = rng.choice([True, False, None])
    case["use_ambiguities"] = use_amb
    if rooting == "unrooted":
        assign_lengths(rng, topo)
        if case["subst"].get("family") and rng.random() < 0.3:   # extremely short branches (t ~ 1e-6) for the structured generators
            for x in topo.postorder():
                if x.length is not None:
                    x.length *= 1e-5
        case["dates"] = None
        case["clock"] = None
    else:
        scheme = rng.choice(["contemporaneous", "from-zero", "years", "decimal-years"])
        if scheme == "contemporaneous":
            dates = {nm: 0.0 for nm in names}
        elif scheme == "from-zero":
            dates = {nm: float(rng.choice([0, 0, 1, 2, 3])) for nm in names}
            dates[rng.choice(names)] = 0.0
        elif scheme == "years":
            dates = {nm: float(rng.choice([2010, 2011, 2012, 2014])) for nm in names}
        else:  # non-dyadic decimals: not representable in single precision
            dates = {nm: rng.choice([2010.1, 2011.37, 2012.123, 2013.9, 2014.55]) for nm in names}
        mx, mn = max(dates.values()), min(dates.values())
        leaf_h = {nm: (dates[nm] if mn == 0.0 else mx - dates[nm]) for nm in names}
        assign_heights(rng, topo, leaf_h)
        case["dates"] = dates
        if explicit_heights is None:
            explicit_heights = rng.random() < 0.6
        if explicit_heights:
            case["internal_heights"] = [x.height for x in topo.postorder() if not x.is_leaf()]
        else:
            case["internal_heights"] = None
        ck = clock or rng.choice(["strict", "simple"])
        if ck == "strict":
            case["clock"] = {"kind": "strict", "rate": rng.uniform(0.02, 0.3)}
        else:
            case["clock"] = {"kind": "simple", "rates": [rng.uniform(0.02, 0.3) for _ in range(2 * n - 2)]}
    case["newick"] = newick(topo)
    return case


# ----------------------------------------------------------------------------- independent oracle
def leaf_heights_of(case):
    dates = case["dates"]
    mx, mn = max(dates.values()), min(dates.values())
    return {nm: (dates[nm] if mn == 0.0 else mx - dates[nm]) for nm in dates}


def heights_from_ratios(case, t: Node):
    """node heights of the ratio parameterisation, recomputed from its definition: the root has `root_height`; an
    internal node v with parent p has height b(v) + ratio(v) * (height(p) - b(v)), b(v) = the largest height of a
    leaf below v; ratio(v) is entry (index(v) - n) of `ratios` (the root, numbered last, has none)"""
    n = len(case["taxa"])
    set_indices(t, case["taxa"])
    lh = leaf_heights_of(case)
    bound = {}
    for x in t.postorder():
        bound[id(x)] = lh[x.name] if x.is_leaf() else max(bound[id(k)] for k in x.kids)
    t.height = case["root_height"]
    for x in t.preorder():
        for k in x.kids:
            if k.is_leaf():
                k.height = lh[k.name]
            else:
                k.height = bound[id(k)] + case["ratios"][k.index - n] * (x.height - bound[id(k)])


def oracle_branch_times(case, t: Node):
    """expected substitutions-per-site *before* the site rate, per node (dict id(node) -> float),
    recomputed from the case description with the documented conventions"""
    n = len(case["taxa"])
    set_indices(t, case["taxa"])
    out = {}
    if case["rooting"] == "unrooted" and case.get("branch_lengths") is not None:
        bl = case["branch_lengths"]  # addressed by node index; the branch of node 2n-3 has length zero
        for x in t.postorder():
            if x is not t:
                out[id(x)] = bl[x.index] if x.index < 2 * n - 3 else 0.0
    elif case["rooting"] == "unrooted":
        a, b = t.kids
        for x in t.postorder():
            if x is not t:
                out[id(x)] = x.length
        # unrooted: the two root branches are one branch of length a+b; where the (degree-two) root sits on it
        # is irrelevant only for reversible models, so the convention matters: the sum goes on the
        # root child that is NOT the last-numbered node, the other one gets zero.
        last = a if a.index == 2 * n - 3 else b
        other = b if last is a else a
        out[id(other)] = a.length + b.length
        out[id(last)] = 0.0
    else:
        if case.get("ratios") is not None:
            heights_from_ratios(case, t)
        elif case.get("internal_heights") is not None:
            hs = iter(case["internal_heights"])
            lh = leaf_heights_of(case)
            for x in t.postorder():
                x.height = lh[x.name] if x.is_leaf() else next(hs)
        else:  # keep_branch_lengths: heights_from_branch_lengths
            lh = leaf_heights_of(case)
            for x in t.postorder():
                x.height = lh[x.name] if x.is_leaf() else max(k.height + max(1.0e-6, k.length) for k in x.kids)
        ck = case["clock"]
        for x in t.preorder():
            for k in x.kids:
                rate = ck["rate"] if ck["kind"] == "strict" else ck["rates"][k.index]
                out[id(k)] = (x.height - k.height) * rate
    return out


def expm_np(A):
    """matrix exponential by scaling and squaring with a Taylor series (independent of torch.matrix_exp / eig)"""
    nrm = float(np.abs(A).sum(axis=1).max())
    sq = max(0, int(math.ceil(math.log2(nrm))) + 2) if nrm > 0 else 0
    X = A / (2.0 ** sq)
    E, term = np.eye(A.shape[0]), np.eye(A.shape[0])
    for k in range(1, 15):  # ||X|| <= 1/4: the remainder is below 1e-19
        term = term @ X / k
        E = E + term
    for _ in range(sq):
        E = E @ E
    return E


def normalised_rate_matrix(model):
    """Q / norm(Q), Q = subst_model.q() at the CURRENT parameter values, norm = -sum_i pi_i Q_ii (the normalisation every p_t of
    the library uses) — the generator whose exponential the branch transition probabilities are, whichever way the code obtains them"""
    Q = model.subst_model.q().detach().double().numpy()
    pi = model.subst_model.frequencies.detach().double().reshape(-1).numpy()
    if Q.ndim != 2:
        raise ValueError("batched q()")
    return Q / -float((np.diag(Q) * pi).sum())


def oracle_loglik(case, model, restrict_sites=None):
    """sum over sites of log( sum over rate categories and over ALL labelings of the internal nodes of
    root frequency x branch transition probabilities x tip compatibility ), by explicit enumeration.
    Uses of the implementation: subst_model.p_t on one scalar at a time (C04's subject),
    subst_model.frequencies, site_model.rates()/probabilities() (C05's subject)."""
    import torch

    dt = dt_of(case)
    S = dt["S"]
    t = parse_newick(case["newick"])
    times = oracle_branch_times(case, t)
    rates = [float(x) for x in model.site_model.rates().reshape(-1)]
    probs = [float(x) for x in model.site_model.probabilities().reshape(-1)]
    pi = np.array([float(x) for x in model.subst_model.frequencies.reshape(-1)])
    assert len(pi) == S
    nodes = [x for x in t.postorder()]
    internals = [x for x in nodes if not x.is_leaf()]
    pos = {id(x): i for i, x in enumerate(internals)}
    # tip vectors: "ambiguous tip = union of its states" when ambiguities are used, otherwise
    # everything that is not a plain state is missing; tip states always treat ambiguity as missing
    use_amb = bool(case.get("use_ambiguities")) and not case.get("use_tip_states")
    symbols = site_symbols(case)
    sites = range(len(symbols)) if restrict_sites is None else restrict_sites
    labs = np.array(list(itertools.product(range(S), repeat=len(internals))), dtype=np.int64)  # [L, I]
    Pm = {}
    try:
        Qn, expm_cache = normalised_rate_matrix(model), {}
    except Exception:  # noqa: BLE001  (no usable q(): fall back to the model's own p_t)
        Qn, expm_cache = None, {}
    for k, r in enumerate(rates):
        for x in nodes:
            if x is t:
                continue
            tval = times[id(x)] * r
            if Qn is not None:  # own exponential of the model's generator, not the model's p_t
                if tval not in expm_cache:
                    expm_cache[tval] = np.eye(S) if tval == 0.0 else expm_np(Qn * tval)
                Pm[(id(x), k)] = expm_cache[tval]
            else:
                tt = torch.tensor([[tval]], dtype=torch.float64)
                Pm[(id(x), k)] = model.subst_model.p_t(tt)[0, 0].detach().numpy()
    total = 0.0
    per_site = []
    for site_i in sites:
        lik = 0.0
        for k in range(len(rates)):
            w = pi[labs[:, pos[id(t)]]].copy()
            for x in internals:
                sp = labs[:, pos[id(x)]]
                for c in x.kids:
                    M = Pm[(id(c), k)]
                    if c.is_leaf():
                        v = tip_vector(case, dt, symbols[site_i][c.name], use_amb)
                        w = w * (M @ np.array(v))[sp]
                    else:
                        w = w * M[sp, labs[:, pos[id(c)]]]
            lik += probs[k] * float(w.sum())
        per_site.append(lik)
        total += math.log(lik) if lik > 0 else float("-inf")
    return total, per_site


# ----------------------------------------------------------------------------- Lean bridge
def lean_index(drv, taxa, t: Node):
    rep = drv.ask("idx | " + " ".join(taxa) + " | " + tokens(t))
    if not rep.startswith("ok "):
        return None
    w = rep.split()
    post = [tuple(int(v) for v in x.split(",")) for x in w[w.index("post") + 1].split(";")]
    pre = [tuple(int(v) for v in x.split(",")) for x in w[w.index("pre") + 1].split(";")]
    shape = w[w.index("tree") + 1]
    leaves = [int(v) for v in w[w.index("leaves") + 1:]]
    return {"post": post, "pre": pre, "shape": shape, "leaves": leaves}


def shape_indices(shape: str, t: Node):
    """walk Lean's indexed shape `((0,1)4,(2,3)5)6` in parallel with the harness tree -> node.index"""
    pos = [0]

    def rec(x: Node):
        if shape[pos[0]] == "(":
            pos[0] += 1
            rec(x.kids[0])
            assert shape[pos[0]] == ","
            pos[0] += 1
            rec(x.kids[1])
            assert shape[pos[0]] == ")"
            pos[0] += 1
        j = pos[0]
        while j < len(shape) and shape[j].isdigit():
            j += 1
        x.index = int(shape[pos[0]:j])
        pos[0] = j

    rec(t)


def fl(xs):
    return " ".join(f2h(float(x)) for x in xs)


def lean_pat(drv, case):
    dt = case["datatype"]
    size = dt_of(case)["size"]
    # use_ambiguities None -> the constructor default False
    ua = 1 if case.get("use_ambiguities") else 0
    seqs = " ".join(f"{nm}={case['seqs'][nm]}" for nm in case["seq_order"])
    if dt == "general":
        g = case["general"]
        ambs = " ".join(k + "=" + (v if isinstance(v, str) else ",".join(v)) for k, v in g["ambiguities"].items())
        req = f"patg {ua} | " + " ".join(case["taxa"]) + " | " + seqs + " | " + " ".join(g["codes"]) + " | " + ambs
        if case.get("indices"):
            req += " | " + " ".join(case["indices"].split(","))
        rep = drv.ask(req)
    else:
        tok = {"nucleotide": "0", "aa": "1"}.get(dt) or ("c%d" % case.get("genetic_code", 0))
        req = f"pat {size} {tok} {ua} | " + " ".join(case["taxa"]) + " | " + seqs
        if case.get("indices"):
            req += " | " + " ".join(case["indices"].split(","))
        rep = drv.ask(req)
    if not rep.startswith("ok "):
        return None
    w = rep.split(" ")
    weights = [int(v) for v in w[w.index("w") + 1].split(",")]
    rows = [r.split(",") for r in w[w.index("rows") + 1].split(";")]
    part = [[None if v == "x" else [int(ch) for ch in v] for v in r.split(",")] for r in w[w.index("part") + 1].split(";")]
    st = [[None if v == "x" else int(v) for v in r.split(",")] for r in w[w.index("st") + 1].split(";")]
    return {"weights": weights, "rows": rows, "part": part, "states": st}


def frac(s: str) -> Fraction:
    return Fraction(s)


# ----------------------------------------------------------------------------- C02: rewritings of one case
def materialise(tree: Node, taxa, seq_order, seqs, base: dict) -> dict:
    """write down the tree/data held in `tree` (node-attached lengths / heights / rates) and `seqs` for a given
    taxa order, sequence order and child order: index-addressed vectors are recomputed from the node attributes"""
    case = {k: base[k] for k in ("datatype", "rooting", "subst", "site", "use_tip_states", "use_ambiguities", "dates")}
    for k in ("genetic_code", "general", "indices", "tree_options"):
        if base.get(k) is not None:
            case[k] = base[k]
    case.update(taxa=list(taxa), seq_order=list(seq_order), seqs=dict(seqs))
    n = len(taxa)
    set_indices(tree, taxa)
    if base["rooting"] == "time":
        case["internal_heights"] = [x.height for x in tree.postorder() if not x.is_leaf()]
        ck = base["clock"]
        if ck["kind"] == "strict":
            case["clock"] = dict(ck)
        else:
            rates = [None] * (2 * n - 2)
            for x in tree.postorder():
                if x is not tree:
                    rates[x.index] = x.rate
            case["clock"] = {"kind": "simple", "rates": rates}
    else:
        case["clock"] = None
    case["newick"] = newick(tree)
    return case


def swap_nodes(tree: Node, which: set) -> Node:
    """copy of the tree with the children of the internal nodes whose post-order rank is in `which` swapped"""
    t = tree.copy()
    for r, x in enumerate(y for y in t.postorder() if not y.is_leaf()):
        if r in which:
            x.kids.reverse()
    return t


def unrooted_edges(tree: Node):
    """undirected view with the degree-two root suppressed: (adjacency {id: [(id, length)]}, {id: node})"""
    adj, nodes = {}, {}
    a, b = tree.kids

    def add(u, v, ln):
        adj.setdefault(id(u), []).append((id(v), ln))
        adj.setdefault(id(v), []).append((id(u), ln))
        nodes[id(u)], nodes[id(v)] = u, v

    for x in tree.preorder():
        if x is tree:
            continue
        for k in x.kids:
            add(x, k, k.length)
    add(a, b, a.length + b.length)
    return adj, nodes


def all_rootings(tree: Node, frac=0.25):
    """every rooting of the unrooted tree underlying `tree` (2n-3 of them), the root edge split frac/(1-frac)"""
    adj, nodes = unrooted_edges(tree)

    def build(u, frm, ln):
        x = nodes[u]
        if x.is_leaf():
            return Node(x.name, None, ln)
        kids = [build(v, u, l2) for (v, l2) in adj[u] if v != frm]
        return Node(None, kids, ln)

    out, seen = [], set()
    for u in adj:
        for v, ln in adj[u]:
            if (v, u) in seen:
                continue
            seen.add((u, v))
            l1 = ln * frac
            out.append(Node(None, [build(u, v, l1), build(v, u, ln - l1)]))
    return out


REVERSIBLE = {"JC69", "HKY", "GTR", "GeneralSymmetric", "LG", "WAG", "MG94"}


def alignment_features(case):
    """which of the stress features the alignment of a nucleotide case shows"""
    if case["datatype"] != "nucleotide":
        return []
    seqs = [case["seqs"][nm] for nm in case["taxa"]]
    L = min(len(x) for x in seqs)
    cols = ["".join(x[j] for x in seqs) for j in range(L)]
    out = []
    if any(all(c.upper() in PARTIAL_AMB for c in col) for col in cols):
        out.append("column-all-partial-ambiguity")
    if any(all(c.upper() in PARTIAL_AMB + "N-?" for c in col) and any(c in "N-?" for c in col)
           and any(c.upper() in PARTIAL_AMB for c in col) for col in cols):
        out.append("column-ambiguity-mixed-with-missing")
    if any(all(c in "N-?" for c in col) for col in cols):
        out.append("column-all-missing")
    if cols and max(cols.count(c) for c in set(cols)) >= 5:
        out.append("column-repeated>=5")
    if any(c in "Uu" for col in cols for c in col):
        out.append("rna-U")
    return out


def twin_features(case):
    """number of pairs of columns of the alignment that differ in exactly one tip, both symbols there being
    non-plain (ambiguity code / gap) but different"""
    dt = dt_of(case)
    if dt["size"] != 1:
        return 0
    sym = site_symbols(case)
    cols = sorted(set(tuple(s[nm] for nm in case["taxa"]) for s in sym))
    cnt = 0
    for a in range(len(cols)):
        for b in range(a + 1, len(cols)):
            d = [i for i in range(len(cols[a])) if cols[a][i] != cols[b][i]]
            if len(d) == 1 and dt["state"](cols[a][d[0]]) >= dt["S"] and dt["state"](cols[b][d[0]]) >= dt["S"] \
                    and dt["vec"](cols[a][d[0]], True) != dt["vec"](cols[b][d[0]], True):
                cnt += 1
    return cnt


# ----------------------------------------------------------------------------- extended-range reference (large trees)
def mp_loglik(case, model, dps=60, sites=None):
    """sum over sites of log(site likelihood) by pruning over the harness's own tree in mpmath (unbounded exponent
    range, `dps` digits): the float64 transition matrices the model's substitution model returns for the harness's
    own branch times are converted exactly.  For trees far too large for explicit enumeration; pruning = marginal is
    TTProps.C01.peel_eq_marginal.  Returns (total, [log10 of each site likelihood])."""
    import mpmath as mp
    import torch

    mp.mp.dps = dps
    dt = dt_of(case)
    S, size = dt["S"], dt["size"]
    t = parse_newick(case["newick"])
    times = oracle_branch_times(case, t)
    rates = [float(x) for x in model.site_model.rates().reshape(-1)]
    probs = [mp.mpf(float(x)) for x in model.site_model.probabilities().reshape(-1)]
    pi = [mp.mpf(float(x)) for x in model.subst_model.frequencies.reshape(-1)]
    nodes = [x for x in t.postorder() if x is not t]
    T = torch.tensor([[times[id(x)] * r for r in rates] for x in nodes], dtype=torch.float64)
    P = model.subst_model.p_t(T).detach()  # [B,K,S,S]
    Pm = {}
    for bi, x in enumerate(nodes):
        for k in range(len(rates)):
            Pm[(id(x), k)] = [[mp.mpf(float(P[bi, k, a, b])) for b in range(S)] for a in range(S)]
    use_amb = bool(case.get("use_ambiguities")) and not case.get("use_tip_states")
    symbols = site_symbols(case)
    total, logs = mp.mpf(0), []
    for j in (range(len(symbols)) if sites is None else sites):
        lik = mp.mpf(0)
        for k in range(len(rates)):
            part = {}
            for x in t.postorder():
                if x.is_leaf():
                    part[id(x)] = [mp.mpf(v) for v in tip_vector(case, dt, symbols[j][x.name], use_amb)]
                else:
                    out = [mp.mpf(1)] * S
                    for c in x.kids:
                        M, pc = Pm[(id(c), k)], part[id(c)]
                        if c.is_leaf() and sum(1 for v in pc if v != 0) == 1:
                            jj = next(i for i, v in enumerate(pc) if v != 0)
                            col = [M[a][jj] * pc[jj] for a in range(S)]
                        else:
                            col = [mp.fsum(M[a][b] * pc[b] for b in range(S)) for a in range(S)]
                        out = [out[a] * col[a] for a in range(S)]
                    part[id(x)] = out
            lik += probs[k] * mp.fsum(pi[a] * part[id(t)][a] for a in range(S))
        total += mp.log(lik)
        logs.append(float(mp.log10(lik)))
    return float(total), logs


def balanced(names) -> Node:
    level = [Node(nm) for nm in names]
    while len(level) > 1:
        nxt = [Node(None, [level[i], level[i + 1]]) for i in range(0, len(level) - 1, 2)]
        if len(level) % 2:
            nxt.append(level[-1])
        level = nxt
    return level[0]


def denormal_case(rng, n=256, shape="balanced", tip_states=False, target=-321.3, subst="JC69"):
    """a large tree with MIXED columns: a few well-behaved columns (constant, one or two changes) plus one column with a
    mismatch in (almost) every cherry, all branch lengths scaled so that the site likelihood of that column lies in the
    float64 denormal range (log10 about `target`, i.e. a few dozen ulps above zero) without flushing to zero"""
    names = ["t%d" % i for i in range(n)]
    topo = balanced(names) if shape == "balanced" else (caterpillar(names) if shape == "caterpillar" else random_topology(rng, names))
    shuffle_children(rng, topo)
    base_len = {}
    for x in topo.postorder():
        base_len[id(x)] = rng.uniform(0.8, 1.2)
    # the hard column: the two tips of every cherry differ; other tips alternate
    leaves = topo.leaves()
    hard = {}
    for x in topo.postorder():
        if x.kids and all(k.is_leaf() for k in x.kids):
            a = rng.choice("ACGT")
            hard[x.kids[0].name] = a
            hard[x.kids[1].name] = rng.choice([c for c in "ACGT" if c != a])
    for lf in leaves:
        hard.setdefault(lf.name, rng.choice("ACGT"))
    easy = []
    for _ in range(rng.randint(2, 4)):
        b = rng.choice("ACGT")
        col = {lf.name: b for lf in leaves}
        for _m in range(rng.choice([0, 1, 2])):
            col[rng.choice(names)] = rng.choice("ACGT-")
        easy.append(col)
    cols = easy[:]
    cols.insert(rng.randint(0, len(cols)), hard)
    if rng.random() < 0.5:
        cols.append(easy[0])  # a repeated well-behaved column
    hard_pos = cols.index(hard)
    seqs = {nm: "".join(c[nm] for c in cols) for nm in names}
    taxa = list(names)
    rng.shuffle(taxa)
    case = {"taxa": taxa, "seq_order": rng.sample(names, n), "seqs": seqs, "datatype": "nucleotide", "rooting": "unrooted",
            "subst": gen_subst(rng, subst), "site": {"kind": "constant"}, "use_tip_states": bool(tip_states),
            "use_ambiguities": None, "dates": None, "clock": None}

    def with_scale(sc):
        for x in topo.postorder():
            x.length = base_len[id(x)] * sc
        topo.length = None
        c = dict(case)
        c["newick"] = newick(topo)
        return c

    model = build_model(with_scale(0.05))
    lo, hi = 1e-4, 0.3  # the site likelihood of the hard column increases with the scale in this range
    for _ in range(15):
        mid = math.sqrt(lo * hi)
        _tot, logs = mp_loglik(with_scale(mid), model, dps=30, sites=[hard_pos])
        if logs[0] < target:
            lo = mid
        else:
            hi = mid
    out = with_scale(math.sqrt(lo * hi))
    return out, hard_pos


def index_spellings(L, rng=None):
    """the spelling class of SitePattern `indices` for an alignment of L columns: single ints (first, last, negative, esp. -1),
    slices with negative start / stop / step, open ends, clamped bounds, empty pieces next to non-empty ones, repeated and mixed
    lists.  The oracle is Python's own indexing of the list of columns."""
    h = max(1, L // 2)
    out = ["-1", "0", str(L - 1), str(-L), "-1,0:%d" % L, "-1,:-1", "0:%d,-1" % L, "%d,-1,0" % (L - 1), "-2,-1", "-1,-1",
           "-%d:" % h, "%d,-%d:" % (min(3, L - 1), h), "-%d:%d" % (h, L + 5), ":-1", ":-%d" % h, "-3:-1", "-%d:-1" % L, "1:-1",
           "::-1", "::2", "1::2", "-1::-2", "%d:0:-1" % (L - 1), "%d::-1" % (L - 1), ":", "0:%d" % (L + 9), "-99:2", "2,2,2",
           "-2,-1,0", "::3,1::3,2::3", "0:1,-1:", "-1:,0:1", "1:1,0", "%d:%d,-1" % (L, L + 3)]
    if rng is not None:
        for _ in range(6):
            toks = []
            for _k in range(rng.randint(1, 3)):
                if rng.random() < 0.4:
                    toks.append(str(rng.randint(-L, L - 1)))
                else:
                    a = rng.choice(["", str(rng.randint(-L - 1, L + 1))])
                    b = rng.choice(["", str(rng.randint(-L - 1, L + 1))])
                    c = rng.choice(["", "", "2", "-1", "-2"])
                    toks.append(f"{a}:{b}" + (f":{c}" if c else ""))
            out.append(",".join(toks))
    return out


def rewritten_without_indices(case):
    """the same data with the column selection applied by Python's own indexing and NO `indices` key (None if nothing is selected)"""
    syms = site_symbols(case)
    if not syms:
        return None
    c = dict(case)
    c.pop("indices", None)
    c["seqs"] = {nm: "".join(s[nm] for s in syms) for nm in case["seqs"]}
    return c
