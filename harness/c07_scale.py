"""C07 — SCALE regimes: every transform's reported log|det J| against the exactly known value.

A floor / clamp / epsilon anywhere in a log-Jacobian only shows where the true factor is smaller (or larger) than the
floor. This sweep therefore evaluates every transform where the factors are far from O(1):
  * node-height ratio transform: time unit scaled by c in 1e-9 … 1e6, ratios 1e-9 … 1e-4 and 1−1e-9, root height a
    hair above the oldest tip, a node sharing its bound with its parent whose ratio is ~1e-8 (parent–bound gap far
    below any plausible epsilon). Oracles: (i) the exact value: the Lean model run on RATIONALS (drv_c06 `rfwd R`,
    `rdet R` give the exact factors h_parent − bound) and summed with mpmath logs; (ii) the AD Jacobian; (iii) the
    scaling law  log|J|(c·times) = log|J| + (n−2)·log c  (theorem `ratio_logdet_scaling`). Tolerance: relative 1e-9 of the
    exact value plus the unavoidable cancellation of the float heights, 4·eps·S/gap per factor.
  * the same through ReparameterizedTimeTreeModel() and a TransformedParameter wrapping the transform.
  * difference transform (0 at every scale), Log, SoftPlus, CumSumSoftPlus, CumSumExp, CumSum, LogDifferenceRate,
    torch Exp / Sigmoid / Softplus / Affine / Power / StickBreaking at extreme points, against mpmath closed forms.
"""
from __future__ import annotations

import math
from fractions import Fraction

import mpmath as mp
from common import Driver, f2h, use_repo

use_repo()
import torch  # noqa: E402
import torch.distributions as D  # noqa: E402
from torch.autograd.functional import jacobian  # noqa: E402

import c06_gen as G  # noqa: E402

mp.mp.dps = 60
DT = torch.float64
EPS = 2.220446049250313e-16
SCALES = (1e-9, 1e-6, 1e-3, 1.0, 1e3, 1e6)


def rat(v):
    return G.rat_str(v)


def exact_ratio_logdet(drv6, t, s, x):
    """exact log|det J| of the ratio transform at parameters x (floats, taken as exact rationals) for sampling times
    s: the Lean model on Rat gives the exact factors; -> (mp value, [float gaps])"""
    n = len(s)
    tr = G.paren(t)
    s_s = " ".join(rat(v) for v in s)
    h = drv6.ask(f"rfwd R {n} {tr} | {s_s} | " + " ".join(rat(v) for v in x))
    if h == "bad-op":
        return None, None
    terms = drv6.ask(f"rdet R {n} {tr} | {s_s} | {h}")
    fr = [Fraction(v) for v in terms.split()] if terms.strip() else []
    if any(f <= 0 for f in fr):
        return None, None
    total = mp.mpf(0)
    for f in fr:
        total += mp.log(mp.mpf(f.numerator) / mp.mpf(f.denominator))
    return total, [float(f) for f in fr]


class _SkipFlex(Exception):
    pass


def shares_bound_tree(n, rng):
    """a caterpillar whose oldest tip sits deepest: every internal node on the spine shares its bound with its
    parent"""
    t = G.caterpillar(n)  # (((0,1),2),3)…: node (0,1) deepest
    dates_age = [0.0] * n
    dates_age[0] = float(rng.randrange(2, 9))  # taxon 0 (deepest) is the oldest tip: all spine bounds equal it
    dates_age[rng.randrange(1, n)] = 0.0
    return t, dates_age


def ratio_cases(ck, rng):
    """(label, tree, ages, parameter row)"""
    out = []
    for c in SCALES:
        for _ in range(3 if ck.thorough() else 1):
            n = rng.randrange(3, 7)
            t = G.random_flip(G.random_topology(n, rng), rng)
            ages = [rng.randrange(0, 17) / 4.0 * c for _ in range(n)]
            ages[rng.randrange(n)] = 0.0
            if rng.random() < 0.4:
                ages = [0.0] * n  # homochronous tree in that time unit
            x = [rng.uniform(0.05, 0.95) for _ in range(n - 2)] + [max(ages) + rng.uniform(0.5, 4.0) * c]
            out.append((f"time-unit x{c:g}", t, ages, x))
    for _ in range(10 if ck.thorough() else 4):
        n = rng.randrange(4, 7)
        t = G.random_flip(G.random_topology(n, rng), rng)
        ages = G.date_schemes(n, rng)[rng.choice(["ages", "ages-ties", "isochronous"])]
        x = [rng.choice([1e-9, 1e-8, 1e-6, 1 - 1e-9, 1e-4, rng.uniform(0.1, 0.9)]) for _ in range(n - 2)]
        x.append(max(ages) + rng.choice([1e-7, 1e-5, 1.0, 3.0]))
        if G.ratio_margin(t, ages, x) >= 1e-13:
            out.append(("tiny ratios / root just above the oldest tip", t, ages, x))
    for _ in range(8 if ck.thorough() else 4):
        n = rng.randrange(4, 7)
        t, ages = shares_bound_tree(n, rng)
        x = [rng.uniform(0.2, 0.8) for _ in range(n - 2)] + [max(ages) + rng.uniform(1.0, 3.0)]
        # internal positions along the spine: n-3 is the child of the root; give a spine node a tiny ratio
        j = rng.randrange(1, n - 2) if n > 3 else 0
        x[j] = rng.choice([1e-8, 1e-9, 3e-7])
        out.append((f"node sharing its bound with its parent, parent ratio {x[j]:g}", t, ages, x))
    return out


def check_ratio(ck, drv6, label, t, ages, x, record, dtype=None, with_ad=True, with_flex=True):
    from torchtree import Parameter, TransformedParameter
    from torchtree.evolution.tree_height_transform import GeneralNodeHeightTransform
    from torchtree.evolution.tree_model_flexible import FlexibleTimeTreeModel

    n = len(ages)
    rep = {"type": "scale-ratio", "label": label, "tree": G.paren(t), "dates": ages, "x": [list(x)],
           "dtype": str(dtype or DT), "big": not with_flex}
    ck.case(key=("scale-ratio", label, G.paren(t), tuple(ages), tuple(x)), nontrivial=n >= 3,
            sample=rep if "sharing" in label else None, bucket="scale/ratio/" + label.split(",")[0].split(" x")[0])
    dtype = dtype or DT
    eps, rel = (EPS, 1e-9) if dtype == torch.float64 else (1.1920929e-07, 1e-5)
    try:
        xt = torch.tensor(x, dtype=dtype)
        x = xt.to(DT).tolist()  # the values the implementation really receives (float32 inputs are exact doubles)
        m = G.make_reparam(t, ages, xt.clone(), "ratio")
        s = m.sampling_times.to(DT).tolist()
        exact, gaps = exact_ratio_logdet(drv6, t, s, x)
        if exact is None:
            return
        S = max(abs(x[-1]), max(abs(v) for v in s))  # size of the heights whose rounding the subtraction amplifies
        tol = rel * abs(float(exact)) + sum(4 * eps * S / g for g in gaps) + 1e-12
        y = m.transform(xt)
        reported = {
            "transform.log_abs_det_jacobian": m.transform.log_abs_det_jacobian(xt, y).item(),
            "ReparameterizedTimeTreeModel()": m().item(),
        }
        if not with_flex:
            raise _SkipFlex(reported, exact, tol, gaps, s)
        # a TransformedParameter wrapping the transform on a FlexibleTimeTreeModel
        dic = {}
        FlexibleTimeTreeModel.from_json(
            {"id": "tree", "type": "FlexibleTimeTreeModel", "newick": G.newick(t),
             "taxa": {"id": "taxa", "type": "Taxa", "taxa": [{"id": f"T{i}", "type": "Taxon", "attributes": {"date": d}}
                                                             for i, d in enumerate(ages)]},
             "internal_heights": {"id": "heights", "type": "TransformedParameter",
                                  "transform": "torchtree.evolution.tree_height_transform.GeneralNodeHeightTransform",
                                  "parameters": {"tree": "tree"},
                                  "x": {"id": "hx", "type": "Parameter", "tensor": x, "dtype": "torch.float64"}}}, dic)
        reported["TransformedParameter()"] = dic["heights"]().item()
        ad = float("nan")
        if with_ad:
            J = jacobian(lambda v: m.transform(v), xt)
            ad = torch.linalg.slogdet(J)[1].item()
        for how, val in reported.items():
            if not abs(val - float(exact)) <= tol:
                record(f"GeneralNodeHeightTransform:logdet-scale:{how}",
                       f"{label}: {how} = {val!r} but the exact log|det J| is {float(exact)!r} (AD Jacobian: {ad!r}; smallest "
                       f"parent−bound gap {min(gaps):.3g}; parameters {x}, sampling times {s})", rep, (n, 1))
                return
        if with_ad and not abs(ad - float(exact)) <= 10 * tol + 1e-9 * abs(ad):
            ck.mismatch("AD Jacobian vs exact model (scale sweep)", {"case": rep, "ad": ad, "exact": float(exact)})
    except _SkipFlex as sk:
        reported, exact, tol, gaps, s = sk.args
        for how, val in reported.items():
            if not abs(val - float(exact)) <= tol:
                record(f"GeneralNodeHeightTransform:logdet-size:{how}",
                       f"{label}: {how} = {val!r} but the exact log|det J| is {float(exact)!r} ({n} taxa, {dtype}, root height {x[-1]!r}, "
                       f"smallest parent−bound gap {min(gaps):.3g})", rep, (n, 1))
                return
    except Exception as e:
        record("GeneralNodeHeightTransform:logdet-scale:raises", f"{label}: raises {type(e).__name__}: {str(e)[:140]}", rep, (n, 1))


def check_scaling_law(ck, rng, record):
    """log|J| at (c·times, ratios, c·root) = log|J| at (times, ratios, root) + (n−2)·log c   [ratio_logdet_scaling];
    the difference transform reports 0 at every scale"""
    for _ in range(12 if ck.thorough() else 5):
        n = rng.randrange(3, 7)
        t = G.random_flip(G.random_topology(n, rng), rng)
        ages = [float(rng.randrange(0, 9)) for _ in range(n)]
        ages[rng.randrange(n)] = 0.0
        r = [rng.uniform(0.05, 0.95) for _ in range(n - 2)]
        root = max(ages) + rng.randrange(1, 9)
        base = G.make_reparam(t, ages, torch.tensor(r + [root], dtype=DT), "ratio")().item()
        for c in (2.0 ** -30, 2.0 ** -20, 2.0 ** -10, 2.0 ** 10, 2.0 ** 20):  # powers of two: scaling is exact in floats
            ck.case(key=("scaling-law", G.paren(t), tuple(ages), tuple(r), c), bucket="scale/ratio/scaling-law")
            got = G.make_reparam(t, [a * c for a in ages], torch.tensor(r + [root * c], dtype=DT), "ratio")().item()
            want = base + (n - 2) * math.log(c)
            if not abs(got - want) <= 1e-10 * max(1.0, abs(want)):
                record("GeneralNodeHeightTransform:logdet-scaling-law",
                       f"times and root height multiplied by {c!r}: log|det J| = {got!r}, but {base!r} + (n−2)·log c = {want!r}",
                       {"type": "scale-ratio", "label": f"scaling law c={c!r}", "tree": G.paren(t), "dates": [a * c for a in ages],
                        "x": [r + [root * c]]}, (n, 1))
                break
            d = G.make_reparam(t, [a * c for a in ages], torch.tensor([rng.choice([1e-9, 1e-6, 1.0]) * c for _ in range(n - 1)], dtype=DT), "difference")
            if d().item() != 0.0:
                record("DifferenceNodeHeightTransform:logdet-scale", f"reports {d().item()!r} instead of 0 at time unit {c!r}",
                       {"type": "scale-other", "name": "difference"}, (n, 1))


# ----------------------------------------------------------------------------- the other transforms
def mp_softplus(x):
    return mp.log1p(mp.e ** mp.mpf(x))


def other_cases(rng):
    """(name, transform, x list, exact log-det: list (element-wise) or single mp value)"""
    from torchtree.distributions import transforms as T

    out = []
    ext_pos = [1e-300, 1e-30, 1e-12, 1e-9, 1e-6, 1.0, 1e6, 1e12, 1e30]
    ext_real = [-300.0, -36.5, -30.0, -20.5, -1e-9, 0.0, 1e-9, 20.0, 20.5, 30.0, 36.5, 300.0]
    xs = rng.sample(ext_pos, 5)
    out.append(("LogTransform", T.LogTransform(), xs, [-mp.log(mp.mpf(v)) for v in xs]))
    xs = rng.sample([v for v in ext_real if abs(v) <= 300], 6)
    out.append(("SoftPlusTransform", T.SoftPlusTransform(), xs, [-mp_softplus(-v) for v in xs]))
    out.append(("torch.SoftplusTransform", D.SoftplusTransform(), xs, [-mp_softplus(-v) for v in xs]))
    xs = rng.sample([v for v in ext_real if abs(v) <= 36.5], 6)
    out.append(("torch.SigmoidTransform", D.SigmoidTransform(), xs, [-mp_softplus(-v) - mp_softplus(v) for v in xs]))
    xs = rng.sample(ext_real, 6)
    out.append(("torch.ExpTransform", D.ExpTransform(), xs, [mp.mpf(v) for v in xs]))
    for sc in (1e-9, 1e9, -1e-12):
        out.append((f"torch.AffineTransform(scale={sc:g})", D.AffineTransform(0.5, sc), [1.0, -2.0],
                    [mp.log(abs(mp.mpf(sc)))] * 2))
    e = rng.choice([-1.0, 0.5, 3.0])
    xs = rng.sample(ext_pos[1:-1], 4)
    out.append((f"torch.PowerTransform({e})", D.PowerTransform(torch.tensor(e, dtype=DT)), xs,
                [mp.log(abs(mp.mpf(e))) + (mp.mpf(e) - 1) * mp.log(mp.mpf(v)) for v in xs]))
    # vector events
    steps = [rng.choice([-60.0, -25.0, -1e-9, 1e-9, 25.0, 60.0]) for _ in range(rng.randrange(2, 6))]
    cs, acc = [], mp.mpf(0)
    for v in steps:
        acc += mp.mpf(v)
        cs.append(acc)
    out.append(("CumSumTransform", T.CumSumTransform(), steps, mp.mpf(0)))
    out.append(("CumSumExpTransform", T.CumSumExpTransform(), steps, sum(cs)))
    out.append(("CumSumSoftPlusTransform", T.CumSumSoftPlusTransform(), steps, sum(-mp_softplus(-c) for c in cs)))
    # stick breaking at large logits
    n = rng.randrange(1, 6)
    # torch forms y through 1 − sigmoid(u) in floats: beyond |u| ~ 12 that cancellation (torch's numerics, not a floor in
    # the formula) costs more than the tolerance, so the logits stay within ±12
    xs = [rng.choice([-12.0, -10.0, -1e-9, 0.0, 10.0, 12.0]) for _ in range(n)]
    z, rem, total = [], mp.mpf(1), mp.mpf(0)
    for i, v in enumerate(xs):
        u = mp.mpf(v) - mp.log(n - i)
        zi = 1 / (1 + mp.e ** (-u))
        yi = zi * rem
        rem *= (1 - zi)
        total += -u + mp.log(zi) + mp.log(yi)
    out.append(("torch.StickBreakingTransform", D.StickBreakingTransform(), xs, total))
    return out


def check_others(ck, rng, record):
    for _ in range(6 if ck.thorough() else 2):
        for name, tr, xs, exact in other_cases(rng):
            ck.case(key=("scale-other", name, tuple(xs)), bucket="scale/" + name.split("(")[0])
            rep = {"type": "scale-other", "name": name, "x": xs}
            try:
                x = torch.tensor(xs, dtype=DT)
                y = tr(x)
                got = tr.log_abs_det_jacobian(x, y)
                if isinstance(exact, list):
                    gl = got.tolist()
                    for v, g, e in zip(xs, gl, exact):
                        if not abs(g - float(e)) <= 1e-9 * abs(float(e)) + 1e-300 + (2e-9 if "Sigmoid" in name or "oftplus" in name.lower() else 0) * (abs(v) > 20):
                            record(f"{name.split('(')[0]}:logdet-scale", f"{name} at x = {v!r}: reports {g!r}, exact value {float(e)!r}", rep, (1, 1))
                            break
                else:
                    g = got.item()
                    if not abs(g - float(exact)) <= 1e-9 * abs(float(exact)) + 1e-12:
                        record(f"{name}:logdet-scale", f"{name} at x = {xs}: reports {g!r}, exact value {float(exact)!r}", rep, (len(xs), 1))
            except Exception as e:
                record(f"{name.split('(')[0]}:logdet-scale:raises", f"{name} at {xs}: raises {type(e).__name__}: {str(e)[:120]}", rep, (1, 1))
    # LogDifferenceRate: rates over 18 orders of magnitude, exact −Σ log r
    from torchtree.evolution.rate_transform import LogDifferenceRateTransform

    for _ in range(6 if ck.thorough() else 3):
        n = rng.randrange(3, 7)
        t = G.random_flip(G.random_topology(n, rng), rng)
        leaf = [0.0] * n
        m = G.make_timetree(t, leaf, [1.0 + i for i in range(n - 1)])
        rates = [rng.choice([1e-9, 1e-6, 1e-3, 1.0, 1e3, 1e9]) * rng.uniform(0.5, 2.0) for _ in range(2 * n - 2)]
        ck.case(key=("scale-lograte", G.paren(t), tuple(rates)), bucket="scale/LogDifferenceRateTransform")
        tr = LogDifferenceRateTransform(m)
        x = torch.tensor(rates, dtype=DT)
        got = tr.log_abs_det_jacobian(x, tr(x)).item()
        exact = float(-sum(mp.log(mp.mpf(v)) for v in rates))
        if not abs(got - exact) <= 1e-9 * abs(exact) + 1e-12:
            record("LogDifferenceRateTransform:logdet-scale", f"rates {rates}: reports {got!r}, exact −Σ log r = {exact!r}",
                   {"type": "scale-other", "name": "lograte", "x": rates, "tree": G.paren(t)}, (n, 1))


def check_big_trees(ck, drv6, rng, record):
    """SIZE regime: 60 / 200 / 500 taxa at several time units, float64 and float32: the true log|det J| is far outside
    the range of exp (a product of the factors over/underflows), the reported value must still be the exact one"""
    plan = [(60, 2000.0, torch.float32), (60, 0.02, torch.float32), (200, 2000.0, DT), (200, 0.02, DT), (200, 30.0, torch.float32)]
    plan += [(500, 2000.0, DT), (500, 0.02, DT)] if ck.thorough() else [(500, rng.choice([2000.0, 0.02]), DT)]
    for n, root, dt in plan:
        t = G.random_flip(G.random_topology(n, rng), rng)
        unit = root / 20.0
        ages = [rng.randrange(0, 17) / 4.0 * unit for _ in range(n)]
        ages[rng.randrange(n)] = 0.0
        # deep trees: ratios near 1 keep every node representably above its bound (relative margin >= 1e-7 in double,
        # 1e-3 in single); points where a node collapses onto its bound in floats are outside the testable domain
        need = 1e-7 if dt == DT else 1e-3
        for lo in (0.6, 0.8, 0.9, 0.95, 0.98):
            x = [rng.uniform(lo, 0.995) for _ in range(n - 2)] + [max(ages) + root]
            if G.ratio_margin(t, ages, x) >= need:
                break
        else:
            continue
        check_ratio(ck, drv6, f"{n} taxa, root height {root:g}, {dt}", t, ages, x, record, dtype=dt, with_ad=False, with_flex=False)


# ----------------------------------------------------------------------------- inverse∘forward over the whole exp range
GRID64 = [-700.0, -100.0, -37.0, -30.0, -20.0, -17.0, -10.0, -1.0, -1e-9, 0.0, 1e-9, 1.0, 10.0, 17.0, 20.0, 30.0, 37.0, 100.0, 700.0]
GRID32 = [-80.0, -37.0, -30.0, -20.0, -17.0, -10.0, -1.0, 0.0, 1.0, 10.0, 17.0, 20.0, 30.0, 37.0, 80.0]


def inverse_cases():
    """(name, constructor, x from grid value g, absolute conditioning of the inverse at y (mp), restrict)"""
    from torchtree.distributions import transforms as T

    def k_softplus(xv):  # d/dy log(expm1 y) * y  at y = softplus(x)
        y = mp.log1p(mp.e ** mp.mpf(xv))
        return y * mp.e ** y / mp.expm1(y)

    def k_logit(xv):  # y * d/dy logit(y) at y = sigmoid(x):  1 / (1 - y)
        return 1 + mp.e ** mp.mpf(xv)

    return [
        ("SoftPlusTransform", lambda: T.SoftPlusTransform(), lambda g: g, k_softplus, None),
        ("torch.SoftplusTransform", lambda: D.SoftplusTransform(), lambda g: g, k_softplus, None),
        ("torch.ExpTransform", lambda: D.ExpTransform(), lambda g: g, lambda xv: mp.mpf(1), None),
        ("torch.SigmoidTransform", lambda: D.SigmoidTransform(), lambda g: g, k_logit, 36.0),
        # LogTransform: x = exp(g) covers 1e-304 … 1e304; forward log, inverse exp: relative error |log x|·eps
        ("LogTransform", lambda: T.LogTransform(), lambda g: math.exp(g), None, None),
    ]


def check_inverse_sweep(ck, rng, record):
    from torchtree.distributions import transforms as T

    for dt, grid, rel, eps in ((DT, GRID64, 1e-12, EPS), (torch.float32, GRID32, 1e-5, 1.1920929e-07)):
        tiny = torch.finfo(dt).tiny
        for name, ctor, to_x, cond, restrict in inverse_cases():
            tr = ctor()
            for g in grid:
                if restrict is not None and abs(g) > restrict:
                    continue
                xv = to_x(g)
                x = torch.tensor([xv], dtype=dt)
                xin = x.to(DT).item()
                ck.case(key=("inverse-sweep", name, g, str(dt)), bucket=f"inverse-sweep/{name}/{dt}")
                try:
                    y = tr(x)
                    yv = y.to(DT).item()
                    if not math.isfinite(yv) or (name != "LogTransform" and name != "torch.ExpTransform" and 0 < abs(yv) < tiny) \
                            or (name == "torch.ExpTransform" and (yv == 0.0 or yv < tiny)) or (name != "LogTransform" and yv == 0.0 and "oftplus" in name.lower()):
                        continue  # forward value not representable (as a normal number) in this dtype
                    back = tr.inv(y).to(DT).item()
                    if name == "LogTransform":
                        tol = (rel + 4 * eps * abs(g)) * abs(xin)
                    else:
                        tol = rel * abs(xin) + 8 * eps * float(cond(xin)) + 4 * eps
                    if not abs(back - xin) <= tol:
                        record(f"{name}:inverse-sweep:{dt}",
                               f"{name} ({dt}): inverse(forward({xin!r})) = {back!r} (forward value {yv!r}; error {abs(back - xin):.3g}, "
                               f"allowed {tol:.3g})", {"type": "inverse-sweep", "name": name, "x": xin, "dtype": str(dt)}, (1, 1))
                        break
                except Exception as e:
                    record(f"{name}:inverse-sweep:raises", f"{name} at {xin!r} ({dt}): raises {type(e).__name__}: {str(e)[:120]}",
                           {"type": "inverse-sweep", "name": name, "x": xin, "dtype": str(dt)}, (1, 1))
                    break
        # cumulative transforms: running sums sweep the grid; error allowed relative to the largest running sum
        for name, ctor in (("CumSumTransform", T.CumSumTransform), ("CumSumExpTransform", T.CumSumExpTransform),
                           ("CumSumSoftPlusTransform", T.CumSumSoftPlusTransform)):
            for g0 in grid:  # every grid value is visited as a running sum, between two random others
                targets = [rng.choice(grid), g0, rng.choice(grid), rng.choice(grid)]
                steps = [targets[0]] + [b - a for a, b in zip(targets, targets[1:])]
                x = torch.tensor(steps, dtype=dt)
                xs = x.to(DT).tolist()
                ck.case(key=("inverse-sweep", name, tuple(steps), str(dt)), bucket=f"inverse-sweep/{name}/{dt}")
                try:
                    tr = ctor()
                    y = tr(x)
                    ys = y.to(DT).tolist()
                    if not all(math.isfinite(v) for v in ys) or (name != "CumSumTransform" and any(v < tiny for v in ys)):
                        continue
                    back = tr.inv(y).to(DT).tolist()
                    cs, acc = [], 0.0
                    for v in xs:
                        acc += v
                        cs.append(acc)
                    big = max(1.0, max(abs(c) for c in cs))
                    tol = rel * big + 16 * eps * big
                    worst = max(abs(a - b) for a, b in zip(back, xs))
                    if not worst <= tol:
                        record(f"{name}:inverse-sweep:{dt}", f"{name} ({dt}): inverse(forward({xs})) = {back} (running sums {cs}; error "
                               f"{worst:.3g}, allowed {tol:.3g})", {"type": "inverse-sweep", "name": name, "x": xs, "dtype": str(dt)}, (len(xs), 1))
                        break
                except Exception as e:
                    record(f"{name}:inverse-sweep:raises", f"{name} at {xs} ({dt}): raises {type(e).__name__}: {str(e)[:120]}",
                           {"type": "inverse-sweep", "name": name, "x": xs, "dtype": str(dt)}, (1, 1))
                    break


# ----------------------------------------------------------------------------- every transform OPTION x scale regimes
UNITS = (1e-6, 1e-3, 1.0, 1e3, 1e6)


def check_option_scale(ck, rng, record):
    """constructor / JSON options of the shipped transforms (k > 0 and cache_size of the increment transform, cache_size of
    the ratio transform, loc/scale of Affine) in every time unit 1e-6 … 1e6 and both float dtypes: forward finite and
    valid, inverse(forward(x)) = x RELATIVE to the magnitude of the heights, log|det J| vs the AD Jacobian, and the same
    through a TransformedParameter (tensor setter = inverse, call = log-Jacobian)"""
    from torchtree import Parameter, TransformedParameter
    from torchtree.evolution.tree_height_transform import DifferenceNodeHeightTransform, GeneralNodeHeightTransform

    options = [("difference", {"k": k_, "cache_size": cs}) for k_ in (0.0, 0.5, 2.0, 20.0) for cs in (0, 1)]
    options += [("ratio", {"cache_size": cs}) for cs in (0, 1)]
    for dt, rel, eps in ((DT, 1e-9, EPS), (torch.float32, 2e-4, 1.1920929e-07)):
        for unit in UNITS:
            for kind, opts in options:
                must = opts.get("k", 0) > 0 and unit >= 1e3  # k·height beyond the exp range: never skipped
                if not ck.thorough() and not must and rng.random() < 0.5:
                    continue
                n = rng.randrange(3, 7)
                t = G.random_flip(G.random_topology(n, rng), rng)
                ages = [rng.randrange(0, 13) / 4.0 * unit for _ in range(n)]
                ages[rng.randrange(n)] = 0.0
                if kind == "ratio":
                    x = [rng.uniform(0.2, 0.8) for _ in range(n - 2)] + [max(ages) + rng.uniform(0.5, 3.0) * unit]
                else:
                    x = [rng.uniform(0.2, 3.0) * unit for _ in range(n - 1)]
                batched = rng.random() < 0.3
                rows = [x, [v * rng.choice([0.5, 1.0, 1.5]) if kind != "ratio" else v for v in x]] if batched else [x]
                rep = {"type": "option-scale", "kind": kind, "options": opts, "unit": unit, "dtype": str(dt), "tree": G.paren(t),
                       "dates": ages, "x": rows, "batched": batched}
                ck.case(key=("option-scale", kind, tuple(sorted(opts.items())), unit, str(dt), G.paren(t)),
                        bucket=f"option×scale/{kind}/" + ",".join(f"{a}={b:g}" for a, b in sorted(opts.items())) + f"/{dt}")
                try:
                    xt = torch.tensor(rows if batched else rows[0], dtype=dt)
                    m = G.make_reparam(t, ages, xt.clone(), kind)
                    tr = (DifferenceNodeHeightTransform(m, **opts) if kind == "difference" else GeneralNodeHeightTransform(m, **opts))
                    y = tr(xt)
                    S = max(float(y.abs().max()), float(xt.abs().max()))
                    probs = []
                    if not torch.isfinite(y).all():
                        probs.append(f"forward gives {y.tolist()}")
                    else:
                        back = tr.inv(y.clone() if opts.get("cache_size") == 0 else y)
                        back2 = tr.inv(y.detach().clone())  # a tensor that is not the cached object
                        for which, b_ in (("inverse(forward(x))", back), ("inverse(copy of forward(x))", back2)):
                            if b_.shape != xt.shape or not torch.isfinite(b_).all() or float((b_ - xt).abs().max()) > rel * S:
                                probs.append(f"{which} = {b_.tolist()} for x = {xt.tolist()} (heights of magnitude {S:.3g})")
                                break
                        ld = tr.log_abs_det_jacobian(xt, y)
                        for b, row in enumerate(rows):
                            xr = torch.tensor(row, dtype=dt)
                            J = jacobian(lambda v: tr(v), xr)
                            true = torch.linalg.slogdet(J.to(DT))[1].item()
                            got = (ld[b] if batched else ld).item()
                            if not abs(got - true) <= (1e-7 if dt == DT else 5e-3) * max(1.0, abs(true)):
                                probs.append(f"log|det J| reported {got!r}, AD Jacobian {true!r} at x = {row}")
                                break
                        # through a TransformedParameter: the tensor setter applies the inverse, the call the log-Jacobian
                        if not probs:
                            p = Parameter("x", xt.clone())
                            tp = TransformedParameter("y", p, tr)
                            tp.tensor = y.detach().clone()
                            if not torch.isfinite(p.tensor).all() or float((p.tensor - xt).abs().max()) > rel * S:
                                probs.append(f"assigning the heights {y.tolist()} to the TransformedParameter writes {p.tensor.tolist()} "
                                             f"into its parameter (expected {xt.tolist()})")
                            elif not torch.allclose(tp().to(DT), ld.to(DT), rtol=1e-9 if dt == DT else 1e-4, atol=1e-9 if dt == DT else 1e-4):
                                probs.append(f"TransformedParameter() = {tp().tolist()} but the transform reports {ld.tolist()}")
                except Exception as e:
                    probs = [f"raises {type(e).__name__}: {str(e)[:140]}"]
                for w in probs[:1]:
                    name = "DifferenceNodeHeightTransform" if kind == "difference" else "GeneralNodeHeightTransform"
                    sig_opt = "k>0" if opts.get("k") else "k=0"
                    record(f"{name}:option-scale:{sig_opt if kind == 'difference' else 'cache'}:{dt}",
                           f"{name}({', '.join(f'{a}={b}' for a, b in opts.items())}), time unit {unit:g}, {dt}: {w}", rep, (n, len(rows)))
        # AffineTransform(loc, scale) at every scale: round trip relative to the magnitude
        for scale in (1e-6, 1e-3, 1.0, 1e3, 1e6, -1e3):
            for loc in (0.0, 2.5 * abs(scale), -1e3):
                tr = D.AffineTransform(loc, scale)
                xs = [rng.uniform(-3, 3) for _ in range(3)]
                xt = torch.tensor(xs, dtype=dt)
                ck.case(key=("option-scale-affine", loc, scale, str(dt)), bucket=f"option×scale/torch.AffineTransform/{dt}")
                y = tr(xt)
                back = tr.inv(y)
                S = max(float(y.abs().max()), abs(loc)) / abs(scale)
                if float((back - xt).abs().max()) > (1e-12 if dt == DT else 1e-4) * max(1.0, S):
                    record(f"torch.AffineTransform:option-scale:{dt}", f"AffineTransform({loc}, {scale}) ({dt}): inverse(forward({xs})) = {back.tolist()}",
                           {"type": "option-scale", "kind": "affine"}, (1, 1))


def run_section(ck, rng, record):
    drv6 = None
    try:
        drv6 = Driver("drv_c06")
    except Exception as e:
        ck.notes.append(f"drv_c06 unavailable for the exact ratio log-det: {e}")
    try:
        if drv6 is not None:
            for label, t, ages, x in ratio_cases(ck, rng):
                check_ratio(ck, drv6, label, t, ages, x, record)
            check_big_trees(ck, drv6, rng, record)
        check_scaling_law(ck, rng, record)
        check_others(ck, rng, record)
        check_inverse_sweep(ck, rng, record)
        check_option_scale(ck, rng, record)
    finally:
        if drv6:
            drv6.close()


def replay(obj):
    """re-evaluate a recorded scale case -> list of (sig, what)"""
    found = []

    class _Ck:
        notes = []

        def case(self, *a, **k):
            pass

        def mismatch(self, *a, **k):
            pass

    if obj["type"] == "scale-ratio":
        drv6 = Driver("drv_c06")
        try:
            big = obj.get("big", False)
            dt = torch.float32 if "float32" in obj.get("dtype", "") else DT
            check_ratio(_Ck(), drv6, obj["label"], G.parse_paren(obj["tree"]), obj["dates"], obj["x"][0],
                        lambda sig, what, rep, size: found.append((sig, what)), dtype=dt, with_ad=not big, with_flex=not big)
        finally:
            drv6.close()
    elif obj["type"] == "option-scale":
        import random

        class _T(_Ck):
            def thorough(self):
                return True

        check_option_scale(_T(), random.Random(0), lambda sig, what, rep, size: found.append((sig, what)))
    elif obj["type"] == "inverse-sweep":
        import random

        check_inverse_sweep(_Ck(), random.Random(0), lambda sig, what, rep, size: found.append((sig, what)))
    return found
