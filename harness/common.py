"""Shared machinery for every ./check <Cxx> run.

Verdict logic (DESIGN.md section 4):
  * every proof obligation of the property builds and audits clean, and the correspondence
    between the Lean model and /repo is clean            -> exit 0
  * something broke -> the property module searches the *implementation* for a concrete failing
    input; `Check.violation(...)` records it (or records `no-failing-input-found`)  -> exit 1
  * a violation whose signature is listed `known:` in KNOWN_FINDINGS.txt prints KNOWN-FINDING
    and does not count
  * infrastructure failure (toolchain missing, timeout)  -> exit 2, no VIOLATION line
"""
from __future__ import annotations

import fcntl
import hashlib
import json
import os
import random
import re
import subprocess
import sys
import time
import traceback
from pathlib import Path

VERIF = Path(__file__).resolve().parent.parent
REPO = Path(os.environ.get("TT_REPO", "/repo")).resolve()
LEAN = VERIF / "lean"
ALLOWED_AXIOMS = {"propext", "Classical.choice", "Quot.sound"}
FORBIDDEN = re.compile(
    r"\bsorry\b|\badmit\b|^\s*axiom\s|native_decide|bv_decide|implemented_by|\bunsafe\s|maxHeartbeats\s+0\b"
)
TRUSTED_BASE = [
    "Lean 4.33.0 kernel + Mathlib v4.33.0 as installed",
    "axioms limited to propext, Classical.choice, Quot.sound (audited per theorem on every run)",
    "Python translators and correspondence harness under /verif/harness (unverified)",
]


class InfraError(Exception):
    pass


def use_repo():
    """make `import torchtree` resolve to the tree under check (TT_REPO or /repo)"""
    p = str(REPO)
    if p in sys.path:
        sys.path.remove(p)
    sys.path.insert(0, p)


def strip_lean_comments(src: str) -> str:
    out = []
    i, n, depth = 0, len(src), 0
    while i < n:
        if src.startswith("/-", i):
            depth += 1
            i += 2
        elif depth and src.startswith("-/", i):
            depth -= 1
            i += 2
        elif depth:
            if src[i] == "\n":
                out.append("\n")
            i += 1
        elif src.startswith("--", i):
            while i < n and src[i] != "\n":
                i += 1
        else:
            out.append(src[i])
            i += 1
    return "".join(out)


class LakeLock:
    """serialises translators + lake builds between concurrently running checks"""

    def __enter__(self):
        d = VERIF / ".locks"
        d.mkdir(exist_ok=True)
        self.f = open(d / "lake.lock", "w")
        fcntl.flock(self.f, fcntl.LOCK_EX)
        return self

    def __exit__(self, *a):
        fcntl.flock(self.f, fcntl.LOCK_UN)
        self.f.close()


def write_if_changed(path: Path, content: str) -> bool:
    path.parent.mkdir(parents=True, exist_ok=True)
    if path.exists() and path.read_text() == content:
        return False
    tmp = path.with_suffix(path.suffix + ".tmp%d" % os.getpid())
    tmp.write_text(content)
    os.replace(tmp, path)
    return True


class Driver:
    """line-protocol pipe to a compiled Lean model driver (lean/.lake/build/bin/<exe>)"""

    def __init__(self, exe: str):
        path = LEAN / ".lake" / "build" / "bin" / exe
        if not path.exists():
            raise InfraError(f"driver {exe} not built")
        self.p = subprocess.Popen(
            [str(path)], stdin=subprocess.PIPE, stdout=subprocess.PIPE, text=True, bufsize=1
        )
        self.n = 0

    def ask(self, line: str) -> str:
        assert "\n" not in line
        self.p.stdin.write(line + "\n")
        self.p.stdin.flush()
        out = self.p.stdout.readline()
        if not out:
            raise InfraError(f"driver died on request: {line[:200]}")
        self.n += 1
        return out.rstrip("\n")

    def ask_many(self, lines):
        """pipeline many requests (writer thread avoids pipe deadlock)"""
        import threading

        lines = list(lines)

        def w():
            for l in lines:
                self.p.stdin.write(l + "\n")
            self.p.stdin.flush()

        t = threading.Thread(target=w)
        t.start()
        outs = []
        for _ in lines:
            o = self.p.stdout.readline()
            if not o:
                raise InfraError("driver died")
            outs.append(o.rstrip("\n"))
        t.join()
        self.n += len(lines)
        return outs

    def close(self):
        try:
            self.p.stdin.close()
            self.p.wait(timeout=10)
        except Exception:
            self.p.kill()


def f2h(x: float) -> str:
    """float -> 16 hex digit IEEE-754 bit pattern (protocol encoding)"""
    import struct

    return "%016x" % struct.unpack("<Q", struct.pack("<d", float(x)))[0]


def h2f(s: str) -> float:
    import struct

    return struct.unpack("<d", struct.pack("<Q", int(s, 16)))[0]


class Check:
    def __init__(self, pid: str, tier: str, seed: int, level: str = "proof"):
        self.pid = pid
        self.tier = tier
        self.seed = seed
        self.level = level
        self.rng = random.Random(seed * 1000003 + int(pid[1:]))
        self.t0 = time.time()
        self.obligations: list[dict] = []  # {name, kind, ok, detail}
        self.evaluations = 0
        self.distinct: set = set()
        self.samples: list = []
        self.dist: dict = {}
        self.mismatches: list = []
        self.violations: list = []
        self.known_hits: list = []
        self.notes: list[str] = []
        self.assumptions: list[str] = []
        self.trusted = list(TRUSTED_BASE)
        self.extra: dict = {}
        self.rule = ""
        self.checker_cmds: list[str] = []
        self.known = self._load_known()
        (VERIF / "replays").mkdir(exist_ok=True)
        (VERIF / "evidence").mkdir(exist_ok=True)

    # ------------------------------------------------------------------ known findings
    def _load_known(self):
        out = []
        f = VERIF / "KNOWN_FINDINGS.txt"
        if f.exists():
            for line in f.read_text().splitlines():
                m = re.match(r"known:\s+property=(C\d+)\s+sig=(\S+)\s+(.*)", line)
                if m and m.group(1) == self.pid:
                    out.append((m.group(2), m.group(3)))
        return out

    # ------------------------------------------------------------------ Lean side
    def thorough(self) -> bool:
        return self.tier == "thorough"

    def lake(self, args, timeout=3000):
        cmd = ["lake"] + list(args)
        try:
            r = subprocess.run(
                cmd, cwd=LEAN, capture_output=True, text=True, timeout=timeout
            )
        except FileNotFoundError:
            raise InfraError("lake not on PATH")
        except subprocess.TimeoutExpired:
            raise InfraError("lake timed out: " + " ".join(cmd))
        return r.returncode, r.stdout + r.stderr

    def translate_and_build(self, gen_files: dict, targets: list[str], props_module: str | None):
        """Write regenerated TTGen files, build `targets` (lake targets), return (ok, log).
        `gen_files` maps path relative to lean/ -> content. Done under the lake lock."""
        with LakeLock():
            for rel, content in gen_files.items():
                write_if_changed(LEAN / rel, content)
            rc, log = self.lake(["build"] + targets)
        self.checker_cmds.append("cd lean && lake build " + " ".join(targets))
        return rc == 0, log

    def theorem_names(self, props_rel: str):
        src = strip_lean_comments((LEAN / props_rel).read_text())
        ns = None
        names = []
        for line in src.splitlines():
            m = re.match(r"\s*namespace\s+(\S+)", line)
            if m and ns is None:
                ns = m.group(1)
            m = re.match(r"\s*(?:@\[[^\]]*\]\s*)?(?:private\s+|protected\s+)?theorem\s+([^\s:({\[]+)", line)
            if m:
                names.append(m.group(1))
        return ns, names

    def failed_theorems(self, props_rel: str, log: str):
        """map `file:line:` error positions of a failed build to theorem names"""
        src = (LEAN / props_rel).read_text().splitlines()
        out = []
        for m in re.finditer(r"error: (\S+?):(\d+):(\d+): (.*)", log):
            if not m.group(1).endswith(props_rel.split("/")[-1]):
                out.append(f"{m.group(1)}:{m.group(2)} {m.group(4)[:160]}")
                continue
            ln = int(m.group(2))
            name = "?"
            for i in range(min(ln, len(src)) - 1, -1, -1):
                mm = re.match(r"\s*(?:theorem|example|lemma|def|instance)\s*([^\s:({\[]*)", src[i])
                if mm:
                    name = mm.group(1) or "example"
                    break
            out.append(f"{name} ({props_rel}:{ln}: {m.group(4)[:160]})")
        if not out:
            errs = [l for l in log.splitlines() if "error" in l]
            out = errs[:5] or ["build failed (no error position parsed)"]
        return out

    def audit(self, props_rel: str, leanchecker: bool | None = None, suffix: str = ""):
        """`#print axioms` on every theorem of the Props file + forbidden-token grep.
        Records one obligation per theorem. Returns True iff all clean."""
        ns, names = self.theorem_names(props_rel)
        module = props_rel[:-5].replace("/", ".")
        lines = [f"import {module}"] + [
            f"#print axioms {ns + '.' if ns else ''}{n}" for n in names
        ]
        gen = LEAN / "Audit" / f"_gen_{self.pid}{suffix}.lean"
        gen.parent.mkdir(exist_ok=True)
        gen.write_text("\n".join(lines) + "\n")
        rc, log = self.lake(["env", "lean", str(gen.relative_to(LEAN))])
        self.checker_cmds.append(f"cd lean && lake env lean Audit/_gen_{self.pid}{suffix}.lean  # #print axioms")
        ok_all = rc == 0
        found = {}
        flat = re.sub(r"\s+", " ", log)
        for m in re.finditer(r"'([^']+)' depends on axioms: \[([^\]]*)\]", flat):
            found[m.group(1)] = {a.strip() for a in m.group(2).split(",") if a.strip()}
        for m in re.finditer(r"'([^']+)' does not depend on any axioms", flat):
            found[m.group(1)] = set()
        for n in names:
            full = f"{ns + '.' if ns else ''}{n}"
            ax = found.get(full)
            if ax is None:
                self.obligations.append(
                    {"name": full, "kind": "theorem", "ok": False, "detail": "not found by #print axioms"}
                )
                ok_all = False
            else:
                bad = sorted(ax - ALLOWED_AXIOMS)
                self.obligations.append(
                    {"name": full, "kind": "theorem", "ok": not bad, "axioms": sorted(ax),
                     **({"detail": "non-standard axioms " + ",".join(bad)} if bad else {})}
                )
                ok_all = ok_all and not bad
        # forbidden tokens anywhere in the Lean tree this property can depend on
        hits = []
        # every package file this property's theorems and driver (transitively) import
        for f in self.import_closure([props_rel, f"Drivers/{self.pid}.lean"]):
            for i, line in enumerate(strip_lean_comments(f.read_text()).splitlines(), 1):
                if FORBIDDEN.search(line):
                    hits.append(f"{f.relative_to(LEAN)}:{i}: {line.strip()[:100]}")
        self.obligations.append(
            {"name": "no sorry/admit/axiom/native_decide/bv_decide/implemented_by/unsafe/maxHeartbeats 0",
             "kind": "grep", "ok": not hits, **({"detail": "; ".join(hits[:5])} if hits else {})}
        )
        ok_all = ok_all and not hits
        if leanchecker if leanchecker is not None else self.thorough():
            rc, log = self.lake(["env", "leanchecker", module], timeout=3000)
            self.checker_cmds.append(f"cd lean && lake env leanchecker {module}")
            self.obligations.append(
                {"name": f"leanchecker {module}", "kind": "recheck", "ok": rc == 0,
                 **({"detail": log[-300:]} if rc else {})}
            )
            ok_all = ok_all and rc == 0
        return ok_all

    def import_closure(self, roots):
        """package-local files (TTModel/TTGen/TTProofs/Drivers) reachable through `import` from `roots`"""
        seen, todo = [], [LEAN / r for r in roots]
        while todo:
            f = todo.pop()
            if f in seen or not f.exists():
                continue
            seen.append(f)
            for m in re.finditer(r"^\s*import\s+((?:TTModel|TTGen|TTProofs|Drivers)[\w.]*)", f.read_text(), re.M):
                todo.append(LEAN / (m.group(1).replace(".", "/") + ".lean"))
        return sorted(seen)

    def lean_side(self, gen_files: dict, targets: list[str], props_rel: str):
        """translate + build + audit. Returns (ok, broken) where broken lists what no longer checks."""
        # companion property files TTProofs/Props/<pid>_*.lean (e.g. composition corollaries) are built and
        # audited with the property
        extra = sorted(str(f.relative_to(LEAN)) for f in (LEAN / "TTProofs" / "Props").glob(self.pid + "_*.lean"))
        targets = list(targets) + [e[:-5].replace("/", ".") for e in extra]
        ok, log = self.translate_and_build(gen_files, targets, props_rel)
        broken = []
        if not ok:
            if "error" not in log and "Lean exited" not in log:
                raise InfraError("lake build failed without a Lean error:\n" + log[-800:])
            for pr in [props_rel] + extra:
                broken += [b for b in self.failed_theorems(pr, log) if b not in broken]
            for b in broken:
                self.obligations.append({"name": b, "kind": "theorem", "ok": False, "detail": "does not build"})
            self.extra["build_log_tail"] = log[-1500:]
            return False, broken
        ok_all = True
        for i, pr in enumerate([props_rel] + extra):
            ok_all = self.audit(pr, suffix="" if i == 0 else f"_{i}") and ok_all
        if not ok_all:
            broken = [o["name"] + ": " + o.get("detail", "") for o in self.obligations if not o["ok"]]
            return False, broken
        return True, []

    def driver(self, exe: str) -> Driver:
        return Driver(exe)

    # ------------------------------------------------------------------ bookkeeping
    def case(self, key=None, sample=None, nontrivial=True, bucket: str | None = None):
        """count one explored case. `key`: hashable identity for distinct counting."""
        self.evaluations += 1
        if nontrivial and key is not None:
            self.distinct.add(key if isinstance(key, (str, int, tuple)) else json.dumps(key, sort_keys=True, default=str))
        if sample is not None and len(self.samples) < 6:
            self.samples.append(sample)
        if bucket:
            self.dist[bucket] = self.dist.get(bucket, 0) + 1

    def bucket(self, name: str, n: int = 1):
        self.dist[name] = self.dist.get(name, 0) + n

    def mismatch(self, what: str, detail):
        """model and implementation disagree (not yet a violation: search decides)"""
        self.mismatches.append({"what": what, "detail": detail})

    def write_replay(self, obj) -> str:
        blob = json.dumps(obj, sort_keys=True, default=str, indent=1)
        h = hashlib.sha1(blob.encode()).hexdigest()[:10]
        p = VERIF / "replays" / f"{self.pid}-{h}.json"
        p.write_text(blob)
        return str(p.relative_to(VERIF))

    def violation(self, sig: str, what: str, replay: dict, found_input: bool = True):
        """report a violation of the property. `sig`: stable signature (call site / class /
        minimal input shape) looked up in KNOWN_FINDINGS.txt."""
        for ksig, ktext in self.known:
            if ksig == sig:
                if sig not in [k[0] for k in self.known_hits]:
                    self.known_hits.append((sig, ktext))
                return
        if any(v["sig"] == sig for v in self.violations):
            return
        replay = dict(replay)
        replay.update({"property": self.pid, "signature": sig, "what": what, "failing_input_found": found_input})
        path = self.write_replay(replay)
        self.violations.append({"sig": sig, "what": what, "replay": path, "found_input": found_input})

    # ------------------------------------------------------------------ finish
    def finish(self) -> int:
        # Safety net for the verdict rule of DESIGN section 4: a proof obligation that no longer checks, or a
        # model/implementation disagreement, always yields a VIOLATION — even when the property module found only
        # failing inputs that are listed as known findings (those do not explain the break).
        broken = [o["name"] for o in self.obligations if not o["ok"]]
        if (broken or self.mismatches) and not self.violations:
            self.violation(
                f"{self.pid}:unproved",
                f"{self.pid} theorems or the model/implementation correspondence no longer check "
                f"({len(broken)} broken obligation(s), {len(self.mismatches)} mismatch(es)) and no unlisted failing input was found",
                {"broken_obligations": broken[:20], "mismatches": self.mismatches[:5]},
                found_input=False,
            )
        wall = time.time() - self.t0
        n_ob = len(self.obligations)
        n_ok = sum(1 for o in self.obligations if o["ok"])
        cov = {
            "obligations": max(n_ob, 1) if n_ob else 0,
            "discharged": n_ok,
            "checker_cmd": " ; ".join(dict.fromkeys(self.checker_cmds)) or "none",
            "trusted_base": self.trusted,
            "evaluations": self.evaluations,
            "distinct_nontrivial": len(self.distinct),
            "rule": self.rule,
            "samples": self.samples if self.samples else ["(no correspondence cases run)"],
            "theorems": self.obligations,
            "input_distribution": self.dist,
            "correspondence_mismatches": self.mismatches[:20],
            "known_findings_hit": [f"{s}: {t}" for s, t in self.known_hits],
            "violations_detail": self.violations,
            "notes": self.notes,
            "repo": str(REPO),
        }
        cov.update(self.extra)
        ev = {
            "property_id": self.pid,
            "tier": self.tier,
            "seed": self.seed,
            "level": self.level,
            "coverage": cov,
            "assumptions": self.assumptions,
            "wall_s": round(wall, 2),
            "violations": len(self.violations),
        }
        (VERIF / "evidence" / f"{self.pid}.json").write_text(json.dumps(ev, indent=1, default=str) + "\n")
        for sig, text in self.known_hits:
            print(f"KNOWN-FINDING: property={self.pid} {text} [sig={sig}]")
        for v in self.violations:
            tail = "" if v["found_input"] else " no-failing-input-found"
            print(f"# {self.pid}: {v['what']}")
            print(f"VIOLATION property={self.pid} replay={v['replay']}{tail}")
        print(
            f"{self.pid} tier={self.tier} seed={self.seed} obligations={n_ok}/{n_ob} "
            f"cases={self.evaluations} distinct={len(self.distinct)} mismatches={len(self.mismatches)} "
            f"violations={len(self.violations)} known={len(self.known_hits)} wall={wall:.1f}s"
        )
        return 1 if self.violations else 0


def main(argv=None):
    import argparse
    import importlib

    ap = argparse.ArgumentParser(prog="check")
    ap.add_argument("property")
    ap.add_argument("--tier", default=os.environ.get("VERIF_TIER", "quick"), choices=["quick", "thorough"])
    ap.add_argument("--replay", default=None)
    args = ap.parse_args(argv)
    pid = args.property.upper()
    try:
        seed = int(os.environ.get("VERIF_SEED", "0"))
    except ValueError:
        seed = 0
    sys.path.insert(0, str(VERIF / "harness"))
    use_repo()
    try:
        mod = importlib.import_module(pid.lower())
    except ModuleNotFoundError as e:
        print(f"no check for {pid}: {e}", file=sys.stderr)
        return 2
    if args.replay:
        return mod.replay(args.replay)
    ck = Check(pid, args.tier, seed, getattr(mod, "LEVEL", "proof"))
    try:
        mod.run(ck)
        return ck.finish()
    except InfraError as e:
        print(f"INFRA-ERROR {pid}: {e}", file=sys.stderr)
        return 2
    except Exception as e:  # noqa: BLE001
        # The harness itself could not complete (typically: the implementation returned something of an
        # unexpected shape/type, or raised, at a place the property module does not guard). The correspondence
        # between model and implementation is then not established: report it as such, naming the exception.
        tb = traceback.format_exc()
        print(tb, file=sys.stderr)
        try:
            ck.violation(
                f"harness:{type(e).__name__}",
                f"the check could not complete its correspondence run against the implementation "
                f"({type(e).__name__}: {str(e)[:200]}); the property is not shown to hold",
                {"exception": f"{type(e).__name__}: {e}", "traceback": tb[-3000:]},
                found_input=False,
            )
            return ck.finish()
        except Exception:  # noqa: BLE001
            traceback.print_exc()
            print(f"INFRA-ERROR {pid}: harness crashed", file=sys.stderr)
            return 2
