"""C11/C14 helper — list tensor constructors of given source files that fix neither dtype nor device
(checklist item "dtype regimes": such tensors take torch's DEFAULT dtype, whatever the inputs are)."""
from __future__ import annotations

import ast
from pathlib import Path

CTORS = {"tensor", "zeros", "ones", "full", "empty", "arange", "eye", "rand", "randn", "linspace", "tril_indices",
         "triu_indices"}


def scan(repo: Path, rel_files):
    out = []
    for rel in rel_files:
        f = repo / rel
        try:
            tree = ast.parse(f.read_text())
        except (OSError, SyntaxError):
            continue
        lines = f.read_text().splitlines()
        for node in ast.walk(tree):
            if (isinstance(node, ast.Call) and isinstance(node.func, ast.Attribute) and node.func.attr in CTORS
                    and isinstance(node.func.value, ast.Name) and node.func.value.id == "torch"):
                kw = {k.arg for k in node.keywords}
                if "dtype" not in kw and "device" not in kw and None not in kw:
                    out.append(f"{rel}:{node.lineno}: {lines[node.lineno - 1].strip()[:100]}")
    return out
