"""C03 — likelihood accuracy does not degrade with tree size (no silent underflow).

Lean side : TTModel/C03_Rescale.lean (plain / rescaled / safe pruning loops as coded, the sticky flag
            automaton), theorems in TTProofs/Props/C03.lean (rescaled_eq_plain, safe_eq_plain, sticky …
            over the reals, for every tree, every matrices, every positive choice of scalers).
Reference : the property's "extended-range reference computation" is the SAME Lean model run at `Rat`
            on the very float64 transition matrices / frequencies / proportions the implementation used
            (captured from the model under test, each double converted to the rational it denotes),
            logarithm by exact decomposition; cross-checked by an independent mpmath pruning from the
            model parameters (matrices recomputed at 40 digits).
Tie       : (1) small trees, the calculate_* functions called directly: power-of-two monomial matrices make
            every operation (including the division by the max) exact -> stored partials bit-equal to the Rat
            model; general dyadic matrices -> plain bit-equal, rescaled/safe to 1e-13;
            (2) the sweep below doubles as correspondence of the full pipeline at 1e-8.
Search    : the sweep on the real TreeLikelihoodModel: tree sizes stepping through the band where site
            likelihoods pass 2.2e-308 -> 5e-324 -> 0, caterpillar / balanced / random shapes, JC69 / HKY /
            JC69+Weibull, tip partials and tip states, single and batched, fresh / repeated / preset-flag
            evaluations, parameter change after the switch.  Oracle = the property: finite and within
            relative 1e-8 of the reference; flag sticky; branch taken as the automaton says.
"""
from __future__ import annotations

import json
import math
import sys
import time
from fractions import Fraction
from pathlib import Path

from common import REPO, VERIF, Check, InfraError, f2h, h2f, use_repo

sys.setrecursionlimit(max(sys.getrecursionlimit(), 50000))  # dendropy's newick reader recurses per nesting level
sys.set_int_max_str_digits(0)  # exact rationals with tens of thousands of digits cross the pipe
LEVEL = "proof"
TOL = 1e-8  # the property's own tolerance
PROPS = "TTProofs/Props/C03.lean"

# ----------------------------------------------------------------------------------------------
# trees (built programmatically: newick text -> torchtree's own parse_tree)
# ----------------------------------------------------------------------------------------------


def shape_newick(shape: str, n: int, rng=None) -> str:
    """newick without branch lengths over taxa t0..t{n-1}"""
    names = ["t%d" % i for i in range(n)]
    if shape == "caterpillar":
        s = "(%s,%s)" % (names[0], names[1])
        for i in range(2, n):
            s = "(%s,%s)" % (s, names[i])
        return s + ";"
    if shape == "balanced":
        level = names
        while len(level) > 1:
            nxt = ["(%s,%s)" % (level[i], level[i + 1]) for i in range(0, len(level) - 1, 2)]
            if len(level) % 2:
                nxt.append(level[-1])
            level = nxt
        return level[0] + ";"
    if shape == "random":
        pool = list(names)
        while len(pool) > 1:
            i = rng.randrange(len(pool))
            a = pool.pop(i)
            j = rng.randrange(len(pool))
            b = pool.pop(j)
            pool.append("(%s,%s)" % (a, b))
        return pool[0] + ";"
    raise ValueError(shape)


_DTYPE = {"name": "float64"}  # default dtype the library runs under (the CLI sets it globally); float32 in part 5
TOL32 = 1e-6  # float32 results: the returned number itself is rounded to 6e-8 relative; 1e-6 leaves room for ~70 taxa


def tt():
    """import torch/torchtree lazily (after use_repo); (re)apply the default dtype of the current regime"""
    use_repo()
    import torch

    torch.set_num_threads(2)
    torch.set_default_dtype(getattr(torch, _DTYPE["name"]))
    return torch


class dtype_regime:
    def __init__(self, name):
        self.name = name

    def __enter__(self):
        self.old = _DTYPE["name"]
        _DTYPE["name"] = self.name
        tt()

    def __exit__(self, *a):
        _DTYPE["name"] = self.old
        tt()


def tol_now():
    return TOL32 if _DTYPE["name"] == "float32" else TOL


class Built:
    pass


class HarnessIntrospection(Exception):
    """the harness could not find something through a PRIVATE name of the library: a recorded mismatch, never a finding"""


def branch_param(like):
    """the parameter object holding the branch lengths / heights of the model's tree (found without relying on one private
    attribute name: first by the usual names, then among the tree model's registered parameters)"""
    tm = like.tree_model
    for name in ("_branch_lengths", "_internal_heights"):
        p = getattr(tm, name, None)
        if p is not None and hasattr(p, "tensor"):
            return p
    for p in getattr(tm, "_parameters", {}).values() if isinstance(getattr(tm, "_parameters", None), dict) else []:
        if hasattr(p, "tensor"):
            return p
    raise HarnessIntrospection("no branch-length parameter found on " + type(tm).__name__)


def build_model(cfg: dict):
    """cfg: shape n t(list or float) model sites(list of str per taxon) K tip_states batch(list of scale
    factors or None) seed_shape.  Returns the real TreeLikelihoodModel and handles to its parameters."""
    torch = tt()
    import random

    from torchtree import Parameter
    from torchtree.evolution.alignment import Alignment, Sequence
    from torchtree.evolution.datatype import NucleotideDataType
    from torchtree.evolution.site_model import ConstantSiteModel, WeibullSiteModel
    from torchtree.evolution.site_pattern import SitePattern
    from torchtree.evolution.substitution_model import GTR, HKY, JC69
    from torchtree.evolution.taxa import Taxa, Taxon
    from torchtree.evolution.tree_likelihood import TreeLikelihoodModel
    from torchtree.evolution.tree_model import UnRootedTreeModel, parse_tree

    n = cfg["n"]
    taxa = Taxa("taxa", [Taxon("t%d" % i, {}) for i in range(n)])
    nwk = shape_newick(cfg["shape"], n, random.Random(cfg.get("seed_shape", 0)))
    tree = parse_tree(taxa, {"newick": nwk})
    bl = branch_tensor(cfg)
    blp = Parameter("bl", bl)
    tm = UnRootedTreeModel("tree", tree, taxa, blp)
    aln = Alignment("aln", [Sequence("t%d" % i, cfg["sites"][i]) for i in range(n)], taxa, NucleotideDataType("nuc"))
    sp = SitePattern("sp", aln)
    if cfg["model"] == "JC69":
        sm = JC69("jc")
    elif cfg["model"] == "HKY":
        sm = HKY("hky", Parameter("kappa", torch.tensor([2.5])), Parameter("freqs", torch.tensor([0.1, 0.2, 0.3, 0.4])))
    elif cfg["model"] == "GTR":
        sm = GTR("gtr", Parameter("rates", torch.tensor([0.1, 0.3, 0.15, 0.15, 0.2, 0.1])),
                 Parameter("freqs", torch.tensor([0.15, 0.35, 0.3, 0.2])))
    else:
        raise ValueError(cfg["model"])
    K = cfg.get("K", 1)
    if K == 1:
        site = ConstantSiteModel("site")
    else:
        site = WeibullSiteModel("site", Parameter("shape", torch.tensor([0.7])), K)
    like = TreeLikelihoodModel("like", sp, tm, sm, site, None, bool(cfg.get("use_ambiguities", False)),
                               bool(cfg.get("tip_states", False)))
    b = Built()
    b.like, b.blp, b.tm, b.sm, b.site = like, blp, tm, sm, site
    return b


def branch_tensor(cfg):
    torch = tt()
    n = cfg["n"]
    nb = 2 * n - 3
    t = cfg["t"]
    base = torch.tensor([float(t)] * nb if not isinstance(t, list) else [float(t[i % len(t)]) for i in range(nb)])
    if cfg.get("batch"):
        return torch.stack([base * float(s) for s in cfg["batch"]])
    return base


def random_sites(rng, n: int, nsites: int):
    return ["".join(rng.choice("ACGT") for _ in range(nsites)) for _ in range(n)]


# ----------------------------------------------------------------------------------------------
# observation of one evaluation: wraps (from outside /repo) the functions the model calls
# ----------------------------------------------------------------------------------------------

FUNCS = [
    "calculate_treelikelihood_discrete",
    "calculate_treelikelihood_discrete_rescaled",
    "calculate_treelikelihood_discrete_safe",
    "calculate_treelikelihood_tip_states_discrete",
    "calculate_treelikelihood_tip_states_discrete_rescaled",
]
SHORT = {
    "calculate_treelikelihood_discrete": "plain",
    "calculate_treelikelihood_discrete_rescaled": "resc",
    "calculate_treelikelihood_discrete_safe": "safe",
    "calculate_treelikelihood_tip_states_discrete": "plain",
    "calculate_treelikelihood_tip_states_discrete_rescaled": "resc",
}


def observe(like):
    """evaluate like() once; returns dict(value tensor | error, calls, mats, freqs, props, flag_before/after)"""
    torch = tt()
    import torchtree.evolution.tree_likelihood as TL

    rec = {"calls": [], "plain_value": None}
    saved = {f: getattr(TL, f) for f in FUNCS}

    def wrap(name):
        real = saved[name]

        def w(partials, weights, post, mats, freqs, props, *a):
            out = real(partials, weights, post, mats, freqs, props, *a)
            rec["calls"].append(SHORT[name])
            rec["mats"], rec["freqs"], rec["props"] = mats.detach().clone(), freqs.detach().clone(), props.detach().clone()
            if SHORT[name] == "plain":
                rec["plain_value"] = out.detach().clone()
            return out

        return w

    rec["flag_before"] = bool(like.rescale)
    wrappers = {f: wrap(f) for f in FUNCS}
    by_id = {id(saved[f]): wrappers[f] for f in FUNCS}
    undo = []  # (container, key, old value): function objects captured at import time in module-level tables

    def rebuild(obj, depth=0):
        """copy of a tuple / NamedTuple with known kernels replaced by their wrappers (None if nothing to replace)"""
        if depth > 3 or not isinstance(obj, tuple):
            return None
        items, changed = [], False
        for x in obj:
            if callable(x) and id(x) in by_id:
                items.append(by_id[id(x)])
                changed = True
            else:
                sub = rebuild(x, depth + 1)
                items.append(sub if sub is not None else x)
                changed = changed or sub is not None
        if not changed:
            return None
        return type(obj)(*items) if hasattr(obj, "_fields") else tuple(items)

    def patch_container(c, depth=0):
        if depth > 3:
            return
        if isinstance(c, dict):
            keys = list(c.keys())
        elif isinstance(c, list):
            keys = list(range(len(c)))
        else:
            return
        for k in keys:
            v = c[k]
            if callable(v) and id(v) in by_id:
                undo.append((c, k, v))
                c[k] = by_id[id(v)]
            elif isinstance(v, tuple):
                nv = rebuild(v)
                if nv is not None:
                    undo.append((c, k, v))
                    c[k] = nv
            elif isinstance(v, (dict, list)):
                patch_container(v, depth + 1)

    try:
        for f in FUNCS:
            setattr(TL, f, wrappers[f])
        for mod_name in {TL.__name__} | {getattr(saved[f], "__module__", TL.__name__) for f in FUNCS}:
            mod = sys.modules.get(mod_name)
            if mod is None:
                continue
            for gname, gval in list(vars(mod).items()):
                if gname.startswith("__"):
                    continue
                if isinstance(gval, (dict, list)):
                    patch_container(gval)
                elif isinstance(gval, tuple):
                    nv = rebuild(gval)
                    if nv is not None:
                        undo.append((vars(mod), gname, gval))
                        setattr(mod, gname, nv)
                elif callable(gval) and id(gval) in by_id and gname not in FUNCS:
                    undo.append((vars(mod), gname, gval))
                    setattr(mod, gname, by_id[id(gval)])
        try:
            if hasattr(like, "_call"):
                v = like._call()
            else:  # the framework hook was renamed: force a recomputation through the public call
                like.lp_needs_update = True
                v = like()
            rec["value"] = v.detach().clone()
        except Exception as e:  # the implementation raised: an oracle failure, not a harness crash
            rec["error"] = "%s: %s" % (type(e).__name__, str(e)[:200])
    finally:
        for f, r in saved.items():
            setattr(TL, f, r)
        for c, k, v in reversed(undo):
            c[k] = v
    rec["flag_after"] = bool(like.rescale)
    return rec


def branch_name(calls, tip_states):
    if calls == ["plain"]:
        return "plain"
    if calls == ["resc"]:
        return "rescaled"
    if calls == ["plain", "safe"]:
        return "plain+safe"
    if calls == ["plain", "resc"]:
        return "plain+resc"
    return "?" + "+".join(calls)


# ----------------------------------------------------------------------------------------------
# the reference: Lean model at Rat on the captured float64 inputs
# ----------------------------------------------------------------------------------------------


def hexes(t):
    """flat list of float64 -> hex bit patterns"""
    import numpy as np

    a = np.ascontiguousarray(t.detach().cpu().numpy().astype("float64")).ravel()
    return ["%016x" % x for x in a.view("uint64").tolist()]


def run_line(scalar, variant, out, N, K, S, post, nb, ntips, thr, mats, freqs, props, weights, tips_tokens):
    toks = ["run", scalar, variant, out, str(N), str(K), str(S), str(len(post)), str(nb), str(ntips), f2h(thr)]
    for tr in post:
        toks += [str(int(tr[0])), str(int(tr[1])), str(int(tr[2]))]
    toks += hexes(mats) + hexes(freqs) + hexes(props) + hexes(weights) + tips_tokens
    return " ".join(toks)


def tips_tokens_partials(partials, ntips):
    """tip tensors [S,N] -> order [tip][site][state]"""
    toks = []
    for i in range(ntips):
        toks += hexes(partials[i].t())
    return toks


def tips_tokens_states(partials, ntips):
    toks = []
    for i in range(ntips):
        toks += [str(int(x)) for x in partials[i].tolist()]
    return toks


def parse_val(tok: str, scalar: str):
    if scalar == "F":
        return h2f(tok)
    if "/" in tok:
        p, q = tok.split("/")
        return Fraction(int(p), int(q))
    return Fraction(int(tok))


def parse_reply(rep: str, scalar: str, N: int, K: int, S: int, ntrip: int):
    """-> dict(total, logs[, nodes, scalers, resc])"""
    if not rep.startswith("ok "):
        return {"error": rep[:80]}
    w = rep.split()
    out = {"total": parse_val(w[2], scalar), "logs": [parse_val(x, scalar) for x in w[4:4 + N]]}
    i = 4 + N
    if i < len(w) and w[i] == "nodes":
        cnt = ntrip * N * K * S
        out["nodes"] = [parse_val(x, scalar) for x in w[i + 1:i + 1 + cnt]]
        i += 1 + cnt
        assert w[i] == "nsc"
        m = int(w[i + 1])
        assert w[i + 2] == "scalers"
        out["scalers"] = [parse_val(x, scalar) for x in w[i + 3:i + 3 + m * N]]
        i += 3 + m * N
        assert w[i] == "resc"
        out["resc"] = [int(x) for x in w[i + 1:]]
    return out


def reference(drv, like, mats, freqs, props, sample=None):
    """exact per-model reference log-likelihood for captured inputs (one sample of a batch if `sample` given).
    Returns (float total, list of per-site logs) or raises InfraError."""
    torch = tt()
    if sample is not None:
        mats = mats[sample] if mats.dim() == 5 else mats
        freqs = freqs[sample] if freqs.dim() == 3 else freqs
        props = props[sample] if props.dim() == 4 else props
    assert mats.dim() == 4, mats.shape
    nb, K, S, _ = mats.shape
    post = like.tree_model.postorder
    ntips = len(post) + 1
    N = like.weights.shape[0]
    if like.use_tip_states:
        toks = tips_tokens_states(like.partials, ntips)
        variant = "tsplain"
    else:
        toks = tips_tokens_partials(like.partials, ntips)
        variant = "plain"
    line = run_line("R", variant, "l", N, K, S, post, nb, ntips, 0.0, mats, freqs.reshape(-1), props.reshape(-1),
                    like.weights.to(torch.float64), toks)
    rep = drv.ask(line)
    r = parse_reply(rep, "R", N, K, S, len(post))
    if "error" in r:
        return None, r["error"]
    return float(r["total"]), [float(x) for x in r["logs"]]


# ----------------------------------------------------------------------------------------------
# independent cross-check of the reference: mpmath pruning from the model PARAMETERS
# ----------------------------------------------------------------------------------------------


def mp_reference(cfg, like, sample=None):
    """JC69 (+ constant site model) only: matrices from the closed form at 40 digits, pruning in mpmath."""
    import mpmath as mp

    mp.mp.dps = 40
    assert cfg["model"] == "JC69" and cfg.get("K", 1) == 1
    bl = branch_tensor(cfg)
    if sample is not None:
        bl = bl[sample]
    bls = [mp.mpf(float(x)) for x in bl.tolist()] + [mp.mpf(0)]
    post = like.tree_model.postorder
    ntips = len(post) + 1
    N = like.weights.shape[0]
    total = mp.mpf(0)
    # tip patterns as state indices (works for both tip modes)
    if like.use_tip_states:
        states = [[int(x) for x in like.partials[i].tolist()] for i in range(ntips)]
    else:
        states = [[int(like.partials[i][:, s].argmax()) for s in range(N)] for i in range(ntips)]
    ab = []
    for t in bls:
        e = mp.e ** (-mp.mpf(4) / 3 * t)
        ab.append((mp.mpf(1) / 4 + mp.mpf(3) / 4 * e, mp.mpf(1) / 4 - e / 4))
    for s in range(N):
        part = {}
        for i in range(ntips):
            part[i] = [mp.mpf(1) if j == states[i][s] else mp.mpf(0) for j in range(4)]
        for node, l, r in post:
            vals = []
            for c in (l, r):
                a, b = ab[c]
                tot = sum(part[c])
                vals.append([b * tot + (a - b) * part[c][j] for j in range(4)])
            part[node] = [vals[0][j] * vals[1][j] for j in range(4)]
        total += mp.log(sum(part[post[-1][0]]) / 4) * int(like.weights[s])
    return float(total)


# ----------------------------------------------------------------------------------------------
# part 1: small-tree correspondence, functions called directly
# ----------------------------------------------------------------------------------------------


def gen_small(rng, kind: str):
    """random small instance. kind 'pow2': monomial power-of-two matrices (all three passes exact);
    'dyadic': small dyadic entries (plain exact)."""
    n = rng.choice([2, 3, 4, 5, 6]) if kind == "dyadic" else rng.choice([3, 4, 5, 6, 7, 8, 10])
    S = rng.choice([2, 3, 4])
    K = rng.choice([1, 2, 3])
    N = rng.choice([1, 2, 3])
    nb = 2 * n - 2
    # random post-order over leaves 0..n-1, internal n..2n-2
    pool = list(range(n))
    rng.shuffle(pool)
    post = []
    nxt = n
    while len(pool) > 1:
        i = rng.randrange(len(pool))
        a = pool.pop(i)
        j = rng.randrange(len(pool))
        b = pool.pop(j)
        post.append((nxt, a, b))
        pool.insert(rng.randrange(len(pool) + 1), nxt)
        nxt += 1
    mats = [[[[0.0] * S for _ in range(S)] for _ in range(K)] for _ in range(nb)]
    for b in range(nb):
        for k in range(K):
            for i in range(S):
                if kind == "pow2":
                    j = rng.randrange(S)
                    mats[b][k][i][j] = 2.0 ** (-rng.randrange(0, 40))
                else:
                    for j in range(S):
                        mats[b][k][i][j] = rng.choice([0, 1, 1, 2, 3]) / 4.0
    tips = []
    states_mode = rng.random() < 0.5  # tips expressible as states (one-hot or fully ambiguous): tip-state variants run too
    for i in range(n):
        cols = []
        for s in range(N):
            if states_mode:
                if rng.random() < (0.3 if kind == "pow2" else 0.7):
                    v = [0.0] * S
                    v[rng.randrange(S)] = 1.0
                else:
                    v = [1.0] * S
            else:
                v = [float(rng.random() < (0.8 if kind == "pow2" else 0.6)) for _ in range(S)]
                if not any(v):
                    v[rng.randrange(S)] = 1.0
            cols.append(v)
        tips.append(cols)  # [site][state]
    if kind == "pow2":
        freqs = [2.0 ** (-rng.randrange(0, 4)) for _ in range(S)]
        props = [2.0 ** (-rng.randrange(0, 4)) for _ in range(K)]
    else:
        freqs = [rng.choice([1, 2, 3]) / 8.0 for _ in range(S)]
        props = [rng.choice([1, 2, 3]) / 4.0 for _ in range(K)]
    weights = [float(rng.choice([1, 1, 2, 5])) for _ in range(N)]
    thr = rng.choice([2.0 ** -20, 2.0 ** -60, 2.0 ** -3, 1e-40]) if kind == "pow2" else rng.choice([0.3, 0.05, 1e-40, 2.0])
    return {"kind": kind, "n": n, "S": S, "K": K, "N": N, "post": post, "mats": mats, "tips": tips,
            "freqs": freqs, "props": props, "weights": weights, "thr": thr}


def call_direct(case, variant):
    """call the real function. Returns (log_p float | None, list of internal partial tensors [K,S,N] by triple
    order | None, error)"""
    torch = tt()
    import torchtree.evolution.tree_likelihood as TL

    n, S, K, N = case["n"], case["S"], case["K"], case["N"]
    mats = torch.tensor(case["mats"])
    freqs = torch.tensor(case["freqs"]).reshape(1, S)
    props = torch.tensor(case["props"]).reshape(K, 1, 1)
    weights = torch.tensor(case["weights"])
    post = [list(t) for t in case["post"]]
    if variant.startswith("ts"):
        partials = [torch.tensor([_state_of(case["tips"][i][s]) for s in range(N)]) for i in range(n)]
    else:
        partials = [torch.tensor(case["tips"][i]).t().contiguous() for i in range(n)]
    partials += [None] * (n - 1)
    try:
        if variant == "plain":
            v = TL.calculate_treelikelihood_discrete(partials, weights, post, mats, freqs, props)
        elif variant == "resc":
            v = TL.calculate_treelikelihood_discrete_rescaled(partials, weights, post, mats, freqs, props)
        elif variant == "safe":
            TL.calculate_treelikelihood_discrete(partials, weights, post, mats, freqs, props)
            v = TL.calculate_treelikelihood_discrete_safe(partials, weights, post, mats, freqs, props, case["thr"])
        elif variant == "tsplain":
            v = TL.calculate_treelikelihood_tip_states_discrete(partials, weights, post, mats, freqs, props)
        elif variant == "tsresc":
            v = TL.calculate_treelikelihood_tip_states_discrete_rescaled(partials, weights, post, mats, freqs, props)
        else:
            raise ValueError(variant)
    except Exception as e:
        return None, None, "%s: %s" % (type(e).__name__, str(e)[:160])
    nodes = [partials[t[0]] for t in post]
    return v, nodes, None


def _state_of(vec):
    ones = [j for j, x in enumerate(vec) if x == 1.0]
    return ones[0] if len(ones) == 1 else len(vec)


def model_direct(drv, case, variant, scalar="R"):
    torch = tt()
    n, S, K, N = case["n"], case["S"], case["K"], case["N"]
    mats = torch.tensor(case["mats"])
    if variant.startswith("ts"):
        toks = []
        for i in range(n):
            toks += [str(_state_of(case["tips"][i][s])) for s in range(N)]
    else:
        toks = []
        for i in range(n):
            toks += hexes(torch.tensor(case["tips"][i]))
    line = run_line(scalar, variant, "x", N, K, S, case["post"], 2 * n - 2, n, case["thr"], mats,
                    torch.tensor(case["freqs"]), torch.tensor(case["props"]), torch.tensor(case["weights"]), toks)
    return parse_reply(drv.ask(line), scalar, N, K, S, len(case["post"]))


def rel(a, b):
    if a == b:
        return 0.0
    if any(map(lambda x: isinstance(x, float) and (math.isnan(x) or math.isinf(x)), (a, b))):
        return float("inf")
    return abs(a - b) / max(abs(a), abs(b), 1e-300)


def small_correspondence(ck: Check, drv, count: int, fails=None):
    torch = tt()
    for it in range(count):
        kind = "pow2" if it % 2 == 0 else "dyadic"
        for _try in range(8):  # mostly positive likelihoods; a degenerate (zero-likelihood) case now and then
            case = gen_small(ck.rng, kind)
            v0, _n0, e0 = call_direct(case, "plain")
            if (e0 is None and math.isfinite(float(v0))) or ck.rng.random() < 0.03:
                break
        only_states = all(_state_of(case["tips"][i][s]) <= case["S"] and
                          (sum(case["tips"][i][s]) in (1.0, float(case["S"]))) for i in range(case["n"]) for s in range(case["N"]))
        variants = ["plain", "resc", "safe"] + (["tsplain", "tsresc"] if only_states else [])
        plain_v = None
        for variant in variants:
            if variant == "tsplain":
                plain_v = None
            v, nodes, err = call_direct(case, variant)
            # the property's own oracle on the implementation: rescaled / safe agree with the unrescaled value
            if err is None and math.isfinite(float(v)):
                if variant in ("plain", "tsplain"):  # tip-state variants are compared with the tip-state plain pass
                    plain_v = float(v)
                elif plain_v is not None and rel(float(v), plain_v) > TOL and fails is not None:
                    fails.append({"kind": "direct-disagree", "variant": variant, "case": case, "cfg": {"n": case["n"]},
                                  "values": [float(v)], "reference": [plain_v], "rel_err": rel(float(v), plain_v),
                                  "calls": [variant], "label": "direct call"})
            m = model_direct(drv, case, variant)
            key = (kind, variant, case["n"], case["S"], case["K"], case["N"], it)
            ck.case(key=key, bucket=f"small/{kind}/{variant}",
                    sample={"small": kind, "variant": variant, "n": case["n"], "S": case["S"], "K": case["K"],
                            "N": case["N"], "impl": None if v is None else float(v), "model": str(m.get("total", m.get("error")))[:40]})
            if err is not None or "error" in m:
                # both must fail together: a zero scaler / zero likelihood (0/0 -> nan, log 0 -> -inf in torch,
                # `nonpos` in the model); no node rescaled in the safe pass (torch.cat([]) raises, `empty-scalers`)
                impl_bad = err is not None or not math.isfinite(float(v))
                if m.get("error") == "empty-scalers" and not (err or "").startswith(("ValueError", "RuntimeError")):
                    impl_bad = not impl_bad  # force the mismatch below
                if impl_bad != ("error" in m):
                    ck.mismatch("small-tree: one side fails", {"case": case, "variant": variant, "impl": err or float(v), "model": m.get("error", "ok")})
                else:
                    ck.bucket("small/degenerate-both")
                continue
            if not math.isfinite(float(v)):
                ck.mismatch("small-tree: implementation not finite, model finite", {"case": case, "variant": variant, "impl": float(v)})
                continue
            # stored partials for every internal node, in triple order, [site][cat][state]
            S, K, N = case["S"], case["K"], case["N"]
            impl_nodes = []
            for p in nodes:
                p = p if p.dim() == 3 else p.expand(K, S, N)
                impl_nodes += p.permute(2, 0, 1).reshape(-1).tolist()
            mod_nodes = m["nodes"]
            exact = kind == "pow2" or variant in ("plain", "tsplain")
            bad = None
            for a, b in zip(impl_nodes, mod_nodes):
                if exact:
                    if Fraction(a) != b:
                        bad = (a, str(b))
                        break
                elif rel(a, float(b)) > 1e-13:
                    bad = (a, float(b))
                    break
            if bad or len(impl_nodes) != len(mod_nodes):
                ck.mismatch("small-tree: stored partials differ", {"case": case, "variant": variant, "first": bad, "exact": exact})
                continue
            if rel(float(v), float(m["total"])) > 1e-13:
                ck.mismatch("small-tree: log-likelihood differs", {"case": case, "variant": variant, "impl": float(v), "model": float(m["total"])})


# ----------------------------------------------------------------------------------------------
# part 2: the sweep
# ----------------------------------------------------------------------------------------------


def band_sizes(per_taxon_log: float, thorough: bool):
    """tree sizes stepping through the band where the smallest site likelihood passes
    2.2e-308 (log -708.4) -> 4.9e-324 (log -744.4) -> 0.  Targets are site log-likelihoods; the part of the
    band where a plain float64 pass has lost enough bits to miss 1e-8 is its lower third, so sizes are denser there."""
    # around -92 (= log 1e-40, the `threshold` at which the repaired model leaves the plain pass): the sizes where the
    # plain result is still kept / just abandoned, i.e. "before and after the switch"
    if thorough:
        targets = ([-40.0, -70.0, -84.0, -88.0, -90.0, -92.0, -94.0, -96.0, -100.0, -130.0, -300.0, -660.0, -690.0]
                   + [-700.0 - 1.0 * i for i in range(49)] + [-750.0, -760.0, -800.0])
    else:
        targets = [-90.0, -96.0, -709.0, -722.0, -730.0, -735.0, -739.0, -742.0, -744.2, -748.0]
    return sorted({max(4, int(round(-t / per_taxon_log))) for t in targets})


class Hist:
    """one real TreeLikelihoodModel and the history of operations applied to it (what a replay re-executes)"""

    def __init__(self, cfg):
        self.cfg = cfg
        self.b = build_model(cfg)
        self.ops = []
        self.scale = 1.0

    def preset(self):
        self.b.like.rescale = True
        self.ops.append({"op": "set-rescale-flag"})

    def scale_branches(self, f):
        self.b.blp.tensor = self.b.blp.tensor * f
        self.scale *= f
        self.ops.append({"op": "scale-branch-lengths", "factor": f})

    def apply_op(self, name):
        """history steps that are not parameter updates; exceptions propagate to the caller (who records them)"""
        import copy

        if name == "cpu":
            self.b.like.cpu()
        elif name == "to-cpu":
            self.b.like.to("cpu")
        elif name == "deepcopy-and-continue-on-copy":
            like2 = copy.deepcopy(self.b.like)
            self.b = Built()
            self.b.like = like2
            self.b.blp = branch_param(like2)
        self.ops.append({"op": name})

    def set_sample_scales(self, factors):
        """batched model: sample s gets the base branch lengths times factors[s] (a parameter update)"""
        torch = tt()
        base = branch_tensor({k: v for k, v in self.cfg.items() if k != "batch"})
        self.b.blp.tensor = torch.stack([base * float(f) for f in factors])
        self.scale = tuple(float(f) for f in factors)
        self.ops.append({"op": "set-sample-scales", "factors": [float(f) for f in factors]})

    def evaluate(self):
        self.ops.append({"op": "evaluate"})
        return observe(self.b.like)


def cfg_public(cfg):
    return {k: v for k, v in cfg.items() if k != "sites"}


def check_wf(ck, drv, like):
    post = like.tree_model.postorder
    T = len(post) + 1
    rep = drv.ask("wf %d %d %s" % (T, len(post), " ".join("%d %d %d" % tuple(t) for t in post)))
    ck.bucket("postorder-wf")
    if rep != "1":
        ck.mismatch("post-order of a real tree model violates the well-formedness hypothesis of the theorems",
                    {"taxa": T, "reply": rep, "postorder_head": [list(t) for t in post[:6]]})


def eval_and_check(ck, drv, h: Hist, label, refs, fails, want_mp=False, group="sweep"):
    """one evaluation of the real model, compared with the reference. `refs`: cache key->(total, logs)."""
    torch = tt()
    cfg = h.cfg
    like = h.b.like
    rec = h.evaluate()
    tipst = bool(cfg.get("tip_states", False))
    info = {"cfg": cfg_public(cfg), "label": label, "history": list(h.ops),
            "flag_before": rec["flag_before"], "flag_after": rec["flag_after"], "calls": rec["calls"]}
    if "error" in rec:
        fails.append(dict(info, kind="raised", error=rec["error"], sites=cfg["sites"]))
        ck.case(key=(label, json.dumps(info["cfg"], sort_keys=True)), bucket="sweep/raised")
        return rec
    if "mats" not in rec:  # the kernels were not observed (called through a route the harness cannot wrap)
        ck.mismatch("kernel arguments not observed (harness could not intercept the likelihood kernels): evaluation skipped",
                    {"label": label, "cfg": info["cfg"]})
        ck.case(key=(label, json.dumps(info["cfg"], sort_keys=True), "unobserved"), bucket=f"{group}/unobserved")
        return rec
    v = rec["value"]
    batch = cfg.get("batch")
    want_n = len(batch) if batch else 1
    if not hasattr(v, "reshape") or v.numel() != want_n:  # unexpected type/shape: a recorded failure, never an exception
        fails.append(dict(info, kind="bad-shape", got=str(getattr(v, "shape", type(v))), sites=cfg["sites"],
                          values=None, reference=None, rel_err=None))
        ck.case(key=(label, json.dumps(info["cfg"], sort_keys=True), "bad-shape"), bucket=f"{group}/bad-shape")
        return rec
    vals = [float(x) for x in v.reshape(-1).tolist()]
    ref_vals, site_min = [], []
    for s in range(len(vals)):
        kc = dict(info["cfg"])
        if all(ch in "ACGT" for row in cfg["sites"] for ch in row):
            kc.pop("tip_states", None)  # both tip paths denote the same number on unambiguous data
        kc["sites_hash"] = hash(tuple(cfg["sites"]))
        for extra_key in ("route", "route_opts", "dtype", "run_under", "mixed", "batch_history"):
            kc.pop(extra_key, None) if extra_key not in ("dtype",) else None
        kc.pop("batch", None) if isinstance(h.scale, tuple) else None
        sc_key = round(h.scale[s], 12) if isinstance(h.scale, tuple) else (round(h.scale * (batch[s] if batch else 1.0), 12))
        key = (json.dumps({k: v for k, v in kc.items() if k != "batch"}, sort_keys=True), sc_key)
        if key not in refs:
            tot, logs = reference(drv, like, rec["mats"], rec["freqs"], rec["props"], s if batch else None)
            if tot is None:
                raise InfraError("reference failed: " + str(logs))
            refs[key] = (tot, logs)
        ref_vals.append(refs[key][0])
        site_min.append(min(refs[key][1]))
    info.update(values=vals, reference=ref_vals, min_site_log=site_min)
    branch = branch_name(rec["calls"], tipst)
    worst = 0.0
    for s, (x, r) in enumerate(zip(vals, ref_vals)):
        e = rel(x, r)
        worst = max(worst, e if math.isfinite(e) else 1.0)
        lo_n, lo_d = (-87.3, -103.2) if _DTYPE["name"] == "float32" else (-708.39, -744.4)
        zone = "normal" if site_min[s] > lo_n else ("denormal" if site_min[s] > lo_d else "zero")
        ck.case(key=(group, label, cfg["shape"], cfg["model"], cfg["n"], cfg.get("K", 1), tipst, s, branch,
                     cfg["t"] if not isinstance(cfg["t"], list) else tuple(cfg["t"])),
                bucket=f"{group}/{zone}/{branch}",
                sample={"sweep": label, "shape": cfg["shape"], "model": cfg["model"], "n": cfg["n"], "branch": branch,
                        "impl": x, "reference": r, "rel_err": e, "min_site_log": site_min[s]})
        if not math.isfinite(x):
            fails.append(dict(info, kind="not-finite", sample=s, rel_err=None, sites=cfg["sites"]))
        elif e > tol_now():
            fails.append(dict(info, kind="inaccurate", sample=s, rel_err=e, sites=cfg["sites"]))
    info["rel_err"] = worst
    # automaton: sticky flag and branch structure
    pv = rec["plain_value"]
    plain_inf = bool(torch.any(torch.isinf(pv))) if pv is not None else False
    switched = (not rec["flag_before"]) and rec["flag_after"]
    rep = drv.ask("flags %d %d %d" % (1 if tipst else 0, 1 if rec["flag_before"] else 0, 1 if switched else 0))
    want_branch, want_flag = rep.split()
    if branch != want_branch or rec["flag_after"] != (want_flag == "1") or (plain_inf and not rec["flag_after"]) \
            or (rec["flag_before"] and not rec["flag_after"]):
        fails.append(dict(info, kind="flag-automaton", model=rep, plain_inf=plain_inf, sites=cfg["sites"]))
    if want_mp:
        for s in range(len(vals)):
            mpv = mp_reference(cfg, like, s if batch else None)
            if rel(mpv, ref_vals[s]) > 1e-11:
                ck.mismatch("reference (Lean model at Rat) disagrees with independent mpmath pruning",
                            {"cfg": info["cfg"], "rat": ref_vals[s], "mpmath": mpv})
            ck.bucket("reference-crosscheck/mpmath")
    rec["info"] = info
    return rec


def per_taxon_log(drv, cfg0):
    """how fast site log-likelihoods shrink with tree size for this configuration (probe at 64 taxa)"""
    cfg = dict(cfg0, n=64)
    cfg["sites"] = cfg0["sites"][:64]
    b = build_model(cfg)
    rec = observe(b.like)
    if "error" in rec or "mats" not in rec:
        return None
    tot, logs = reference(drv, b.like, rec["mats"], rec["freqs"], rec["props"], None)
    if tot is None:
        return None
    return -min(logs) / 64.0


def sweep(ck: Check, drv, budget_s: float):
    rng = ck.rng
    thorough = ck.thorough()
    fails = []
    t_start = time.time()
    # (shape, model, K, t, tip_states)
    configs = [
        ("balanced", "HKY", 1, 2.0, False),
        ("random", "JC69", 4, 1.5, False),
        ("balanced", "HKY", 1, 3.0, True),
        ("caterpillar", "JC69", 1, 5.0, False),  # slowest (deep recursion, largest rationals): last, gets what is left
    ]
    if thorough:
        configs += [
            ("random", "GTR", 1, 1.0, False),
            ("caterpillar", "HKY", 4, 3.0, False),
            ("random", "JC69", 1, 0.7, True),
            ("balanced", "JC69", 1, [0.3, 5.0, 1.0], False),
        ]
    refs = {}
    for ci, (shape, model, K, t, tipst) in enumerate(configs):
        t_cfg = time.time()
        per_cfg = max(0.0, budget_s - (t_cfg - t_start)) / (len(configs) - ci)  # unused time rolls over
        nsites = (5 if thorough else 2) if K == 1 else (2 if thorough else 1)
        nmax = 1400
        sites_all = random_sites(rng, nmax, nsites)
        base = {"shape": shape, "model": model, "K": K, "t": t, "tip_states": tipst, "seed_shape": rng.randrange(10 ** 6),
                "sites": sites_all, "n": 0}
        d = per_taxon_log(drv, base)
        if d is None or d <= 0:
            ck.notes.append(f"probe failed for {shape}/{model}")
            continue
        sizes = [n for n in band_sizes(d, thorough) if n <= nmax]
        ck.extra.setdefault("sweep_sizes", {})[f"{shape}/{model}/K={K}/t={t}/{'tip-states' if tipst else 'tip-partials'}"] = sizes
        # the batch / parameter-change histories first (they are the rarer inputs), then the size sweep
        order = list(range(len(sizes)))
        rng.shuffle(order)  # if the budget cuts the sweep short, the sizes covered are spread over the band
        big = [n for n in sizes if n * d > 600.0] or sizes
        mid = big[len(big) // 2]
        # (d) a batch in which only some samples underflow, evaluated twice
        cfgb = dict(base, n=mid, sites=sites_all[:mid], batch=[1.0, 0.01, 0.6])
        hb = Hist(cfgb)
        check_wf(ck, drv, hb.b.like)
        eval_and_check(ck, drv, hb, "batch-fresh", refs, fails)
        eval_and_check(ck, drv, hb, "batch-repeat", refs, fails)
        # (e) parameter change after the switch: flag must stay, value must follow the new parameters
        cfgh = dict(base, n=sizes[-1], sites=sites_all[:sizes[-1]])
        hh = Hist(cfgh)
        eval_and_check(ck, drv, hh, "hist-0-underflow", refs, fails)
        hh.scale_branches(0.02)
        eval_and_check(ck, drv, hh, "hist-1-short-branches", refs, fails)
        hh.scale_branches(50.0)
        eval_and_check(ck, drv, hh, "hist-2-back", refs, fails)
        for oi, si in enumerate(order):
            n = sizes[si]
            if time.time() - t_cfg > per_cfg or time.time() - t_start > budget_s:
                ck.notes.append(f"sweep budget reached in config {ci} ({shape}/{model}) after {oi} of {len(sizes)} sizes")
                break
            cfg = dict(base, n=n, sites=sites_all[:n])
            # (a) fresh model: first evaluation, then a repeated evaluation (after a switch: rescaled branch)
            h1 = Hist(cfg)
            want_mp = model == "JC69" and K == 1 and oi < 2 and not isinstance(t, list)
            eval_and_check(ck, drv, h1, "fresh", refs, fails, want_mp=want_mp)
            eval_and_check(ck, drv, h1, "repeat", refs, fails)
            # (b) flag preset: the rescaled branch from the start
            h2 = Hist(cfg)
            h2.preset()
            eval_and_check(ck, drv, h2, "preset", refs, fails)
            # (c) the other tip path on the same inputs
            if oi % 3 == 0:
                h3 = Hist(dict(cfg, tip_states=not tipst))
                eval_and_check(ck, drv, h3, "fresh-other-tip-path", refs, fails)
                eval_and_check(ck, drv, h3, "repeat-other-tip-path", refs, fails)
    return fails


# ----------------------------------------------------------------------------------------------
# part 3: MIXED alignments — well-behaved columns next to column(s) whose site likelihood is in the denormal band
# ----------------------------------------------------------------------------------------------


def mixed_sites(rng, n: int, n_band: int, m: int, weights=(1, 1, 1)):
    """per-taxon strings: three constant columns (A, C, G: site likelihood ~ pi on short branches) REPEATED weights[j]
    times (they compress to three patterns with those weights: one heavy conserved pattern moves every mean/sum
    statistic away from the worst pattern), followed by `n_band` columns that are 'A' except for 'C'/'G'/'T' at `m`
    random tips (each isolated odd tip costs one substitution: site likelihood ~ (t/3)^m on short branches)"""
    cols = ["A" * n] * weights[0] + ["C" * n] * weights[1] + ["G" * n] * weights[2]
    ms = []
    for b in range(n_band):
        mb = max(2, int(round(m * (1.0 - 0.04 * b))))  # later band columns a little shallower
        odd = set(rng.sample(range(n), min(mb, n)))
        cols.append("".join(rng.choice("CGT") if i in odd else "A" for i in range(n)))
        ms.append(mb)
    return ["".join(c[i] for c in cols) for i in range(n)], ms


def site_logs_at(drv, cfg):
    """exact per-site log-likelihoods of a scratch model (used to tune the branch length; not counted as a case)"""
    b = build_model(cfg)
    rec = observe(b.like)
    if "error" in rec or "mats" not in rec:
        return None
    tot, logs = reference(drv, b.like, rec["mats"], rec["freqs"], rec["props"], None)
    return logs if tot is not None else None


def tune_t(drv, base, m: int, target: float, t_guess=None):
    """branch length (all branches equal) at which the smallest site log-likelihood is ~ target (secant steps on
    log t against the exact reference). Returns (t, measured min site log) or (None, None)."""
    t = t_guess if t_guess is not None else 3.0 * math.exp(target / m)
    slope = float(m)
    last = None
    cur = None
    for _ in range(9):
        logs = site_logs_at(drv, dict(base, t=t))
        if logs is None:  # exact likelihood not positive (a computed P(t) has a zero/negative entry): longer branches
            t *= 3.0
            last = None
            continue
        cur = min(logs)
        if abs(cur - target) < 1.5:
            return t, cur
        if last is not None and abs(math.log(t) - last[0]) > 1e-9:
            slope = max(1.0, (cur - last[1]) / (math.log(t) - last[0]))
        last = (math.log(t), cur)
        t = math.exp(math.log(t) + max(-3.0, min(3.0, (target - cur) / slope)))
    return (t, cur) if cur is not None and abs(cur - target) < 6.0 else (None, cur)


def tune_t_bracket(drv, base, target: float, lo: float, hi: float, tol: float = 4.0, iters: int = 9):
    """branch length in [lo, hi] at which the smallest site log-likelihood is ~ target, by bracketing (Illinois variant of
    regula falsi on log t): robust where the likelihood saturates and a secant step would run away"""
    def f(t):
        logs = site_logs_at(drv, dict(base, t=t))
        return None if logs is None else min(logs) - target

    a, b = math.log(lo), math.log(hi)
    fa, fb = f(lo), f(hi)
    if fa is None or fb is None or fa * fb > 0:
        return None, None
    for _ in range(iters):
        c = (a * fb - b * fa) / (fb - fa)
        fc = f(math.exp(c))
        if fc is None:
            return None, None
        if abs(fc) < tol:
            return math.exp(c), fc + target
        if fc * fb < 0:
            a, fa = b, fb
        else:
            fa *= 0.5
        b, fb = c, fc
    return None, fb + target


def mixed_sweep(ck: Check, drv, budget_s: float):
    """alignments that are heterogeneous ACROSS SITE PATTERNS: conserved patterns (site likelihood ~ pi, non-uniform
    weights, one of them heavy) plus 1-3 patterns placed deliberately in each critical band of the smallest site
    log-likelihood: just above the 1e-40 switch threshold (-88), just below it (-97), between threshold and the denormal
    range (-400), inside the denormal range (-715 ... -744), flushed to exactly 0 in float64 (-760). The number of odd
    tips of the band pattern is chosen for the band, then the common branch length is tuned on the exact reference.
    Whatever statistic over patterns a switch test uses (min, mean, sum, max), here mean != worst: with the heavy
    weights the weighted MEAN site log-likelihood stays near -2 ... -15 while the WORST pattern is in the band."""
    rng = ck.rng
    thorough = ck.thorough()
    fails, refs = [], {}
    t_start = time.time()
    # (shape, n, model, K, tip_states, number of band columns, weights of the three conserved patterns, targets)
    if thorough:
        all_t = [-88.0, -97.0, -200.0, -400.0, -650.0, -712.0, -726.0, -733.0, -738.0, -741.5, -744.0, -760.0]
        configs = [
            ("balanced", 256, "JC69", 4, False, 1, (40, 25, 1), all_t),
            ("random", 300, "HKY", 4, True, 2, (1, 7, 30), all_t),
            ("balanced", 256, "HKY", 1, False, 1, (1, 1, 1), all_t),
            ("random", 400, "JC69", 4, True, 3, (3, 1, 60), all_t[::2]),
            ("balanced", 512, "GTR", 4, False, 2, (60, 1, 1), all_t[1::2]),
            ("random", 350, "HKY", 4, False, 1, (1, 1, 1), all_t[::2]),
            ("caterpillar", 200, "JC69", 1, True, 1, (20, 20, 20), all_t[1::2]),
            ("caterpillar", 256, "HKY", 4, False, 2, (1, 50, 2), all_t[::3]),
        ]
    else:
        configs = [
            ("balanced", 256, "JC69", 4, False, 1, (40, 25, 1), [-88.0, -97.0, -400.0, -738.0, -743.0]),
            ("random", 300, "HKY", 4, True, 2, (1, 7, 30), [-728.0, -742.0, -760.0]),
        ]
    for ci, (shape, n, model, K, tipst, n_band, wts, targets) in enumerate(configs):
        if time.time() - t_start > budget_s:
            ck.notes.append(f"mixed sweep budget reached before configuration {ci}")
            break
        seed_shape = rng.randrange(10 ** 6)
        t_prev, mid_cfg = 1.0e-4, None
        for ti, target in enumerate(targets):
            if time.time() - t_start > budget_s:
                ck.notes.append(f"mixed sweep budget reached in configuration {ci}")
                break
            m = max(2, min(n - 1, int(round(target / math.log(1.0e-4 / 3.0)))))
            sites, ms = mixed_sites(rng, n, n_band, m, wts)
            base = {"shape": shape, "model": model, "K": K, "tip_states": tipst, "seed_shape": seed_shape,
                    "sites": sites, "n": n, "mixed": True, "t": 0.0, "weights": list(wts), "band_target": target}
            t, got = tune_t(drv, base, ms[0], target, t_prev)
            if t is None:
                ck.notes.append(f"mixed: tuning failed for {shape}/{model} target {target} (got {got})")
                continue
            t_prev = t
            ck.extra.setdefault("mixed_alignments", {}).setdefault(
                f"{shape}/n={n}/{model}/K={K}/{'tip-states' if tipst else 'tip-partials'}/weights={list(wts)}", []).append(
                {"target_min_site_log": target, "odd_tips": ms, "branch_length": t, "min_site_log": got})
            cfg = dict(base, t=t)
            h1 = Hist(cfg)
            if ti == 0:
                check_wf(ck, drv, h1.b.like)
            eval_and_check(ck, drv, h1, "mixed-fresh", refs, fails, group="mixed")
            eval_and_check(ck, drv, h1, "mixed-repeat", refs, fails, group="mixed")
            h2 = Hist(cfg)
            h2.preset()
            eval_and_check(ck, drv, h2, "mixed-preset", refs, fails, group="mixed")
            if thorough and ti % 2 == 1:
                h3 = Hist(dict(cfg, tip_states=not tipst))
                eval_and_check(ck, drv, h3, "mixed-fresh-other-tip-path", refs, fails, group="mixed")
            if -745.0 < target < -720.0:
                mid_cfg = cfg
        # batches on a band alignment: (band, flushed to zero, normal) and (band, normal, normal): no sample is -inf
        if mid_cfg is not None and time.time() - t_start <= budget_s:
            hb = Hist(dict(mid_cfg, batch=[1.0, 0.5, 4.0]))
            eval_and_check(ck, drv, hb, "mixed-batch-fresh", refs, fails, group="mixed")
            if thorough:
                eval_and_check(ck, drv, hb, "mixed-batch-repeat", refs, fails, group="mixed")
            hc = Hist(dict(mid_cfg, batch=[1.0, 4.0, 9.0]))
            eval_and_check(ck, drv, hc, "mixed-batch-band+normal", refs, fails, group="mixed")
    return fails


# ----------------------------------------------------------------------------------------------
# part 4: batched histories — only SOME samples underflow, across a sequence of parameter updates
# ----------------------------------------------------------------------------------------------


def batch_histories(ck: Check, drv, budget_s: float):
    """The flag is per model object, not per sample (Lean: Props/C03_Batch.lean — evalBatch_flag,
    batch_switch_for_all, sticky_batch, history_consistent_batch).  Small trees (56 taxa) so that the regime of a sample
    is set by its branch lengths alone: t=5 above the 1e-40 switch threshold, t=0.05 below it but normal, a tuned
    t~1e-8 in the denormal band, a tenth of that flushed to zero.  Every sample of every evaluation is compared with
    the exact reference; the functions called and the flag must follow flagRun with one switch bit per evaluation."""
    rng = ck.rng
    fails, refs = [], {}
    t_start = time.time()
    configs = [("random", 56, "JC69", 1, False)]
    if ck.thorough():
        configs += [("balanced", 60, "HKY", 4, False), ("random", 52, "JC69", 4, True),
                    ("caterpillar", 56, "HKY", 1, False), ("balanced", 64, "GTR", 1, True)]
    for ci, (shape, n, model, K, tipst) in enumerate(configs):
        if time.time() - t_start > budget_s:
            ck.notes.append(f"batch histories: budget reached before configuration {ci}")
            break
        sites = random_sites(rng, n, 3 if K == 1 else 2)
        base = {"shape": shape, "model": model, "K": K, "tip_states": tipst, "seed_shape": rng.randrange(10 ** 6),
                "sites": sites, "n": n, "batch_history": True, "t": 0.0}
        t_band, got = tune_t(drv, base, max(8, int(0.6 * n)), -736.0, 1e-8)
        if t_band is None or not (-744.0 < got < -712.0):
            ck.notes.append(f"batch histories: could not tune {shape}/{model} into the band (got {got})")
            continue
        A, NRM, BAND, ZERO = 5.0 / t_band, 0.05 / t_band, 1.0, 0.1
        ck.extra.setdefault("batch_histories", {})[f"{shape}/n={n}/{model}/K={K}/{'tip-states' if tipst else 'tip-partials'}"] = {
            "band_branch_length": t_band, "band_min_site_log": got,
            "regimes": "A=t 5 (above 1e-40), NRM=t 0.05, BAND=tuned, ZERO=tuned/10"}
        histories = [
            # nothing underflows -> one sample enters the band -> back (flag must stay) -> mixed -> permuted
            [[A, 0.8 * A, 1.2 * A], [A, BAND, 1.2 * A], [A, 0.8 * A, 1.2 * A], [ZERO, BAND, NRM], [A, NRM, BAND]],
            # first evaluation already has one sample flushed to zero (-inf) next to two healthy ones
            [[A, ZERO, 0.9 * A], [A, 0.8 * A, 1.2 * A], [BAND, 0.97 * BAND, 1.03 * BAND]],
            # a below-threshold-but-normal sample only, then the band
            [[A, NRM, 1.1 * A], [1.02 * BAND, A, A]],
        ]
        for hi, seq in enumerate(histories):
            if time.time() - t_start > budget_s:
                ck.notes.append(f"batch histories: budget reached in configuration {ci}")
                break
            cfg = dict(base, t=t_band, batch=seq[0])
            h = Hist(cfg)
            if hi == 0:
                check_wf(ck, drv, h.b.like)
            flags_seen = []
            for si, factors in enumerate(seq):
                if si > 0:
                    h.set_sample_scales(factors)
                rec = eval_and_check(ck, drv, h, f"batch-history-{hi}-step-{si}", refs, fails, group="batch")
                flags_seen.append((rec.get("flag_before"), rec.get("flag_after"), rec.get("calls")))
            # the whole history against the automaton: switch bit of evaluation i = flag got set in it
            bits = ["1" if (not a and b) else "0" for a, b, _ in flags_seen]
            rep = drv.ask("flags %d 0 %s" % (1 if tipst else 0, " ".join(bits)))
            want = rep.split()[0].split(",")
            got_br = [branch_name(c, tipst) for _, _, c in flags_seen]
            ck.bucket("batch/history-vs-flagRun")
            if want != got_br:
                fails.append({"kind": "flag-automaton", "cfg": cfg_public(cfg), "label": f"batch-history-{hi}",
                              "history": list(h.ops), "calls": flags_seen[-1][2], "model": rep, "observed": got_br,
                              "sites": sites, "values": None, "reference": None, "rel_err": None})
    return fails


# ----------------------------------------------------------------------------------------------
# part 5: HOW the object is reached — construction routes, dtype regimes, grad modes, immutability, repeatability,
#         copies and device moves, special inputs, failure paths (fourth-wave checklist)
# ----------------------------------------------------------------------------------------------

AMBIG = "ACGTNR-Y"


def record_fail(fails, kind, cfg, label, **kw):
    fails.append(dict({"kind": kind, "cfg": cfg_public(cfg), "label": label, "calls": kw.pop("calls", []),
                       "sites": cfg.get("sites"), "history": kw.pop("history", []), "values": kw.pop("values", None),
                       "reference": kw.pop("reference", None), "rel_err": kw.pop("rel_err", None)}, **kw))


def json_like_spec(cfg, opts, full_names: bool, referenced: bool, rng):
    """JSON for the likelihood of `cfg` (and the objects it needs). opts: dict with optional keys use_ambiguities,
    use_tip_states (absent = key not written). Returns (list of specs to process in order, id of the likelihood)."""
    use_repo()
    from torchtree.cli.evolution import create_tree_likelihood_single
    from torchtree.evolution.tree_model import UnRootedTreeModel

    n = cfg["n"]

    def T(short, full):
        return full if full_names else short

    taxa = {"id": "taxa", "type": T("Taxa", "torchtree.evolution.taxa.Taxa"),
            "taxa": [{"id": "t%d" % i, "type": T("Taxon", "torchtree.evolution.taxa.Taxon")} for i in range(n)]}
    bl = [float(x) for x in branch_tensor(cfg).tolist()]
    tree = UnRootedTreeModel.json_factory("tree", shape_newick(cfg["shape"], n, __import__("random").Random(cfg.get("seed_shape", 0))),
                                          bl, "taxa" if referenced else taxa["taxa"])
    if full_names:
        tree["type"] = "torchtree.evolution.tree_model.UnRootedTreeModel"
    aln = {"id": "aln", "type": T("Alignment", "torchtree.evolution.alignment.Alignment"), "datatype": "nucleotide",
           "taxa": "taxa", "sequences": [{"taxon": "t%d" % i, "sequence": cfg["sites"][i]} for i in range(n)]}
    sp = {"id": "sp", "type": T("SitePattern", "torchtree.evolution.site_pattern.SitePattern"),
          "alignment": "aln" if referenced else aln}
    if cfg["model"] == "JC69":
        subst = {"id": "jc", "type": T("JC69", "torchtree.evolution.substitution_model.JC69")}
    else:
        subst = {"id": "hky", "type": T("HKY", "torchtree.evolution.substitution_model.HKY"),
                 "kappa": {"id": "kappa", "type": "Parameter", "tensor": [2.5]},
                 "frequencies": {"id": "freqs", "type": "Parameter", "tensor": [0.1, 0.2, 0.3, 0.4]}}
    if cfg.get("K", 1) == 1:
        site = {"id": "site", "type": T("ConstantSiteModel", "torchtree.evolution.site_model.ConstantSiteModel")}
    else:
        site = {"id": "site", "type": T("WeibullSiteModel", "torchtree.evolution.site_model.WeibullSiteModel"),
                "categories": cfg["K"], "shape": {"id": "shape", "type": "Parameter", "tensor": [0.7]}}
    if referenced:  # the shape the CLI emits: everything by id
        like = create_tree_likelihood_single("like", "tree", None, "subst_ref", "site", "sp")
        like["substitution_model"] = subst["id"]
        pre = [taxa, tree, site, subst, aln, sp]
    else:
        like = {"id": "like", "type": "TreeLikelihoodModel", "tree_model": tree, "site_model": site,
                "substitution_model": subst, "site_pattern": sp}
        pre = []
    if full_names:
        like["type"] = "torchtree.evolution.tree_likelihood.TreeLikelihoodModel"
    for k, v in opts.items():
        like[k] = v
    items = list(like.items())
    rng.shuffle(items)  # key order must not matter
    return pre + [dict(items)], "like"


def build_from_json(specs):
    use_repo()
    from torchtree.core.utils import process_object

    tt()
    dic = {}
    obj = None
    for spec in specs:
        obj = process_object(spec, dic)
        dic[spec["id"]] = obj
    return obj


def newick_with_lengths(shape, n, t, rng):
    """shape_newick with `:t` on every edge (for keep_branch_lengths routes)"""
    import re

    nwk = shape_newick(shape, n, rng)[:-1]
    nwk = re.sub(r"(t\d+)", lambda m: "%s:%s" % (m.group(1), t), nwk)
    nwk = nwk.replace(")", "):%s" % t)
    return nwk[: nwk.rfind(":")] + ";"


def clock_route_check(ck: Check, drv, fails, refs, rng, n: int, t: float, opts: dict):
    """the remaining optional key of TreeLikelihoodModel.from_json: `branch_model` (strict clock on a time tree whose
    heights come from the newick branch lengths). JSON-built vs keyword-constructor-built on the same sub-objects."""
    torch = tt()
    use_repo()
    from torchtree.core.utils import process_object
    from torchtree.evolution.tree_likelihood import TreeLikelihoodModel
    from torchtree.evolution.tree_model import TimeTreeModel

    import random as _r

    sites = random_sites(rng, n, 2)
    cfg = {"shape": "balanced", "model": "JC69", "K": 1, "t": t, "n": n, "sites": sites, "clock_route": True,
           "tip_states": bool(opts.get("use_tip_states")), "use_ambiguities": bool(opts.get("use_ambiguities")),
           "route_opts": opts}
    label = "route:json+branch_model opts=%s n=%d" % (json.dumps(opts, sort_keys=True), n)
    try:
        tree = TimeTreeModel.json_factory("tree", newick_with_lengths("balanced", n, t, _r.Random(0)), [0.0] * (n - 1),
                                          {"t%d" % i: 0.0 for i in range(n)}, keep_branch_lengths=True,
                                          internal_heights_id="heights")
        like_spec = {"id": "like", "type": "TreeLikelihoodModel", "tree_model": tree,
                     "site_model": {"id": "site", "type": "ConstantSiteModel"},
                     "substitution_model": {"id": "jc", "type": "JC69"},
                     "site_pattern": {"id": "sp", "type": "SitePattern", "alignment": {
                         "id": "aln", "type": "Alignment", "datatype": "nucleotide", "taxa": "taxa",
                         "sequences": [{"taxon": "t%d" % i, "sequence": sites[i]} for i in range(n)]}},
                     "branch_model": {"id": "clock", "type": "StrictClockModel", "tree_model": "tree",
                                      "rate": {"id": "rate", "type": "Parameter", "tensor": [1.0]}}}
        like_spec.update(opts)
        dic = {}
        like = process_object(like_spec, dic)
        like_kw = TreeLikelihoodModel(id_="like_kw", site_pattern=like.site_pattern, tree_model=like.tree_model,
                                      subst_model=like.subst_model, site_model=like.site_model, clock_model=like.clock_model,
                                      use_ambiguities=bool(opts.get("use_ambiguities")), use_tip_states=bool(opts.get("use_tip_states")))
    except Exception as e:
        record_fail(fails, "route-raised", cfg, label, error="%s: %s" % (type(e).__name__, str(e)[:160]))
        ck.case(key=label, bucket="route/raised")
        return
    ck.case(key=label, bucket="route/json+branch_model")
    r_kw = observe(like_kw)
    h = Hist.__new__(Hist)
    h.cfg, h.ops, h.scale = cfg, [{"op": "built-from-json-with-clock"}], 1.0
    h.b = Built()
    try:
        h.b.like, h.b.blp = like, branch_param(like)
    except HarnessIntrospection as e:
        ck.mismatch("harness introspection of a private name failed (not a finding)", {"error": str(e)})
        return
    r1 = eval_and_check(ck, drv, h, "route-clock-fresh", refs, fails, group="route")
    eval_and_check(ck, drv, h, "route-clock-repeat", refs, fails, group="route")
    if like.clock_model is None or like.use_tip_states != bool(opts.get("use_tip_states")):
        record_fail(fails, "route-differs", cfg, label, detail=["clock_model/use_tip_states not as given"])
    if "value" in r1 and "value" in r_kw and (not torch.equal(r1["value"], r_kw["value"]) or r1["calls"] != r_kw["calls"]):
        record_fail(fails, "route-differs", cfg, label, detail=["json %r vs keyword constructor %r" % (r1["value"].tolist(), r_kw["value"].tolist())])


def routes_check(ck: Check, drv, budget_s: float):
    """every option subset of TreeLikelihoodModel.from_json x {short, full type names} x {inline, referenced (CLI shape)}
    x shuffled key order; positional vs keyword constructor. The route-built object must carry the options it was
    given, start with the flag clear and the dtype's threshold, and evaluate bit-identically to the constructor-built
    one (and within 1e-8 of the exact reference) — on a small tree and at a size inside the denormal band."""
    torch = tt()
    rng = ck.rng
    fails, refs = [], {}
    t_start = time.time()
    use_repo()
    from torchtree.evolution.tree_likelihood import TreeLikelihoodModel

    plans = [("random", "HKY", 1, 12, 0.3)]
    if ck.thorough():
        plans += [("balanced", "JC69", 4, 9, 1.0)]
    d_band = None
    for shape, model, K, n, t in plans:
        sites = ["".join(rng.choice(AMBIG if rng.random() < 0.25 else "ACGT") for _ in range(4)) for _ in range(n)]
        base = {"shape": shape, "model": model, "K": K, "t": t, "n": n, "sites": sites, "seed_shape": rng.randrange(10 ** 6),
                "route": True}
        subsets = [(a, b) for a in (None, False, True) for b in (None, False, True)]
        for (amb, ts_) in subsets:
            if time.time() - t_start > budget_s:
                ck.notes.append("routes: budget reached")
                break
            opts = {}
            if amb is not None:
                opts["use_ambiguities"] = amb
            if ts_ is not None:
                opts["use_tip_states"] = ts_
            cfg = dict(base, use_ambiguities=bool(amb), tip_states=bool(ts_))
            ref_model = build_model(cfg).like  # positional constructor
            rec0 = observe(ref_model)
            variants = [(False, False), (True, True)] if not ck.thorough() else [(f, r) for f in (False, True) for r in (False, True)]
            for full_names, referenced in variants:
                label = "route:json opts=%s names=%s %s" % (json.dumps(opts, sort_keys=True), "full" if full_names else "short",
                                                            "referenced/CLI" if referenced else "inline")
                try:
                    specs, _ = json_like_spec(cfg, opts, full_names, referenced, rng)
                    like = build_from_json(specs)
                except Exception as e:
                    record_fail(fails, "route-raised", cfg, label, error="%s: %s" % (type(e).__name__, str(e)[:160]))
                    ck.case(key=label, bucket="route/raised")
                    continue
                ck.case(key=(label, n), bucket="route/json", sample={"route": label, "n": n})
                bad = []
                if like.use_tip_states != bool(ts_):
                    bad.append("use_tip_states=%r" % like.use_tip_states)
                if like.rescale is not False:
                    bad.append("rescale=%r" % like.rescale)
                if like.threshold != ref_model.threshold:
                    bad.append("threshold=%r" % like.threshold)
                if len(like.partials) != len(ref_model.partials) or not torch.equal(like.weights, ref_model.weights) or \
                        any(not torch.equal(a, b) for a, b in zip(like.partials[:n], build_model(cfg).like.partials[:n])):
                    bad.append("tip data differ")
                rec = observe(like)
                if "error" in rec or "error" in rec0:
                    bad.append("raised: %s" % (rec.get("error") or rec0.get("error")))
                elif not torch.equal(rec["value"], rec0["value"]) or rec["calls"] != rec0["calls"]:
                    bad.append("value %r vs constructor %r" % (rec["value"].tolist(), rec0["value"].tolist()))
                if bad:
                    record_fail(fails, "route-differs", cfg, label, detail=bad, calls=rec.get("calls", []), specs=specs)
            # keyword constructor
            kw = build_model(cfg)
            like_kw = TreeLikelihoodModel(id_="like_kw", site_pattern=kw.like.site_pattern, tree_model=kw.tm, subst_model=kw.sm,
                                          site_model=kw.site, clock_model=None, use_ambiguities=bool(amb), use_tip_states=bool(ts_))
            rk = observe(like_kw)
            ck.case(key=("route:keyword", str(opts), n), bucket="route/keyword-constructor")
            if "error" in rk or "error" in rec0 or not torch.equal(rk["value"], rec0["value"]):
                record_fail(fails, "route-differs", cfg, "route:keyword constructor", detail=[rk.get("error") or "value differs"])
            # and the constructor-built one against the exact reference
            h = Hist(cfg)
            eval_and_check(ck, drv, h, "route-constructor", refs, fails, group="route")
    # the optional key `branch_model`: small tree, and a size in the denormal band
    for n_c, opts in ([(16, {}), (16, {"use_tip_states": True}), (536, {})] if not ck.thorough() else
                      [(16, {}), (16, {"use_tip_states": True}), (16, {"use_ambiguities": True}), (520, {}), (536, {}),
                       (536, {"use_tip_states": True})]):
        if time.time() - t_start > budget_s:
            ck.notes.append("routes: budget reached before the clock routes")
            break
        clock_route_check(ck, drv, fails, refs, rng, n_c, 2.0, opts)
    # a route-built object inside the denormal band: the options must survive there too
    if time.time() - t_start <= budget_s:
        big = {"shape": "balanced", "model": "HKY", "K": 1, "t": 2.0, "n": 64, "sites": random_sites(rng, 1400, 3),
               "seed_shape": rng.randrange(10 ** 6)}
        d = per_taxon_log(drv, dict(big, n=0))
        if d:
            nb = max(4, int(round(738.0 / d)))
            logs0 = site_logs_at(drv, dict(big, n=nb, sites=big["sites"][:nb]))  # one correction step of the size
            if logs0:
                nb = max(4, int(round(nb * 738.0 / -min(logs0))))
            for opts in ({}, {"use_tip_states": True}, {"use_ambiguities": True, "use_tip_states": False}):
                cfg = dict(big, n=nb, sites=big["sites"][:nb], tip_states=bool(opts.get("use_tip_states")),
                           use_ambiguities=bool(opts.get("use_ambiguities")), route_opts=opts)
                try:
                    specs, _ = json_like_spec(cfg, opts, False, True, rng)
                    like = build_from_json(specs)
                except Exception as e:
                    record_fail(fails, "route-raised", cfg, "route:json in band", error="%s: %s" % (type(e).__name__, str(e)[:160]))
                    continue
                h = Hist(cfg)
                h.b.like = like
                try:
                    h.b.blp = branch_param(like)
                except HarnessIntrospection as e:
                    ck.mismatch("harness introspection of a private name failed (not a finding)", {"error": str(e)})
                    continue
                h.ops.append({"op": "built-from-json", "opts": opts})
                eval_and_check(ck, drv, h, "route-json-band-fresh", refs, fails, group="route")
                eval_and_check(ck, drv, h, "route-json-band-repeat", refs, fails, group="route")
    return fails


def float32_sweep(ck: Check, drv, budget_s: float):
    """default dtype float32 (everything float32, threshold 1e-20): float32 has its own band — smallest normal 1.2e-38
    (log -87.3), smallest denormal 1.4e-45 (log -103.3). Reference = exact pruning on the float32 matrices."""
    fails, refs = [], {}
    t_start = time.time()
    rng = ck.rng
    configs = [("balanced", "JC69", 1, 5.0, False), ("random", "HKY", 1, 2.0, True)]
    if ck.thorough():
        configs += [("random", "JC69", 4, 1.5, False), ("caterpillar", "HKY", 4, 3.0, False), ("balanced", "GTR", 1, 1.0, True)]
    targets = [-30.0, -43.0, -47.0, -52.0, -80.0, -87.5, -92.0, -96.0, -100.0, -103.0, -106.0, -125.0]
    if ck.thorough():
        targets = sorted(set(targets + [-40.0 - 2.0 * i for i in range(8)] + [-86.0 - 1.0 * i for i in range(22)]))
    with dtype_regime("float32"):
        for ci, (shape, model, K, t, tipst) in enumerate(configs):
            sites_all = random_sites(rng, 200, 3 if K == 1 else 1)
            base = {"shape": shape, "model": model, "K": K, "t": t, "tip_states": tipst, "seed_shape": rng.randrange(10 ** 6),
                    "sites": sites_all, "n": 0, "dtype": "float32"}
            d = per_taxon_log(drv, base)
            if not d or d <= 0:
                ck.notes.append(f"float32: probe failed for {shape}/{model}")
                continue
            sizes = sorted({max(4, int(round(-x / d))) for x in targets})
            ck.extra.setdefault("float32_sweep_sizes", {})[f"{shape}/{model}/K={K}/{'tip-states' if tipst else 'tip-partials'}"] = sizes
            for n in sizes:
                if time.time() - t_start > budget_s:
                    ck.notes.append(f"float32 sweep: budget reached in configuration {ci}")
                    break
                cfg = dict(base, n=n, sites=sites_all[:n])
                h1 = Hist(cfg)
                if h1.b.like.threshold != 1e-20:
                    record_fail(fails, "wrong-threshold", cfg, "float32 model", detail=h1.b.like.threshold)
                eval_and_check(ck, drv, h1, "f32-fresh", refs, fails, group="f32")
                eval_and_check(ck, drv, h1, "f32-repeat", refs, fails, group="f32")
                h2 = Hist(cfg)
                h2.preset()
                eval_and_check(ck, drv, h2, "f32-preset", refs, fails, group="f32")
    # cross regimes: an all-float64 model evaluated while the default dtype is float32 (tip-state functions create
    # `torch.ones(...)` without dtype), and an all-float32 model evaluated under default float64
    for built_under, run_under in (("float64", "float32"), ("float32", "float64")):
        for tipst in (False, True):
            with dtype_regime(built_under):
                cfg = {"shape": "random", "model": "HKY", "K": 1, "t": 0.4, "tip_states": tipst, "n": 14,
                       "seed_shape": rng.randrange(10 ** 6), "sites": random_sites(rng, 14, 3), "dtype": built_under,
                       "run_under": run_under}
                h = Hist(cfg)
                with dtype_regime(run_under):
                    rec = h.evaluate()
                _DTYPE["name"] = built_under
                name = f"dtype/built-{built_under}/run-{run_under}/{'tip-states' if tipst else 'tip-partials'}"
                if "error" not in rec and "mats" not in rec:
                    ck.mismatch("kernel arguments not observed: dtype-regime evaluation skipped", {"regime": name})
                    continue
                if "error" in rec:
                    ck.bucket(name + "/raised")
                    record_fail(fails, "raised", cfg, name, error=rec["error"], calls=rec["calls"])
                    continue
                tot, logs = reference(drv, h.b.like, rec["mats"], rec["freqs"], rec["props"], None)
                e = rel(float(rec["value"]), tot)
                want_dtype = built_under
                ck.case(key=name, bucket=name + "/" + str(rec["value"].dtype).replace("torch.", ""),
                        sample={"regime": name, "value": float(rec["value"]), "reference": tot, "rel_err": e,
                                "result_dtype": str(rec["value"].dtype)})
                ck.extra.setdefault("dtype_regimes", {})[name] = {"result_dtype": str(rec["value"].dtype), "rel_err": e}
                if not (e <= (TOL32 if built_under == "float32" else 1e-10)):
                    record_fail(fails, "inaccurate", cfg, name, values=[float(rec["value"])], reference=[tot], rel_err=e,
                                calls=rec["calls"], min_site_log=[min(logs)])
                if str(rec["value"].dtype) != "torch." + want_dtype:
                    # observable, but not a clause of C03 (value is right): recorded, reported in the notes
                    ck.notes.append(f"{name}: result dtype {rec['value'].dtype} (inputs {want_dtype})")
    return fails


def scan_tensor_constructors():
    """tensor constructors without dtype= in the anchored file (they take the global default dtype / cpu device)"""
    import ast

    src = (REPO / "torchtree" / "evolution" / "tree_likelihood.py").read_text()
    out = []
    for node in ast.walk(ast.parse(src)):
        if isinstance(node, ast.Call) and isinstance(node.func, ast.Attribute) and isinstance(node.func.value, ast.Name) \
                and node.func.value.id == "torch" and node.func.attr in ("ones", "zeros", "tensor", "full", "empty", "arange", "eye", "rand"):
            kws = {k.arg for k in node.keywords}
            if "dtype" not in kws or "device" not in kws:
                out.append("line %d: torch.%s(...) without %s" % (node.lineno, node.func.attr,
                                                                  "/".join(x for x in ("dtype", "device") if x not in kws)))
    return out


def snapshot_inputs(b):
    like = b.like
    T = len(like.tree_model.postorder) + 1
    snap = {"branch_lengths": b.blp.tensor.detach().clone(), "weights": like.weights.detach().clone(),
            "frequencies": like.subst_model.frequencies.detach().clone()}
    for i in range(T):
        snap["tip%d" % i] = like.partials[i].detach().clone()
    for name in ("_kappa", "_rates"):
        p = getattr(like.subst_model, name, None)
        if p is not None and hasattr(p, "tensor"):
            snap["subst" + name] = p.tensor.detach().clone()
    p = getattr(like.site_model, "_parameter", None)
    if p is not None:
        snap["site_parameter"] = p.tensor.detach().clone()
    return snap


def changed_inputs(b, snap):
    torch = tt()
    now = snapshot_inputs(b)
    return [k for k in snap if k not in now or now[k].shape != snap[k].shape or now[k].dtype != snap[k].dtype
            or not torch.equal(now[k], snap[k])]


def invariants_check(ck: Check, drv, budget_s: float):
    """grad modes agree bitwise; inputs are never modified; repeated evaluations / later-built objects / copies / moved
    objects agree; minimum sizes, zero branch lengths, repeated and ambiguous columns; the true-zero failure path"""
    torch = tt()
    rng = ck.rng
    fails, refs = [], {}
    t_start = time.time()
    probes = [{"shape": "random", "model": "HKY", "K": 4, "t": 0.7, "n": 40},
              {"shape": "balanced", "model": "JC69", "K": 1, "t": 5.0, "n": 528},  # inside the float64 band
              {"shape": "random", "model": "JC69", "K": 1, "t": 1.0, "n": 30, "tip_states": True, "batch": [1.0, 4.0, 0.5]}]
    if not ck.thorough():
        probes = probes[:2]
    # sample count equal to every other dimension: B = S = K = N = 4
    probes.append({"shape": "random", "model": "HKY", "K": 4, "t": 0.4, "n": 18, "batch": [1.0, 0.5, 2.0, 3.0], "nsites": 4})
    for pi, p in enumerate(probes):
        if time.time() - t_start > budget_s:
            ck.notes.append("invariants: budget reached")
            break
        cfg = dict(p, seed_shape=rng.randrange(10 ** 6), sites=random_sites(rng, p["n"], p.get("nsites", 2)))
        cfg.pop("nsites", None)
        if p.get("nsites"):  # make sure all N columns are distinct patterns
            cfg["sites"] = [row[:-p["nsites"]] + "ACGT"[i % 4] * 0 + row[-p["nsites"]:] for i, row in enumerate(cfg["sites"])]
        vals = {}
        for mode in ("no_grad", "grad-enabled", "leaf-requires-grad"):
            b = build_model(cfg)
            snap = snapshot_inputs(b)
            if mode == "leaf-requires-grad":
                b.blp.tensor.requires_grad_(True)
            try:
                if mode == "no_grad":
                    with torch.no_grad():
                        rec = observe(b.like)
                else:
                    rec = observe(b.like)
            except Exception as e:
                rec = {"error": "%s: %s" % (type(e).__name__, e), "calls": []}
            ck.case(key=("grad-mode", pi, mode), bucket="invariants/grad-mode/" + mode)
            if "error" in rec:
                record_fail(fails, "raised", cfg, "grad mode " + mode, error=rec["error"], calls=rec["calls"])
                continue
            vals[mode] = rec["value"].detach()
            ch = changed_inputs(b, snap)
            ck.bucket("invariants/immutability")
            if ch:
                record_fail(fails, "inputs-modified", cfg, "after evaluation (%s)" % mode, detail=ch, calls=rec["calls"])
        if len(vals) == 3 and not (torch.equal(vals["no_grad"], vals["grad-enabled"]) and torch.equal(vals["grad-enabled"], vals["leaf-requires-grad"])):
            record_fail(fails, "grad-mode-differs", cfg, "no_grad / grad / requires_grad",
                        detail={k: v.reshape(-1).tolist() for k, v in vals.items()})
        # repeatability: evaluations 2 and 3 take the same branch -> bit-identical; against the reference too
        h = Hist(cfg)
        r1 = eval_and_check(ck, drv, h, "inv-eval-1", refs, fails, group="invariants")
        r2 = eval_and_check(ck, drv, h, "inv-eval-2", refs, fails, group="invariants")
        r3 = eval_and_check(ck, drv, h, "inv-eval-3", refs, fails, group="invariants")
        if all("value" in r for r in (r2, r3)) and r2["calls"] == r3["calls"] and not torch.equal(r2["value"], r3["value"]):
            record_fail(fails, "not-repeatable", cfg, "evaluations 2 and 3", history=list(h.ops), calls=r3["calls"],
                        values=r3["value"].reshape(-1).tolist(), reference=r2["value"].reshape(-1).tolist())
        # device moves and copies: the value and the flag must survive
        for op in ("cpu", "to-cpu", "deepcopy-and-continue-on-copy"):
            flag_before = bool(h.b.like.rescale)
            try:
                h.apply_op(op)
            except HarnessIntrospection as e:
                ck.mismatch("harness introspection of a private name failed (not a finding)", {"op": op, "error": str(e)})
                continue
            except Exception as e:
                h.ops.append({"op": op})
                record_fail(fails, "device-move-raised" if "cpu" in op else "copy-raised", cfg, op, history=list(h.ops),
                            error="%s: %s" % (type(e).__name__, str(e)[:160]), op=op)
                h.ops.pop()
                ck.case(key=("object-op", pi, op), bucket=f"invariants/{op}/raised")
                continue
            r4 = eval_and_check(ck, drv, h, "inv-after-" + op, refs, fails, group="invariants")
            if bool(h.b.like.rescale) != (flag_before or bool(r4.get("flag_after"))) or (flag_before and not r4.get("flag_before")):
                record_fail(fails, "flag-lost", cfg, "after " + op, history=list(h.ops), calls=r4.get("calls", []))
            if "value" in r4 and "value" in r3 and r4["calls"] == r3["calls"] and not torch.equal(r4["value"], r3["value"]):
                record_fail(fails, "not-repeatable", cfg, "after " + op, history=list(h.ops), calls=r4["calls"],
                            values=r4["value"].reshape(-1).tolist(), reference=r3["value"].reshape(-1).tolist())
        # update on the copy (h now IS the copy): the value follows the new parameters, the flag stays
        if not cfg.get("batch"):
            h.scale_branches(0.5)
            eval_and_check(ck, drv, h, "inv-copy-updated", refs, fails, group="invariants")
    # a model built late in this (long-lived) process behaves like the first model of a fresh process
    if time.time() - t_start <= budget_s:
        import subprocess
        import tempfile

        cfg = {"shape": "random", "model": "HKY", "K": 4, "t": 0.7, "n": 40, "seed_shape": rng.randrange(10 ** 6),
               "sites": random_sites(rng, 40, 2)}
        here = []
        b = build_model(cfg)
        for _ in range(2):
            r = observe(b.like)
            here.append("ERR" if "error" in r else ",".join(hexes(r["value"].reshape(-1))))
        with tempfile.NamedTemporaryFile("w", suffix=".json", delete=False) as tf:
            json.dump(cfg, tf)
        try:
            out = subprocess.run([sys.executable, str(Path(__file__).resolve()), "--fresh", tf.name], capture_output=True,
                                 text=True, timeout=120, env=dict(__import__("os").environ, TT_REPO=str(REPO)))
            there = [l.split(" ", 1)[1] for l in out.stdout.splitlines() if l.startswith("FRESH ")]
        except Exception as e:
            there = ["harness: %s" % e]
        finally:
            __import__("os").unlink(tf.name)
        ck.case(key="fresh-process", bucket="invariants/fresh-process-vs-late-object")
        if len(there) != 2:
            ck.mismatch("fresh-process helper produced no output", {"stdout": out.stdout[-300:], "stderr": out.stderr[-300:]})
        elif there != here:
            record_fail(fails, "not-repeatable", cfg, "object built late in the process vs first object of a fresh process",
                        values=here, reference=there)
    # special but valid inputs: minimum sizes, zero-length branches on constant data, repeated columns (weights > 1),
    # ambiguity codes, both tip paths
    specials = []
    for n in (2, 3, 4):
        for t in (0.0, 0.1, 1.0):
            cols = ["A" * n, "A" * n, "C" * n] if t == 0.0 else ["A" * n, "A" * n, "".join("ACGT"[i % 4] for i in range(n)), "N" * n,
                                                                  "".join("R-YA"[i % 4] for i in range(n))]
            sites = ["".join(c[i] for c in cols) for i in range(n)]
            for tipst in (False, True):
                for amb in (False, True):
                    specials.append({"shape": "caterpillar", "model": "HKY" if n == 3 else "JC69", "K": 1 if n != 4 else 4,
                                     "t": t, "n": n, "sites": sites, "tip_states": tipst, "use_ambiguities": amb})
    for cfg in specials:
        if time.time() - t_start > budget_s:
            ck.notes.append("invariants: budget reached in the special inputs")
            break
        h = Hist(cfg)
        eval_and_check(ck, drv, h, "special", refs, fails, group="special")
    # failure path: impossible data (different states joined by zero-length branches): true likelihood 0. The code
    # may return -inf or nan, must not raise, and the object must recover when the parameters become possible
    cfg = {"shape": "caterpillar", "model": "JC69", "K": 1, "t": 0.0, "n": 3, "sites": ["A", "C", "A"]}
    h = Hist(cfg)
    rec = h.evaluate()
    ck.case(key="failure-path", bucket="failure/true-zero/" + (rec.get("error", "")[:20] or repr(float(rec["value"]))))
    ck.extra["failure_path_true_zero"] = rec.get("error") or {"value": repr(float(rec["value"])), "calls": rec["calls"],
                                                              "flag_after": rec["flag_after"]}
    if "error" in rec:
        record_fail(fails, "raised", cfg, "true likelihood 0", error=rec["error"], history=list(h.ops))
    elif math.isfinite(float(rec["value"])):
        record_fail(fails, "finite-for-impossible-data", cfg, "true likelihood 0", values=[float(rec["value"])], history=list(h.ops))
    torch = tt()
    h.b.blp.tensor = torch.full_like(h.b.blp.tensor, 0.3)
    h.ops.append({"op": "set-branch-lengths", "value": 0.3})
    h.cfg = dict(cfg, t=0.3)
    eval_and_check(ck, drv, h, "recovery-after-true-zero", refs, fails, group="failure")
    return fails


# ----------------------------------------------------------------------------------------------
# part 6: columns heterogeneous ALONG THE TREE, and batches whose rows sit in different regimes
# ----------------------------------------------------------------------------------------------


def clade_sites(n: int, n1: int, h0: int, h1: int, extra_const: int = 1):
    """taxa 0..n1-1 form the first clade (caterpillar: the taxa joined first; balanced: the left part of the tree).
    column 0: constant 'A' on the first clade, then hypervariable (ACGT cycling) on h0 taxa of the second clade;
    column 1: hypervariable on the first h1 taxa of the first clade, constant elsewhere; then constant columns.
    Different sites therefore underflow at different DEPTHS of the tree."""
    rows = []
    for i in range(n):
        c0 = "A" if i < n1 or i >= n1 + h0 else "ACGT"[i % 4]
        c1 = "ACGT"[i % 4] if i < h1 else "A"
        rows.append(c0 + c1 + "G" * extra_const)
    return rows


def clade_sweep(ck: Check, drv, budget_s: float):
    """the evaluation on which rescaling is switched on (plain pass -inf at >= 2 sites, then the safe pass) on alignments
    whose columns differ strongly BETWEEN CLADES: one column falls below the smallest double inside the first clade while
    the other is still ~0.25 there and collapses only in the second clade (and the reverse); plus variants where a column
    ends in the denormal band or above it. Short branches so that a hypervariable taxon costs ~log(t/3)."""
    rng = ck.rng
    fails, refs = [], {}
    t_start = time.time()
    # (shape, model, K, tip_states, n, n1, t, list of (h0, h1))
    configs = [("caterpillar", "JC69", 1, False, 240, 120, 1.0e-4, [(120, 120)]),
               ("balanced", "HKY", 1, True, 256, 128, 1.0e-4, [(128, 128)])]
    if ck.thorough():
        configs = [("caterpillar", "JC69", 1, False, 240, 120, 1.0e-4, [(120, 120), (120, 92), (60, 120), (92, 92)]),
                   ("balanced", "HKY", 1, True, 256, 128, 1.0e-4, [(128, 128), (128, 90), (70, 128)]),
                   ("caterpillar", "HKY", 4, False, 300, 100, 2.0e-4, [(200, 100), (100, 100)]),
                   ("random", "JC69", 1, False, 256, 128, 1.0e-4, [(128, 128)]),
                   ("caterpillar", "JC69", 1, True, 900, 400, 0.02, [(500, 400)])]
    for ci, (shape, model, K, tipst, n, n1, t, hs) in enumerate(configs):
        for (h0, h1) in hs:
            if time.time() - t_start > budget_s:
                ck.notes.append(f"clade sweep: budget reached in configuration {ci}")
                return fails
            cfg = {"shape": shape, "model": model, "K": K, "tip_states": tipst, "n": n, "t": t,
                   "seed_shape": rng.randrange(10 ** 6), "sites": clade_sites(n, n1, h0, h1), "clade": [n1, h0, h1]}
            h = Hist(cfg)
            eval_and_check(ck, drv, h, "clade-fresh", refs, fails, group="clade")
            eval_and_check(ck, drv, h, "clade-repeat", refs, fails, group="clade")
            h2 = Hist(cfg)
            h2.preset()
            eval_and_check(ck, drv, h2, "clade-preset", refs, fails, group="clade")
            h3 = Hist(dict(cfg, tip_states=not tipst))
            eval_and_check(ck, drv, h3, "clade-fresh-other-tip-path", refs, fails, group="clade")
    return fails


def regime_batches(ck: Check, drv, budget_s: float):
    """batches whose rows sit in DIFFERENT regimes: an EASY row (branch lengths ~1e-4 on constant columns: the
    whole-alignment log-likelihood is above log(threshold)), a BAND row (branch length tuned so that every site likelihood
    is in the denormal band, none exactly 0) and a ZERO row (long branches: every site flushed to 0) — subsets and orders
    of them, each row against its own exact reference. Whatever a switch test does with the batch dimension (any / all /
    first row), some order here makes the easy row and the band row disagree."""
    rng = ck.rng
    fails, refs = [], {}
    t_start = time.time()
    configs = [("balanced", "HKY", 1, False, 420)]
    if ck.thorough():
        configs += [("caterpillar", "JC69", 1, False, 590), ("random", "HKY", 1, True, 460), ("balanced", "JC69", 4, False, 600),
                    ("balanced", "JC69", 1, False, 600)]
    for ci, (shape, model, K, tipst, n) in enumerate(configs):
        if time.time() - t_start > budget_s:
            ck.notes.append(f"regime batches: budget reached before configuration {ci}")
            break
        cols = ["A" * n, "C" * n, "G" * n] if K == 1 else ["A" * n, "G" * n]
        sites = ["".join(c[i] for c in cols) for i in range(n)]
        base = {"shape": shape, "model": model, "K": K, "tip_states": tipst, "n": n, "sites": sites,
                "seed_shape": rng.randrange(10 ** 6), "regime_batch": True, "t": 0.0}
        t_band, got = tune_t_bracket(drv, base, -741.0, 0.02, 40.0, tol=1.5, iters=12)
        if t_band is None or not (-744.0 < got < -730.0):
            ck.notes.append(f"regime batches: could not tune {shape}/{model} into the band (got {got})")
            continue
        EASY, BAND, ZERO = 1.0e-4 / t_band, 1.0, 8.0 / t_band
        ck.extra.setdefault("regime_batches", {})[f"{shape}/n={n}/{model}/K={K}/{'tip-states' if tipst else 'tip-partials'}"] = {
            "band_branch_length": t_band, "band_min_site_log": got, "rows": "EASY t=1e-4, BAND tuned, ZERO t=8"}
        orders = [[EASY, BAND], [BAND, EASY], [EASY, 1.003 * BAND, 0.99 * BAND], [BAND, ZERO, EASY]]
        if ck.thorough():
            orders += [[EASY, ZERO, BAND], [ZERO, EASY, BAND], [BAND, EASY, ZERO], [EASY, EASY * 2, BAND, EASY * 3], [BAND, BAND * 1.02]]
        for oi, factors in enumerate(orders):
            if time.time() - t_start > budget_s:
                ck.notes.append(f"regime batches: budget reached in configuration {ci}")
                break
            hb = Hist(dict(base, t=t_band, batch=factors))
            eval_and_check(ck, drv, hb, f"regime-batch-{oi}-fresh", refs, fails, group="regime")
            eval_and_check(ck, drv, hb, f"regime-batch-{oi}-repeat", refs, fails, group="regime")
    return fails


# ----------------------------------------------------------------------------------------------


def zone_of(f):
    m = min(f["min_site_log"]) if f.get("min_site_log") else 0.0
    return "normal" if m > -708.39 else ("denormal-band" if m > -744.5 else "beyond-zero")


def sig_of(f):
    if f["kind"] in ("route-raised", "route-differs"):
        return "TreeLikelihoodModel:construction-route:" + f["kind"]
    if f["kind"] in ("device-move-raised", "copy-raised"):
        return "TreeLikelihoodModel:device-move:%s:raised" % f.get("op", "?").split("-")[0]
    if f["kind"] in ("inputs-modified", "grad-mode-differs", "not-repeatable", "flag-lost", "wrong-threshold",
                     "finite-for-impossible-data", "bad-shape"):
        return "TreeLikelihoodModel:" + f["kind"]
    if f["kind"] == "direct-disagree":
        return "calculate_treelikelihood:" + f["variant"] + ":disagrees-with-unrescaled"
    br = branch_name(f["calls"], False)
    if f["cfg"].get("clade") and f["kind"] in ("inaccurate", "not-finite"):
        return f"TreeLikelihoodModel:{br}:{f['kind']}:clade-heterogeneous-columns"
    if f["cfg"].get("regime_batch") and f["kind"] in ("inaccurate", "not-finite"):
        return f"TreeLikelihoodModel:{br}:{f['kind']}:batch-rows-in-different-regimes"
    if f["kind"] == "inaccurate" and f["cfg"].get("mixed"):
        return f"TreeLikelihoodModel:{br}:finite-but-inaccurate:{zone_of(f)}:mixed-alignment"
    if f["kind"] == "inaccurate":
        return f"TreeLikelihoodModel:{br}:finite-but-inaccurate:{zone_of(f)}"
    if f["kind"] == "not-finite":
        return f"TreeLikelihoodModel:{br}:not-finite:{zone_of(f)}"
    if f["kind"] == "raised" and f["cfg"].get("run_under"):
        return "TreeLikelihoodModel:dtype-regime"  # shared with C01: raises when default dtype != parameter dtype
    if f["kind"] == "raised":
        return "TreeLikelihoodModel:raised:" + f["error"].split(":")[0]
    return "TreeLikelihoodModel:" + f["kind"]


def run(ck: Check):
    ck.rule = (
        "one case = one evaluation of the real code compared with the exact model: small/* = a calculate_* function "
        "called directly on a random small tree (stored partials of every internal node + log-likelihood vs the Lean "
        "model at Rat); sweep/* = one evaluation (one sample of a batch) of a real TreeLikelihoodModel at one tree size "
        "vs the Rat reference, bucketed by where the smallest site likelihood lies (normal / denormal / zero in float64) "
        "and by the branch taken; distinct = distinct (history label, shape, model, size, K, tip path, sample, branch)"
    )
    ck.assumptions += [
        "theorems are over the reals: rescaled, safe and plain passes denote the same number for every tree; that the "
        "float64 execution stays within 1e-8 is an IEEE statement covered only by the sweep against the exact reference",
        "reference = exact pruning on the float64 matrices the implementation itself computed (P(t) accuracy is C04's "
        "subject); cross-checked against mpmath pruning from the parameters for JC69",
        "torch.max / matmul / log semantics and broadcasting are modelled, not verified",
    ]
    ck.trusted += ["torch matmul/max/log/cat/broadcasting", "dendropy newick parser (trees are built through parse_tree)",
                   "Lean Rat/Nat (GMP) arithmetic in the compiled driver", "mpmath (cross-check of the reference)"]
    sys.path.insert(0, str(VERIF / "harness" / "translators"))
    import tr_c03_underflow

    gen_src, tr_ok, tr_note, tr_fields = tr_c03_underflow.translate(REPO)
    ck.extra["underflow_translator"] = {"recognised": tr_ok, "fields": tr_fields, "note": tr_note}
    if not tr_ok:
        ck.notes.append("translator tr_c03_underflow: " + tr_note)
    ok, broken = ck.lean_side({"TTGen/C03_Underflow.lean": gen_src},
                              ["TTModel.C03_Rescale", "TTGen.C03_Underflow", "TTProofs.Props.C03", "TTProofs.Props.C03_Grad",
                               "TTProofs.Props.C03_Trees", "drv_c03"], PROPS)
    # companion files Props/C03_Grad.lean, Props/C03_Trees.lean are built and audited by common.lean_side
    drv = ck.driver("drv_c03")
    fails = []
    try:
        # sanity of the driver's logarithm (exact decomposition) against mpmath
        import mpmath as mp

        mp.mp.dps = 40
        for _ in range(20):
            p = ck.rng.getrandbits(ck.rng.choice([5, 60, 700, 9000])) + 1
            q = ck.rng.getrandbits(ck.rng.choice([5, 60, 700, 90000])) + 1
            got = h2f(drv.ask("lograt %d/%d" % (p, q)))
            want = float(mp.log(mp.mpf(p) / mp.mpf(q)))
            ck.bucket("reference-crosscheck/lograt")
            if abs(got - want) > 1e-12 * max(1.0, abs(want)):
                ck.mismatch("driver logarithm differs from mpmath", {"p": p, "q": q, "got": got, "want": want})
        direct_fails = []
        timing = ck.extra.setdefault("part_seconds", {})

        def timed(name, fn, *a):
            t0 = time.time()
            out = fn(*a)
            timing[name] = round(time.time() - t0, 1)
            return out

        timed("small", small_correspondence, ck, drv, 240 if ck.thorough() else 50, direct_fails)
        fails = direct_fails + timed("sweep", sweep, ck, drv, 600.0 if ck.thorough() else 44.0)
        fails += timed("mixed", mixed_sweep, ck, drv, 240.0 if ck.thorough() else 20.0)
        fails += timed("batch", batch_histories, ck, drv, 120.0 if ck.thorough() else 12.0)
        fails += timed("clade", clade_sweep, ck, drv, 150.0 if ck.thorough() else 10.0)
        fails += timed("regime", regime_batches, ck, drv, 150.0 if ck.thorough() else 12.0)
        fails += timed("routes", routes_check, ck, drv, 90.0 if ck.thorough() else 10.0)
        fails += timed("float32", float32_sweep, ck, drv, 120.0 if ck.thorough() else 10.0)
        fails += timed("invariants", invariants_check, ck, drv, 90.0 if ck.thorough() else 12.0)
        ck.extra["tensor_constructors_without_dtype_or_device"] = scan_tensor_constructors()
    finally:
        drv.close()
    ck.extra["sweep_failures"] = len(fails)
    if fails:
        # group by signature; report the smallest tree per signature, and the worst
        by = {}
        for f in fails:
            by.setdefault(sig_of(f), []).append(f)
        for sig, fs in by.items():
            fs.sort(key=lambda f: (f["cfg"]["n"], -(f.get("rel_err") or 0)))
            worst = max(fs, key=lambda f: f.get("rel_err") or 0)
            f = fs[0]
            what = (f"{f['label']} evaluation, {f['cfg'].get('shape')} {f['cfg'].get('model')} K={f['cfg'].get('K', 1)} "
                    f"n={f['cfg']['n']}: {f['kind']} (value {f.get('values')}, reference {f.get('reference')}, "
                    f"rel err {f.get('rel_err')}; worst of {len(fs)}: n={worst['cfg']['n']} rel err {worst.get('rel_err')})")
            ck.violation(sig, what, {"failure": f, "worst": {k: v for k, v in worst.items() if k != "sites"},
                                     "count": len(fs), "broken_obligations": broken,
                                     "replay_cmd": "./check C03 --replay <this file>"})
    elif not ok or ck.mismatches:
        ck.violation("C03:unproved", "C03 theorems or the model/implementation correspondence no longer check",
                     {"broken_obligations": broken, "mismatches": ck.mismatches[:5]}, found_input=False)


def replay(path: str) -> int:
    """rebuild the recorded model (shape, size, branch lengths, sequences), re-execute the recorded history on the
    real code and compare the last evaluation with the exact reference (recomputed when the driver is available)"""
    obj = json.loads(Path(path).read_text())
    f = obj.get("failure")
    if not f:
        print("replay names broken obligations only:", obj.get("broken_obligations"), obj.get("mismatches"))
        return 1
    if f["kind"] in ("route-differs", "route-raised") and f.get("specs"):
        torch = tt()
        cfg = dict(f["cfg"], sites=f["sites"])
        try:
            like = build_from_json(f["specs"])
            a = observe(like)
            b = observe(build_model(cfg).like)
            print("route-built:", a.get("error") or a["value"].tolist(), a["calls"], "use_tip_states", like.use_tip_states)
            print("constructor:", b.get("error") or b["value"].tolist(), b["calls"])
            bad = "error" in a or "error" in b or not torch.equal(a["value"], b["value"]) or like.use_tip_states != bool(cfg.get("tip_states"))
        except Exception as e:
            print("VIOLATES: building from the recorded JSON raised", type(e).__name__, e)
            return 1
        print("VIOLATES: route-built object differs" if bad else "ok")
        return 1 if bad else 0
    if f["kind"] == "direct-disagree":
        case = f["case"]
        case["post"] = [tuple(t) for t in case["post"]]
        vp, _, ep = call_direct(case, "plain")
        vv, _, ev = call_direct(case, f["variant"])
        print("plain", ep or float(vp), f["variant"], ev or float(vv))
        bad = ep is not None or ev is not None or not (rel(float(vp), float(vv)) <= TOL)
        print("VIOLATES: rescaled and unrescaled evaluation disagree" if bad else "ok")
        return 1 if bad else 0
    cfg = dict(f["cfg"], sites=f["sites"])
    if cfg.get("dtype") == "float32":
        _DTYPE["name"] = "float32"
    h = Hist(cfg)
    if not f.get("history"):
        f["history"] = [{"op": "evaluate"}]
    rec = None
    for op in f["history"]:
        if op["op"] == "set-rescale-flag":
            h.preset()
        elif op["op"] == "scale-branch-lengths":
            h.scale_branches(op["factor"])
        elif op["op"] == "set-sample-scales":
            h.set_sample_scales(op["factors"])
        elif op["op"] == "built-from-json":
            import random as _r

            specs, _ = json_like_spec(cfg, op["opts"], False, True, _r.Random(0))
            like = build_from_json(specs)
            h.b.like = like
            h.b.blp = branch_param(like)
        elif op["op"] == "set-branch-lengths":
            torch = tt()
            h.b.blp.tensor = torch.full_like(h.b.blp.tensor, op["value"])
        elif op["op"] in ("cpu", "to-cpu", "deepcopy-and-continue-on-copy"):
            try:
                h.apply_op(op["op"])
            except Exception as e:
                print("VIOLATES: %s raised %s: %s" % (op["op"], type(e).__name__, e))
                return 1
        elif op["op"] == "evaluate":
            if cfg.get("run_under"):
                built = _DTYPE["name"]
                with dtype_regime(cfg["run_under"]):
                    rec = h.evaluate()
                _DTYPE["name"] = built
            else:
                rec = h.evaluate()
            print("evaluate ->", rec.get("error") or [float(x) for x in rec["value"].reshape(-1).tolist()],
                  "calls", rec["calls"], "rescale flag", rec["flag_before"], "->", rec["flag_after"])
    if rec is None:
        print("no evaluation in the recorded history")
        return 1
    if "error" in rec:
        print("VIOLATES: implementation raised", rec["error"])
        return 1
    vals = [float(x) for x in rec["value"].reshape(-1).tolist()]
    refs = f.get("reference")
    try:
        from common import Driver

        drv = Driver("drv_c03")
        refs = []
        for s in range(len(vals)):
            tot, _ = reference(drv, h.b.like, rec["mats"], rec["freqs"], rec["props"], s if cfg.get("batch") else None)
            refs.append(tot)
        drv.close()
        print("exact reference recomputed:", refs)
    except Exception as e:  # driver not built: fall back to the recorded reference
        print("driver unavailable (%s); using the recorded reference %s" % (e, refs))
    bad = False
    for x, r in zip(vals, refs):
        e = rel(x, r)
        print("value %.17g reference %.17g relative error %.3g %s" % (x, r, e, "VIOLATES (> %g or not finite)" % tol_now() if not (e <= tol_now()) else "ok"))
        bad = bad or not (e <= tol_now())
    if f["kind"] == "flag-automaton":
        print("recorded flag-automaton failure:", f.get("model"), "observed calls", rec["calls"])
        bad = bad or (rec["flag_before"] and not rec["flag_after"])
    return 1 if bad else 0


if __name__ == "__main__":  # helper for the fresh-process comparison: python c03.py --fresh cfg.json
    if len(sys.argv) == 3 and sys.argv[1] == "--fresh":
        _cfg = json.loads(Path(sys.argv[2]).read_text())
        _b = build_model(_cfg)
        for _ in range(2):
            _r = observe(_b.like)
            print("FRESH " + ("ERR" if "error" in _r else ",".join(hexes(_r["value"].reshape(-1)))))
